#!/usr/bin/env python3
"""Generate MANIFEST.json from the table below (single source of truth for claimed checks)."""
import json, os
V = os.path.dirname(os.path.dirname(os.path.abspath(__file__)))
props = [json.loads(l)["id"] for l in open(os.path.join(V, "properties.jsonl"))]

def sysnote(extra=""):
    return ("Trusted: TLC; the recorder's projection (provenance ids via wrapped prior_transform/log_likelihood, order ranks, content tags, re-computation at the recorded temperature with the library's own functions); hooks placed after the state change. " + extra)

CHECKS = {
 "C03": dict(level="model_checking",
    text="PARTIAL (discrete kernel structure and the algebraic tpCN identity; not the continuous sampling laws). Kernel.tla: the Metropolis sweep on a cell-centred lattice (propose, fold, bounds check, accept/reject, joint record update) with exact integer transition weights for every target table, beta, symmetric increment alphabet and hard / periodic / reflective boundary kinds; TLC checks detailed balance, row-stochasticity and never leaving the cube for the intended hard-wall rule and refutes it for the redraw-until-inside rule. KernelTpcn.tla: gamma shape/rate, Crank-Nicolson map and Student-t correction over exact rationals; the reversibility identity reduces to a polynomial identity checked on all lattice pairs, three wrong variants refuted. Every enumerated transition / proposal is replayed into the real RWMRunner / TPCNRunner and through parallel_mcmc with scripted innovations (post-sweep records, draw counts, gamma parameters, acceptance factor compared). Known finding: tpCN on folded coordinates.",
    note="Trusted: TLC; that numpy.random.gamma/randn/rand sample the laws their parameters name; step-size adaptation is pinned; the image-sum comparison for folded coordinates uses exact Fractions with a rigorous tail bound outside TLC; direct simulations only confirm spec-derived predictions.",
    technique="TLA+ specs (Kernel.tla, KernelTpcn.tla) model-checked by TLC; enumerated transitions replayed into the implementation", design="DESIGN.md §4 C03"),
 "C04": dict(level="model_checking",
    text="MISWeights.tla computes the balance-heuristic weights and evidence in exact rational arithmetic (log-likelihoods k*ln2, temperatures in {0,1/2,1}, evidences powers of two) with one action per step of compute_logw_and_logz; TLC enumerates all histories within the bounds (T<=3 batches, unequal sizes, any temperature order) and checks the formula, sum-to-one, permutation invariance, shift invariance, batch-split invariance, the single-batch case and a dominant-term enclosure; five seeded wrong formulas are refuted. Every enumerated history is built in a real StateManager through its public API and compared with the rationals at 1e-12, and replayed through shift families up to +-1e6 and within-history spreads of +-1e6 (finite, normalised, inside the enclosure). In every recorded whole run the weights handed on by reweighting are compared with an independent reference (clause RW_RefAgrees).",
    note="Trusted: TLC; libm exp/log (the code's only inexactness); the largest models are sampled by VERIF_SEED in the quick tier.",
    technique="TLA+ spec (MISWeights.tla) model-checked by TLC; enumerated histories replayed into the implementation", design="DESIGN.md §4 C04"),
 "C05": dict(level="model_checking",
    text="Reweight.tla models Reweighter.run with one action per metric evaluation over a dyadic temperature grid and arbitrary (also non-monotone) ESS / volume-metric oracles chosen lazily by TLC; invariants: result in [beta_prev,1], advance => ESS(result) >= target (ESS mode), result <= ESS limit with ESS(limit) >= target (volume mode), written (beta, ess, logz) and returned weights carry the same temperature, termination; seeded wrong variants refuted. Every enumerated behaviour is replayed into the real Reweighter.run with tagged stubs (queried temperature sequence, written state and weight tag compared exactly); real-history runs without stubs. System layer: every Reweight event of recorded whole runs is validated by TLC against PSRunTrace.tla (RW_FirstZero, RW_Monotone, RW_Bounded, RW_AdvanceESS, RW_Limit, RW_SameBeta) with ESS / evidence / weights recomputed at the recorded temperature from the pre-step history.",
    note=sysnote("ESS >= target compared with 1e-9 relative slack on the library's own ESS function; that the weight formula is right is C04's job."),
    technique="TLA+ specs (Reweight.tla, PSRun.tla) model-checked by TLC; enumerated behaviours replayed into the implementation; trace validation of recorded runs", design="DESIGN.md §4 C05"),
 "C06": dict(level="model_checking",
    text="Resample.tla models the systematic comb as the implementation's loop over rational cumulative weights and the multinomial draw as inverse-CDF lookup; TLC enumerates every breakpoint and every cell of the offset partition (so every u0 in [0,1)) incl. the tolerance family (sum slightly below 1, offsets just below 1) and checks count, range, monotonicity, zero-weight exclusion, the floor/ceil law and exact unbiasedness as a counting identity; every enumerated case is replayed into tools.systematic_resample with the uniform scripted, and multinomial draws of the real Resampler.run are validated by TLC on order ranks of the regenerated uniforms.",
    note="Trusted: TLC; numpy's Mersenne-Twister uniforms and the stream consumption of numpy.random.choice (verified empirically at start-up); dyadic witnesses make double arithmetic exact at breakpoints.",
    technique="TLA+ spec (Resample.tla) model-checked by TLC; enumerated states replayed into the implementation; TLC judges observed outcomes (ResampleTrace.tla)", design="DESIGN.md §4 C06"),
 "C07": dict(level="model_checking",
    text="PSRun.tla models particles as records of provenance ids; TLC checks HistCoherent/CurCoherent on the bounded model and refutes the code-shaped variants (mask applied to some fields only, -inf draws kept). Every event of real runs over the option lattice (kernel x resampler x clustering x scalar/vector/blobs x boundary types x metric) is validated by TLC against the clauses RS_WholeCopies, MP_Coherent, MB_SameSlots, SW_PropCoherent, SW_Update, ME_Slots, CM_Coherent of PSRunTrace.tla.",
    note=sysnote("Test likelihoods are injective on the drawn points."),
    technique="TLA+ system spec (PSRun.tla) model-checked by TLC + trace validation of recorded runs (PSRunTrace.tla)", design="DESIGN.md §4 C07"),
 "C08": dict(level="fault_enumeration",
    text="Checkpoint.tla models the save as IO steps (open, write, flush, fsync, close, rename) with process death enabled in every state; TLC checks NeverTruncated / KeepsComplete / OldOrNew for the atomic protocol and refutes the in-place protocol. Every crash point the model enumerates - each IO call boundary and byte offsets of the pickle stream - is injected into the real save_state() with an old checkpoint under the final name (and as a first save); afterwards the final name must be absent or loadable and equal to the old or the new snapshot. Runs with save_every over {clustering, blobs, pool, kernel, cadence}: every checkpoint is loaded into a fresh sampler (Load event: restored == saved on every component incl. the random stream) and resumed to completion with the whole resumed trace validated by TLC against PSRunTrace.tla.",
    note=sysnote("Process death is simulated in-process at intercepted IO calls (written bytes kept); power-loss semantics are out of scope."),
    technique="TLA+ spec (Checkpoint.tla) model-checked by TLC; model-driven crash-point injection into the implementation; trace validation of load/resume runs (PSRunTrace.tla)", design="DESIGN.md §4 C08"),
 "C09": dict(level="model_checking",
    text="RngStream.tla models the provenance of numpy's global stream across library operations with the library's call graph; TLC checks NoLibReseed, NoReplay, ResumeContinues and Reproducible (two runs composed) and refutes the pinned tree's call graph. numpy.random.seed is wrapped (is the calling frame inside tempest?) and the full generator state is tagged at every step boundary of real runs, fits, saves and resumes; RngTrace.tla validates the recorded stream life incl. non-interference (same operation, identical data, two pre-seeds -> different post-states); Pair.tla validates bit-identity for equal random_state under different ambient streams and difference for different random_state.",
    note=sysnote("The Mersenne-Twister itself is trusted."),
    technique="TLA+ specs (RngStream.tla, RngTrace.tla, Pair.tla) model-checked by TLC; trace and pair validation of recorded runs", design="DESIGN.md §4 C09"),
 "C10": dict(level="model_checking",
    text="Pair.tla is the self-composition of a run at the grain of committed iterations with coupling relation R(c): same temperature, same particles, equal normalised weights and ESS, logz shifted by beta*c, final evidence shifted by c. Paired real runs (logL, logL+c, same seed, c in {+-1, +-37.5, +-1000}) over kernel x resampler x clustering x metric mode are projected and validated by TLC. Log-likelihoods are dyadic-valued and c dyadic so accept/reject decisions are bit-identical; a diverging pair is re-drawn with two further seeds (a rounding-level near-tie does not repeat, a defect does).",
    note=sysnote("Weights/ESS/evidence compared at 1e-9 relative (the property says 'up to floating-point rounding'); temperatures and particles exactly."),
    technique="TLA+ spec (Pair.tla) of the coupled runs; pair validation by TLC of recorded paired runs", design="DESIGN.md §4 C10"),
 "C11": dict(level="model_checking",
    text="PriorPhase.tla computes the warm-up evidence bookkeeping in exact rationals: TLC checks that admissible estimators stay in the convex hull of the per-batch supported fractions (Once, OneWhileNoInf) and refutes the add-the-correction-every-iteration design; every enumerated sequence of finite counts is replayed through the real pipeline at beta=0 with a scripted -inf pattern. PSRun clauses MP_NoInf, CM_NoInf, MP_LogzHull are validated by TLC on recorded runs of half-space targets.",
    note=sysnote("The 'final evidence converges to the supported integral' clause is statistical and not claimed. Known finding: a prior batch with no finite draw at all."),
    technique="TLA+ spec (PriorPhase.tla) model-checked by TLC; enumerated behaviours replayed into the implementation; trace validation (PSRunTrace.tla)", design="DESIGN.md §4 C11"),
 "C12": dict(level="model_checking",
    text="PSRun.tla Terminate clauses (TM_NearOne, TM_ESS, TM_Evidence) and the Posterior observation clauses (equal lengths, rows refer to the same stored particle, log-weights row-aligned, weights non-negative summing to one, uniform under resampling, arity) are evaluated by TLC on recorded runs; after every completed run all 2^4 flag combinations x 3 trimming parameter pairs are called.",
    note=sysnote("ESS>=n_total compared with 1e-9 relative slack; evidence compared with an independent MIS reference at 1e-9."),
    technique="TLA+ system spec (PSRun.tla) + trace validation of recorded runs and posterior() calls (PSRunTrace.tla)", design="DESIGN.md §4 C12"),
 "C13": dict(level="model_checking",
    text="Dispatch.tla: TLC explores every completion order of a worker pool and checks positional assembly and exact evaluation counts; every distinct order is replayed through the real SamplerCore._log_like with a pool-like object evaluating in that order (with and without blobs). PSRun clauses MP_Calls, ME_Calls, CallsExact are validated on recorded runs against the wrapped likelihood's own counter. Pair.tla: runs under one seed with scalar / vectorised / blobs / pool-like / pool=1 evaluation of a pointwise-identical likelihood must be bit-identical per committed iteration, in weights and in evidence.",
    note=sysnote("Pool-like objects honour the map contract; real multiprocess pools (pool=int>1) only in the thorough tier."),
    technique="TLA+ specs (Dispatch.tla, PSRun.tla, Pair.tla) model-checked by TLC; schedules replayed into the implementation; trace and pair validation", design="DESIGN.md §4 C13"),
 "C14": dict(level="model_checking",
    text="PSRun.tla carries the clusterer state and, for every proposal mode, the label it was fitted from; TLC checks LabelsCoherent on the bounded model and refutes the code-shaped variants (modes indexed by rank among occurring labels; predict on an unfitted clusterer). Recorded runs over cadence x cap x normalize x kernel x target are validated against TR_PredictFitted, TR_ModesOK, RS_LabelRange, MB_Labels, MB_ModesOK; the label a mode was fitted from is observed (rows handed to fit_mvstud looked up in the predicted labels).",
    note=sysnote(""),
    technique="TLA+ system spec (PSRun.tla) model-checked by TLC + trace validation of recorded runs (PSRunTrace.tla)", design="DESIGN.md §4 C14"),
 "C15": dict(level="model_checking",
    text="PARTIAL: the hierarchical model is decided with HGMSplit.tla (split loop with a nondeterministic BIC/partition oracle: labels are a partition, K <= cap, accepted splits have both children >= min_points, small clusters never split, predict in [0,K)); the oracle is a function of the cluster (state variable `oracle`, invariant OracleIsFunction), and object histories fit -> predict -> refit are part of the model (action Refit); every terminal behaviour is replayed into the real HierarchicalGaussianMixture with GaussianMixture replaced by a content-addressed, order-free fake that answers from the oracle (two of three replays into an object that was already fitted and queried), comparing outcomes (K, the labelling as a partition up to a relabelling of the clusters, accepted splits, prediction ranges, centre queries) and not the protocol of mixture calls; for real fits on generated data (10 data kinds x 9 weight kinds, two-level hierarchies, tiny-weight groups, normalize on/off, caps as the sampler sets them) the observed oracle is handed to TLC, HGMTrace.tla runs the specification on it and the outcomes are compared (inconclusive when the code never computed a value the specification needs). Integer sample weights = replication is decided relationally for GaussianMixture ('full' and 'diag'): GMMPair.tla couples fit(X, k) and fit(repeat(X, k)) in lock-step at the grain of one EM iteration (same picks, same parameters and lower bound at 1e-9, same convergence decision on exact ranks, same fitted model, predictions and BIC) and TLC validates the recorded pairs. The remaining EM mixture invariants (weights, symmetry, PSD, mean in bounding box) are MONITORED on every real fit and escalated only when gross, on clearly well-posed input and reproducible; tied/spherical excluded; the replication coupling is not claimed for the hierarchical model (its BIC ignores weights by design).",
    note="Trusted: TLC; scipy's multivariate normal; monitoring of the numerical EM routine is not a decision by the model.",
    technique="TLA+ specs (HGMSplit.tla, HGMTrace.tla) model-checked by TLC; scripted replays and trace validation of real fits; monitored predicates for EM", design="DESIGN.md §4 C15"),
 "C16": dict(
    level="model_checking",
    text="TLC enumerates Fold.tla exhaustively (all lattice vectors at resolutions M, all periodic/reflective/hard index assignments, 1-D and 2-row inputs) and checks the fold invariants and the symmetry of a symmetric walk on the folded space; every enumerated state is replayed into apply_boundary_conditions/check_bounds with exact doubles. IEEE-specific inputs (subnormals, +-0, ulp-neighbours of integers, |x| up to 1.8e308) are decided against the spec's definitions evaluated over exact rationals by an oracle that must reproduce every TLC state.",
    note="Trusted: TLC, IEEE-754 double arithmetic in numpy, exactness of k/M for dyadic M. The exact-rational oracle is validated against every enumerated spec state but is Python, not TLA+.",
    technique="TLA+ spec (Fold.tla) model-checked by TLC; all enumerated states replayed into the implementation; spec-derived exact oracle for IEEE inputs",
    design="DESIGN.md §4 C16"),
 "C17": dict(level="model_checking",
    text="StateHeap.tla models StateManager as an object heap (arrays are cells with identity and content version; what the caller holds vs. what is reachable from internal state) with one action per public method in the intended and the code-shaped semantics plus CallerScribble actions; TLC checks NoAlias, Stable, CacheCoherent, AppendOnly and OnePerCommit for all interleavings within the bounds and produces the shortest counterexamples for the code-shaped variant. Every enumerated operation sequence (and simulated deeper behaviours) is executed on a real StateManager: the observed sharing relation (is / numpy.shares_memory) must equal the intended one, then every returned object is overwritten and all getters re-read. System layer: real runs whose caller overwrites, after every iteration, everything returned by the getters, to_dict(), results(), posterior(); PSRunTrace.tla checks the append-only clauses at every commit and Pair.tla validates the scribbled run against an unscribbled twin.",
    note=sysnote("copy=False is the documented opt-in and is not an accessor violation."),
    technique="TLA+ specs (StateHeap.tla, PSRun.tla, Pair.tla) model-checked by TLC; enumerated behaviours replayed into the implementation; trace and pair validation", design="DESIGN.md §4 C17"),
 "C18": dict(level="model_checking",
    text="Config.tla holds the abstract option lattice and Valid(c) transcribed from the documented constraints. A covering array of the valid product (pairwise quick / 3-wise thorough; strength measured and re-checked by TLC against the spec's own Domain) plus every one-factor-at-a-time invalid value is run on the real Sampler; TLC validates the observed outcome of each configuration against Valid (rejected at construction with zero likelihood calls / runs to completion) and the full trace of every valid run against PSRunTrace.tla (NoRaise and the run postconditions).",
    note=sysnote("Covering-array strength is what is measured, not the full product."),
    technique="TLA+ specs (Config.tla, PSRun.tla); covering-array runs of the implementation validated by TLC", design="DESIGN.md §4 C18"),
 "C19": dict(level="model_checking",
    text="PARTIAL (relational trace validation). StudentPair.tla is the ECME loop of fit_mvstud at the grain of one iteration, self-composed under g(x) = S P x + t (per-coordinate scalings in [1e-6, 1e6], translations bounded by conditioning, coordinate permutations); paired observed fits (namespace proxies, no hooks; every observed fit is bit-identical to the unobserved one) on Gaussian, t(1-5), lognormal, contaminated, duplicated, correlated and unit-cube data (d 1-8, n >= 4d) are validated by TLC against the coupling relation, the loop's control flow, the step definitions and the well-posedness clauses (finite location inside the bounding box, symmetric positive-definite scale, dof in (0, inf]), with condition-aware rounding tolerances and near-ties classified (the outcome-level clauses - returned triple well-posed and equivariant, ModeStatistics clauses - decide the property; failures of step-level clauses alone are counted as deviations from the specification's step structure); n up to 1e5 points per fit with offsets up to 1e5 widths; ModeStatistics constructions are validated for the dof fallback, inverse and Cholesky sentence. On the pinned tree only initialisation, the inf-return path, well-posedness and ModeStatistics are exercised: the known finding optnu:inf-branch-despite-root makes the ECME body dead code (the body coupling is demonstrated against out/c19_fix.diff). Parameter recovery from large t-samples is an ensemble-statistics claim and is not claimed.",
    note="Trusted: TLC; numpy/scipy linear algebra and special functions; that the coupling relation is inductive in real arithmetic is stated in the spec header, not machine-checked (TLC has no reals); tolerances are measured on the pinned code (worst observed <= 4% of tolerance).",
    technique="TLA+ spec (StudentPair.tla) of the coupled fits; relational trace validation by TLC of observed paired fits", design="DESIGN.md §8.9 / §4 C19"),
 "C20": dict(level="model_checking",
    text="Trim.tla models ESS as an exact rational and trim_weights as the code's loop (percentile grid, linear-interpolated percentile, mask >= threshold, search from the top); TLC checks ESS bounds / scale invariance / uniform case, the upper-set structure, the ESS-ratio guarantee, renormalisation, alignment and termination; every non-tie state is replayed into tools.trim_weights / effective_sample_size / compute_ess at scales 2^-400, 1, 2^400; a transliteration validated against every TLC state serves as oracle for long / extreme-range vectors. VolVar.tla computes the volume-variation metric in exact rationals on small integer-lattice instances (d <= 2, N <= 4): TLC checks non-negativity and exact invariance under weight rescaling, permutation, translations and a generating set of invertible integer linear / affine maps, and refutes three wrong definitions; every instance is replayed into tools.volume_variation and through scale families (translations up to 1e8 x spread, scalings 2^+-20, anisotropic and rotated maps up to condition number 1e6, weights x 2^+-996) whose expected value is the spec's value for the small instance. Known finding: rotated maps of condition 1e6.",
    note="Trusted: TLC; numpy's percentile interpolation (read from source); states with exact ties or margins below 1e-9 are flagged by the spec and not replayed (counted). Volume metric: exact instances are small (d <= 2, N <= 4); degenerate instances (guard / regularised covariance) are checked for guard value, finiteness and non-negativity only; per-member tolerances are fixed at >= 100x the worst error of the pinned code (<= 1e-5).",
    technique="TLA+ specs (Trim.tla, VolVar.tla) model-checked by TLC; enumerated states replayed into the implementation incl. spec-derived scale families", design="DESIGN.md §4 C20"),
}
NA = {
 "C01": "ensemble statistics over seeds (bias of an estimator): no single behaviour can satisfy or violate it; TLC has no probability measure or real arithmetic",
 "C02": "ensemble statistics over seeds (consistency/independence of the evidence error); the state-machine causes (global reseed, evidence formula, warm-up bookkeeping) are decided under C09/C04/C11",
}
PENDING = "not yet claimed in this revision: the specification and conformance check for it are still being built (see DESIGN.md §4)"

checks = []
for pid in props:
    if pid in CHECKS:
        c = CHECKS[pid]
        checks.append({
            "property_id": pid,
            "quick_cmd": f"./check {pid} --tier quick",
            "thorough_cmd": f"./check {pid} --tier thorough",
            "evidence_file": f"/verif/evidence/{pid}.json",
            "replay_cmd_template": f"./check {pid} --replay {{path}}",
            "engine": "tlc+replay",
            "level_claimed": {"category": c["level"], "text": c["text"], "design_ref": c["design"]},
            "level_note": c["note"],
            "technique": c["technique"],
        })
na = [{"property_id": p, "reason": NA.get(p, PENDING)} for p in props if p not in CHECKS]
m = {
 "version": 1,
 "setup_cmd": "true",
 "hooks": {
   "guard": "TEMPEST_VERIF",
   "enable": "export TEMPEST_VERIF=1 (set by ./check); tempest/_verif.py emits events only when the guard is set and a sink is registered",
   "baseline_off_cmd": "/verif/tools/baseline_off.py",
   "source_commits": ["bc484fa"],
   "add_only": True,
 },
 "engines": [
   {"name": "tlc+replay", "path": "/verif/vlib", "serves_properties": sorted(CHECKS), "kind_free_text": "TLA+ specifications under /verif/specs checked by TLC 1.8; states/behaviours replayed into the Python implementation and recorded traces validated by TLC"},
 ],
 "checks": checks,
 "not_applicable": na,
 "notes": "Model-based verification with explicit TLA+ specifications checked by TLC (one Apalache run for the unbounded fold identities), bound to the implementation by replay of TLC-generated states / behaviours and by TLC validation of recorded traces; see DESIGN.md (section 8 is the as-built record). Known findings and the list of fixed: entries: /verif/known_findings.json. Seeded property-breaking changes (213) and property-preserving changes (false-alarm tests): /verif/seeded, /verif/benign. Extra specification beyond the listed properties: specs/KernelCtl.tla (./check X01, not a claimed check).",
}
json.dump(m, open(os.path.join(V, "MANIFEST.json"), "w"), indent=1)
print("claimed:", sorted(CHECKS), "not claimed:", [x["property_id"] for x in na])
