#!/usr/bin/env python3
"""Generate MANIFEST.json from the table below (single source of truth for claimed checks)."""
import json, os
V = os.path.dirname(os.path.dirname(os.path.abspath(__file__)))
props = [json.loads(l)["id"] for l in open(os.path.join(V, "properties.jsonl"))]

CHECKS = {
 "C16": dict(
    level="model_checking",
    text="TLC enumerates Fold.tla exhaustively (all lattice vectors at resolutions M, all periodic/reflective/hard index assignments, 1-D and 2-row inputs) and checks the fold invariants and the symmetry of a symmetric walk on the folded space; every enumerated state is replayed into apply_boundary_conditions/check_bounds with exact doubles. IEEE-specific inputs (subnormals, +-0, ulp-neighbours of integers, |x| up to 1.8e308) are decided against the spec's definitions evaluated over exact rationals by an oracle that must reproduce every TLC state.",
    note="Trusted: TLC, IEEE-754 double arithmetic in numpy, exactness of k/M for dyadic M. The exact-rational oracle is validated against every enumerated spec state but is Python, not TLA+.",
    technique="TLA+ spec (Fold.tla) model-checked by TLC; all enumerated states replayed into the implementation; spec-derived exact oracle for IEEE inputs",
    design="DESIGN.md §4 C16"),
}
NA = {
 "C01": "ensemble statistics over seeds (bias of an estimator): no single behaviour can satisfy or violate it; TLC has no probability measure or real arithmetic",
 "C02": "ensemble statistics over seeds (consistency/independence of the evidence error); the state-machine causes (global reseed, evidence formula, warm-up bookkeeping) are decided under C09/C04/C11",
 "C19": "numerical optimiser (ECME) on real-valued data; no discrete state/transition system to specify; the dof-fallback clause is monitored under C14",
}
PENDING = "not yet claimed in this revision: the specification and conformance check for it are still being built (see DESIGN.md §4)"

checks = []
for pid in props:
    if pid in CHECKS:
        c = CHECKS[pid]
        checks.append({
            "property_id": pid,
            "quick_cmd": f"./check {pid} --tier quick",
            "thorough_cmd": f"./check {pid} --tier thorough",
            "evidence_file": f"/verif/evidence/{pid}.json",
            "replay_cmd_template": f"./check {pid} --replay {{path}}",
            "engine": "tlc+replay",
            "level_claimed": {"category": c["level"], "text": c["text"], "design_ref": c["design"]},
            "level_note": c["note"],
            "technique": c["technique"],
        })
na = [{"property_id": p, "reason": NA.get(p, PENDING)} for p in props if p not in CHECKS]
m = {
 "version": 1,
 "setup_cmd": "true",
 "hooks": {
   "guard": "TEMPEST_VERIF",
   "enable": "export TEMPEST_VERIF=1 (set by ./check); tempest/_verif.py emits events only when the guard is set and a sink is registered",
   "baseline_off_cmd": "/verif/tools/baseline_off.py",
   "source_commits": [],
   "add_only": True,
 },
 "engines": [
   {"name": "tlc+replay", "path": "/verif/vlib", "serves_properties": sorted(CHECKS), "kind_free_text": "TLA+ specifications under /verif/specs checked by TLC 1.8; states/behaviours replayed into the Python implementation and recorded traces validated by TLC"},
 ],
 "checks": checks,
 "not_applicable": na,
 "notes": "Model-based verification with explicit TLA+ specifications; see DESIGN.md.",
}
json.dump(m, open(os.path.join(V, "MANIFEST.json"), "w"), indent=1)
print("claimed:", sorted(CHECKS), "not claimed:", [x["property_id"] for x in na])
