#!/usr/bin/env python3
"""Print the prompt for an independent mutant-writing agent (property text only, nothing from /verif)."""
import json, sys
pid, wt = sys.argv[1], sys.argv[2]
p = next(json.loads(l) for l in open('/verif/properties.jsonl') if json.loads(l)['id'] == pid)
print(f"""You are testing how well a Python library's correctness can be checked. The library is minaskar/tempest (Persistent Sampling, an SMC variant, pure Python). You work ONLY inside your own scratch git worktree of it at `{wt}` (already created; it is a checkout of the library's current state). Do not read or write anything under /verif or /repo, and do not look for other tooling on this machine - only the library source in your worktree matters. The files `tempest/_verif.py` and the `_verif.emit(...)` calls are inert instrumentation: ignore them and do not modify them.

Here is a semantic property of the library that must always hold:

TITLE: {p['title']}
STATEMENT: {p['statement']}
QUANTIFIER: {p['quantifier']['text']}
WHY THE EXISTING TESTS CANNOT SETTLE IT: {p['why_tests_cant']}

Your task: produce up to THREE different, realistic source changes to the library (each a small patch of the kind a developer could plausibly make by mistake or as a misguided refactoring/optimisation), each of which BREAKS this property while the library still imports and the existing test suite still passes exactly as before. Prefer changes that need something specific to manifest - a particular multi-step sequence of operations, an unusual but legal input or configuration, a particular history, a crash or fault at a particular point, a rare branch, or two cooperating edits that each look fine alone - NOT ones that ordinary use would expose at once (e.g. not something that makes every run crash). Make the three as different from each other as you can (different files / mechanisms / clauses of the property).

For each change deliver, under `{wt}/_mutants/<short-name>/`:
  * `patch.diff`  - `git diff` of the change against the worktree's HEAD (only library files under tempest/; never touch tests/),
  * `demo.py`     - a small stand-alone program (run as `cd {wt} && /venv/bin/python _mutants/<short-name>/demo.py`) that exits 0 on the unmodified library and exits 1 (printing what went wrong) with the change applied; it must be deterministic (seed everything) and finish in under 2 minutes,
  * `notes.md`    - which clause of the property it breaks, what it needs in order to manifest, and why the existing tests do not notice.

How to work: edit files in the worktree, run the suite with `cd {wt} && /venv/bin/python -m pytest -q -p no:cacheprovider --timeout=900 -x -q` (check once with `/venv/bin/python -c "import tempest; print(tempest.__file__)"` run from `{wt}` that the worktree's copy is the one imported). On the UNMODIFIED worktree exactly three tests fail (test_sample_with_save_every, test_custom_output_dir, test_resume - an artefact of pytest's captured stderr); the same three and only those must fail with your change. After saving a patch, restore the worktree with `git -C {wt} checkout -- tempest` before starting the next one, and verify each saved patch applies cleanly to a clean worktree (`git -C {wt} apply --check _mutants/<name>/patch.diff`). Leave the worktree clean (apart from `_mutants/`) when you finish.

Final message: list the mutants (name, one line each: what changes, what it needs to manifest), and confirm for each that (a) the suite result is unchanged, (b) demo.py exits 0 without and 1 with the patch.""")
