#!/bin/sh
# usage: tools/mut.sh <patch.diff> <check id> [<check id> ...]
# Apply a mutation to a scratch worktree at /repo's HEAD, run the checks against it (VERIF_REPO), reset the worktree.
p=$(realpath "$1"); shift
WT=${SEED_WT:-/tmp/mut_wt}
[ -d "$WT" ] || git -C /repo worktree add --detach "$WT" >/dev/null 2>&1 || exit 2
cd "$WT" || exit 2
git reset -q --hard && git checkout -q --detach "$(git -C /repo rev-parse HEAD)"
git apply "$p" || { echo "patch does not apply"; exit 2; }
for id in "$@"; do
  out=$(cd /verif && VERIF_REPO="$WT" ./check "$id" --no-evidence 2>&1); c=$?
  n=$(echo "$out" | grep -c '^VIOLATION')
  echo "== $(basename "$p") $id exit=$c violations=$n $(echo "$out" | grep -m1 '  key=' )"
done
git reset -q --hard
