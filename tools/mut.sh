#!/bin/sh
# usage: tools/mut.sh <patch.diff> <check id> [<check id> ...]   — apply a mutation to /repo, run checks, revert.
p=$(realpath "$1"); shift
cd /repo || exit 2
git diff --quiet || { echo "repo dirty, refusing"; exit 2; }
git apply "$p" || { echo "patch does not apply"; exit 2; }
trap 'git -C /repo checkout -- . ' EXIT INT TERM
rc=0
for id in "$@"; do
  out=$(cd /verif && ./check "$id" --no-evidence 2>&1); c=$?
  n=$(echo "$out" | grep -c '^VIOLATION')
  echo "== $(basename "$p") $id exit=$c violations=$n $(echo "$out" | grep -m1 '  key=' )"
done
