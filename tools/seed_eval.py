#!/usr/bin/env python3
"""Confirm a sub-agent's mutant and run our checks against it.
usage: seed_eval.py <property> <worktree> <mutant-dir-name> [--checks C07,C13] [--skip-suite]
Steps: (1) in the agent's scratch worktree: demo passes clean, fails with the patch, suite result unchanged;
(2) apply the patch to /repo, run the checks (--no-evidence), revert; (3) store under /verif/seeded/<property>-<name>/."""
import argparse, json, os, shutil, subprocess, sys, time
ap = argparse.ArgumentParser()
ap.add_argument("pid"); ap.add_argument("wt"); ap.add_argument("name")
ap.add_argument("--checks", default=None); ap.add_argument("--skip-suite", action="store_true")
a = ap.parse_args()
wt, md = a.wt, os.path.join(a.wt, "_mutants", a.name)
patch = os.path.join(md, "patch.diff")
def sh(cmd, cwd=None, timeout=1800):
    p = subprocess.run(cmd, shell=True, cwd=cwd, capture_output=True, text=True, timeout=timeout)
    return p.returncode, p.stdout + p.stderr
res = {"property": a.pid, "name": a.name}
assert sh("git diff --quiet -- tempest", wt)[0] == 0, "worktree dirty"
env = "TEMPEST_VERIF= "
rc0, _ = sh(f"{env}/venv/bin/python _mutants/{a.name}/demo.py", wt, 300)
assert sh(f"git apply {patch}", wt)[0] == 0, "patch does not apply in worktree"
try:
    rc1, out1 = sh(f"{env}/venv/bin/python _mutants/{a.name}/demo.py", wt, 300)
    if not a.skip_suite:
        rcs, outs = sh("/venv/bin/python -m pytest -q -p no:cacheprovider --timeout=900 2>&1 | tail -6", wt, 1200)
        res["suite_tail"] = outs.strip().splitlines()[-4:]
        failed = sorted(l.split("::")[-1].split(" ")[0] for l in outs.splitlines() if l.startswith("FAILED"))
        res["suite_failed"] = failed
        res["suite_unchanged"] = failed == ["test_custom_output_dir", "test_resume", "test_sample_with_save_every"]
finally:
    sh("git checkout -- tempest", wt)
res["demo_clean_exit"], res["demo_mutant_exit"] = rc0, rc1
res["demo_ok"] = (rc0 == 0 and rc1 == 1)
# (2) our checks, against a dedicated scratch worktree at /repo's HEAD (so /repo itself is never dirtied while
# other work is running against it); the checks import the library from $VERIF_REPO
EV = os.environ.get("SEED_WT", "/tmp/seed_wt")
if not os.path.isdir(EV):
    assert sh(f"git -C /repo worktree add --detach {EV}")[0] == 0
sh("git reset -q --hard && git checkout -q --detach $(git -C /repo rev-parse HEAD)", EV)
rc, out = sh(f"git apply --3way {patch} 2>&1 || git apply {patch}", EV)
applied = sh("git diff --quiet HEAD", EV)[0] != 0
res["applies_to_repo_head"] = applied
checks = (a.checks.split(",") if a.checks else [a.pid])
res["checks"] = {}
if applied:
    try:
        for c in checks:
            t = time.time()
            rc, out = sh(f"VERIF_REPO={EV} ./check {c} --no-evidence", os.environ.get("VERIF_SNAP", "/verif"), 3600)
            keys = sorted({l.strip().split(":")[0].replace("key=", "") + ":" + l.strip().split(":")[1] for l in out.splitlines() if l.strip().startswith("key=")})
            res["checks"][c] = {"exit": rc, "violations": out.count("VIOLATION property="), "keys": keys[:6], "wall_s": round(time.time() - t)}
            if rc not in (0, 1):
                res["checks"][c]["tail"] = out.strip().splitlines()[-6:]
    finally:
        sh("git reset -q --hard", EV)
res["caught_by"] = [c for c, r in res["checks"].items() if r["exit"] == 1]
dst = f"/verif/seeded/{a.pid}-{a.name}"
os.makedirs(dst, exist_ok=True)
for f in ("patch.diff", "demo.py", "notes.md"):
    if os.path.exists(os.path.join(md, f)):
        shutil.copy(os.path.join(md, f), dst)
old = {}
if os.path.exists(os.path.join(dst, "meta.json")):
    try:
        old = json.load(open(os.path.join(dst, "meta.json")))
    except Exception:
        old = {}
if a.skip_suite and old.get("confirmed", {}).get("suite_unchanged") is not None:
    res["suite_unchanged"] = old["confirmed"]["suite_unchanged"]
    res["suite_failed"] = old["confirmed"].get("suite_failed")
hist = old.get("history", [])
if old.get("results"):
    hist.append({"at_verif_commit": old.get("verif_commit"), "results": old["results"], "caught_by": old.get("caught_by")})
vc = subprocess.run("git -C /verif rev-parse --short HEAD", shell=True, capture_output=True, text=True).stdout.strip()
meta = {"verif_commit": vc, "history": hist, "property": a.pid, "name": a.name, "needs_to_manifest": "see notes.md", "confirmed": {k: res.get(k) for k in ("demo_clean_exit", "demo_mutant_exit", "suite_unchanged", "suite_failed")},
        "ran": [f"./check {c} --no-evidence (with patch applied to /repo, then reverted)" for c in checks], "results": res["checks"], "caught_by": res["caught_by"]}
if old.get("decision"):
    meta["decision"] = old["decision"]
json.dump(meta, open(os.path.join(dst, "meta.json"), "w"), indent=1)
print(json.dumps(res, indent=1))
