#!/venv/bin/python
"""Run the repository's pinned suite with the verification guard OFF and compare with BASELINE.json:
every test in stable_pass must pass. Exit 0 iff so."""
import json, os, subprocess, sys, tempfile, xml.etree.ElementTree as ET

base = json.load(open("/root/.vp/BASELINE.json")) if os.path.exists("/root/.vp/BASELINE.json") else None
env = dict(os.environ)
env.pop("TEMPEST_VERIF", None)
with tempfile.TemporaryDirectory() as d:
    xml = os.path.join(d, "junit.xml")
    cmd = ["/venv/bin/python", "-m", "pytest", "-ra", "-q", "-p", "no:cacheprovider", "--timeout=900",
           "--continue-on-collection-errors", f"--junitxml={xml}"]
    p = subprocess.run(cmd, cwd="/repo", env=env, capture_output=True, text=True)
    print("\n".join(p.stdout.splitlines()[-15:]))
    passed = set()
    failed = set()
    for tc in ET.parse(xml).getroot().iter("testcase"):
        name = f"{tc.get('classname')}::{tc.get('name')}"
        if any(ch.tag in ("failure", "error") for ch in tc):
            failed.add(name)
        elif not any(ch.tag == "skipped" for ch in tc):
            passed.add(name)
print(f"passed={len(passed)} failed={len(failed)}")
if base is None:
    sys.exit(0 if not failed else 1)
missing = [t for t in base["stable_pass"] if t not in passed]
print(f"stable_pass={len(base['stable_pass'])} missing={len(missing)}")
for t in missing:
    print("  NOT PASSING:", t)
newly = sorted(passed - set(base["stable_pass"]))
if newly:
    print("newly passing:", newly)
sys.exit(0 if not missing else 1)
