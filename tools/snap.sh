#!/bin/sh
# usage: tools/snap.sh <dir>   - export the COMMITTED /verif into <dir> (evaluations run from a snapshot, so that editing /verif
# while a long evaluation is running cannot disturb it); remove <dir> when done
rm -rf "$1"; mkdir -p "$1" && git -C /verif archive HEAD | tar -x -C "$1" && echo "$1 at $(git -C /verif rev-parse --short HEAD)"
