#!/usr/bin/env python3
"""Run every check against a property-PRESERVING change written by an independent sub-agent (false-alarm test).
usage: benign_eval.py <area> <worktree> <name> [--checks C03,C04,...]
The patch (<worktree>/_benign/<name>/patch.diff) is applied to a scratch worktree at /repo's HEAD, the checks are pointed at
it with VERIF_REPO, and the result is stored under /verif/benign/<area>-<name>/.  Any exit other than 0 needs a decision:
a false alarm (machinery too strict -> correct it) or a change that is not benign after all (say why in meta.json)."""
import argparse, json, os, shutil, subprocess, sys, time
ap = argparse.ArgumentParser()
ap.add_argument("area"); ap.add_argument("wt"); ap.add_argument("name"); ap.add_argument("--checks", default=None)
a = ap.parse_args()
md = os.path.join(a.wt, "_benign", a.name)
patch = os.path.join(md, "patch.diff")
ALL = ["C%02d" % i for i in range(3, 21)]
def sh(cmd, cwd=None, timeout=3600):
    p = subprocess.run(cmd, shell=True, cwd=cwd, capture_output=True, text=True, timeout=timeout)
    return p.returncode, p.stdout + p.stderr
EV = os.environ.get("SEED_WT", "/tmp/benign_wt")
if not os.path.isdir(EV):
    assert sh(f"git -C /repo worktree add --detach {EV}")[0] == 0
sh("git reset -q --hard && git checkout -q --detach $(git -C /repo rev-parse HEAD)", EV)
rc, out = sh(f"git apply {patch}", EV)
assert rc == 0, "patch does not apply to /repo HEAD: " + out
res = {"area": a.area, "name": a.name, "checks": {}}
dst = f"/verif/benign/{a.area}-{a.name}"
os.makedirs(dst, exist_ok=True)
old = {}
if os.path.exists(os.path.join(dst, "meta.json")):
    old = json.load(open(os.path.join(dst, "meta.json")))
try:
    for c in (a.checks.split(",") if a.checks else ALL):
        t = time.time()
        rc, out = sh(f"VERIF_REPO={EV} ./check {c} --no-evidence", os.environ.get("VERIF_SNAP", "/verif"))
        keys = sorted({l.strip().split(":", 1)[0].replace("key=", "") + ":" + l.strip().split(":")[1] for l in out.splitlines() if l.strip().startswith("key=")})
        res["checks"][c] = {"exit": rc, "violations": out.count("VIOLATION property="), "keys": keys[:8], "wall_s": round(time.time() - t)}
        if rc != 0:
            res["checks"][c]["tail"] = [l[:400] for l in out.strip().splitlines() if l.strip().startswith(("key=", "VIOLATION", "[C"))][:12] or out.strip().splitlines()[-8:]
        print(c, rc, keys[:3], flush=True)
finally:
    sh("git reset -q --hard", EV)
for f in ("patch.diff", "why_benign.md"):
    if os.path.exists(os.path.join(md, f)):
        shutil.copy(os.path.join(md, f), dst)
res["alarms"] = [c for c, r in res["checks"].items() if r["exit"] != 0]
res["verif_commit"] = sh("git -C /verif rev-parse --short HEAD")[1].strip()
hist = old.get("history", [])
if old.get("checks"):
    hist.append({"verif_commit": old.get("verif_commit"), "alarms": old.get("alarms"), "checks": {c: r for c, r in old["checks"].items() if r["exit"] != 0}})
res["history"] = hist
res["decision"] = old.get("decision")
json.dump(res, open(os.path.join(dst, "meta.json"), "w"), indent=1)
print("ALARMS:", res["alarms"])
