#!/usr/bin/env python3
"""Summarise /verif/seeded/*/meta.json as a markdown table (and normalise the meta files)."""
import glob, json, os, re, sys
rows = []
for d in sorted(glob.glob('/verif/seeded/*/')):
    mp = os.path.join(d, 'meta.json')
    if not os.path.exists(mp):
        continue
    m = json.load(open(mp))
    notes = open(os.path.join(d, 'notes.md')).read() if os.path.exists(os.path.join(d, 'notes.md')) else ''
    needs = ''
    mm = re.search(r'(?is)(needs?[^\n]*|what it needs[^\n]*|to manifest[^\n]*)\n+(.{0,700})', notes)
    if mm:
        needs = re.sub(r'\s+', ' ', mm.group(2)).strip()[:500]
    elif notes:
        needs = re.sub(r'\s+', ' ', notes).strip()[:400]
    m['needs_to_manifest'] = needs or m.get('needs_to_manifest')
    m['ran'] = [r.replace('(with patch applied to /repo, then reverted)', '(patch applied to a scratch worktree at /repo HEAD, checks pointed at it with VERIF_REPO, worktree reset afterwards)') for r in m.get('ran', [])]
    json.dump(m, open(mp, 'w'), indent=1)
    first = (m.get('history') or [{}])[0].get('caught_by') if m.get('history') else None
    keys = []
    for c, r in (m.get('results') or {}).items():
        if r.get('exit') == 1:
            keys += [f"{c}:{k}" for k in r.get('keys', [])[:2]]
    rows.append((m['property'], m['name'], 'yes' if (m.get('confirmed') or {}).get('suite_unchanged') else '?',
                 ', '.join(m.get('caught_by') or []) or ('out of scope (see decision)' if m.get('decision') else '**missed**'), ('first missed' if (first == [] and m.get('caught_by')) else ''), '; '.join(keys)[:110]))
lines = ['| written for | mutant | suite unchanged | caught by | note | violation keys |', '|---|---|---|---|---|---|']
lines += ['| ' + ' | '.join(r) + ' |' for r in rows]
print('\n'.join(lines))
print(f"\n{len(rows)} changes; {sum(1 for r in rows if r[4])} first missed; {sum(1 for r in rows if 'missed**' in r[3])} still missed", file=sys.stderr)
if '--update-design' in sys.argv:
    p = '/verif/DESIGN.md'
    s = open(p).read()
    a = s.index('<!-- seeded-table:begin')
    a = s.index('\n', a) + 1
    b = s.index('<!-- seeded-table:end -->')
    open(p, 'w').write(s[:a] + '\n'.join(lines) + '\n' + s[b:])
