"""Thin, strict wrapper around TLC.

A run is either `ok` (exit 0), a `violation` (TLC exit 10..13: assumption, deadlock, safety, liveness)
or a machinery failure (everything else) which raises TLCFailure -> the check exits 2.
"""
from __future__ import annotations

import os
import re
import shutil
import subprocess
import tempfile
import time
from dataclasses import dataclass, field

from . import tla

SPECS = os.path.join(os.path.dirname(os.path.dirname(os.path.abspath(__file__))), "specs")
JAR = "/opt/veriftools/tla/tla2tools.jar:/opt/veriftools/tla/CommunityModules-deps.jar"


class TLCFailure(RuntimeError):
    pass


@dataclass
class TLCResult:
    status: str  # "ok" | "violation"
    exit_code: int
    stdout: str
    generated: int = 0
    distinct: int = 0
    depth: int = 0
    violated: str = ""  # name of violated invariant/property, "deadlock", "assumption"
    error_trace: list = field(default_factory=list)
    coverage: dict = field(default_factory=dict)  # action name -> (distinct, total)
    dump_path: str | None = None
    workdir: str | None = None
    wall_s: float = 0.0
    cmd: str = ""

    def states(self):
        if not self.dump_path:
            raise TLCFailure("no dump requested")
        return tla.iter_dump(self.dump_path)

    def cleanup(self):
        if self.workdir and os.path.isdir(self.workdir):
            shutil.rmtree(self.workdir, ignore_errors=True)
            self.workdir = None


_GEN = re.compile(r"(\d+) states generated, (\d+) distinct states found")
_DEPTH = re.compile(r"The depth of the complete state graph search is (\d+)")
_INV = re.compile(r"Error: Invariant (\S+) is violated")
_ACTP = re.compile(r"Error: Action property (\S+) is violated")
_COV = re.compile(r"^<(\w+) line \d+, col \d+ to line \d+, col \d+ of module (\w+)>: (\d+):(\d+)")


def scratch_dir(prefix="vtlc_"):
    base = os.environ.get("VERIF_SCRATCH") or tempfile.gettempdir()
    os.makedirs(base, exist_ok=True)
    _janitor(base)
    return tempfile.mkdtemp(prefix=prefix, dir=base)


def _janitor(base, max_age_s=6 * 3600):
    """Remove our own scratch directories left behind by runs that were killed (SIGKILL / time limit)."""
    now = time.time()
    try:
        for fn in os.listdir(base):
            if fn.startswith(("vtlc_", "vtr_", "vpair_", "vcfg_", "vrng_")):
                p = os.path.join(base, fn)
                try:
                    if os.path.isdir(p) and now - os.path.getmtime(p) > max_age_s:
                        shutil.rmtree(p, ignore_errors=True)
                except OSError:
                    pass
    except OSError:
        pass


def run_tlc(
    module: str,
    cfg_text: str,
    *,
    workers: int | str = 16,
    dump: bool = False,
    coverage: bool = False,
    simulate: str | None = None,  # e.g. "num=100" ; files go to workdir/sim/
    depth: int | None = None,
    seed: int | None = None,
    env: dict | None = None,
    timeout: int = 3600,
    extra_modules: dict | None = None,  # name -> text, generated modules placed next to the spec
    deadlock: bool = False,
    java_opts: list | None = None,
    keep: bool = False,
) -> TLCResult:
    """Run TLC on specs/<module>.tla with the given cfg text. The spec directory is copied into a
    scratch directory so that generated modules / metadata never touch /verif/specs."""
    work = scratch_dir()
    for fn in os.listdir(SPECS):
        if fn.endswith(".tla"):
            shutil.copy(os.path.join(SPECS, fn), work)
    for name, text in (extra_modules or {}).items():
        with open(os.path.join(work, name), "w") as f:
            f.write(text)
    cfg_path = os.path.join(work, f"{module}.cfg")
    with open(cfg_path, "w") as f:
        f.write(cfg_text)
    cmd = ["java", "-XX:+UseParallelGC", "-Xmx8g"] + (java_opts or []) + ["-cp", JAR, "tlc2.TLC"]
    cmd += ["-workers", str(workers), "-metadir", os.path.join(work, "meta"), "-noGenerateSpecTE"]
    cmd += ["-config", cfg_path]
    if deadlock:
        cmd += ["-deadlock"]  # -deadlock DISABLES deadlock checking
    dump_path = None
    if dump:
        dump_path = os.path.join(work, "states")
        cmd += ["-dump", dump_path]
        dump_path += ".dump"
    if coverage:
        cmd += ["-coverage", "1"]
    if simulate is not None:
        os.makedirs(os.path.join(work, "sim"), exist_ok=True)
        cmd += ["-simulate", f"file={os.path.join(work, 'sim', 'tr')},{simulate}"]
    if depth is not None:
        cmd += ["-depth", str(depth)]
    if seed is not None:
        cmd += ["-seed", str(seed)]
    cmd += [os.path.join(work, f"{module}.tla")]
    e = dict(os.environ)
    e.update(env or {})
    t0 = time.time()
    try:
        p = subprocess.run(cmd, cwd=work, env=e, capture_output=True, text=True, timeout=timeout)
    except subprocess.TimeoutExpired as ex:
        shutil.rmtree(work, ignore_errors=True)
        raise TLCFailure(f"TLC timeout after {timeout}s on {module}") from ex
    out = p.stdout + ("\n" + p.stderr if p.stderr.strip() else "")
    res = TLCResult(
        status="ok",
        exit_code=p.returncode,
        stdout=out,
        dump_path=dump_path,
        workdir=work,
        wall_s=time.time() - t0,
        cmd=" ".join(cmd),
    )
    for m in _GEN.finditer(out):
        res.generated, res.distinct = int(m.group(1)), int(m.group(2))
    m = _DEPTH.search(out)
    if m:
        res.depth = int(m.group(1))
    if coverage:
        # TLC prints the statistics periodically; only the last report is the final count
        cov_text = out.rsplit("The coverage statistics at", 1)[-1]
        for ln in cov_text.splitlines():
            mc = _COV.match(ln.strip())
            if mc:
                name = mc.group(1)
                d, t = int(mc.group(3)), int(mc.group(4))
                od, ot = res.coverage.get(name, (0, 0))
                res.coverage[name] = (od + d, ot + t)
    if p.returncode == 0:
        res.status = "ok"
    elif p.returncode in (10, 11, 12, 13):
        res.status = "violation"
        mi = _INV.search(out) or _ACTP.search(out)
        if mi:
            res.violated = mi.group(1)
        elif p.returncode == 11:
            res.violated = "deadlock"
        elif p.returncode == 10:
            res.violated = "assumption"
        elif p.returncode == 13:
            res.violated = "liveness"
        else:
            res.violated = "safety"
        res.error_trace = tla.parse_error_trace(out)
    else:
        tail = "\n".join(out.splitlines()[-40:])
        if not keep:
            shutil.rmtree(work, ignore_errors=True)
        raise TLCFailure(f"TLC machinery failure (exit {p.returncode}) on {module}:\n{tail}")
    return res


def sim_traces(res: TLCResult):
    d = os.path.join(res.workdir, "sim")
    out = []
    for fn in sorted(os.listdir(d)):
        out.append(tla.parse_sim_trace(os.path.join(d, fn)))
    return out


def run_apalache(module: str, inv: str, cinit: str | None = None, length: int = 1, timeout: int = 600, init: str | None = None):
    """Apalache (symbolic, unbounded integers) on specs/<module>.tla. Returns ("ok" | "violation" | "unavailable", text)."""
    import shutil as _sh

    if _sh.which("apalache-mc") is None:
        return "unavailable", "apalache-mc not on PATH"
    work = scratch_dir("vapa_")
    try:
        shutil.copy(os.path.join(SPECS, f"{module}.tla"), work)
        cmd = ["apalache-mc", "check", f"--inv={inv}", f"--length={length}", f"--out-dir={os.path.join(work, 'out')}"]
        if cinit:
            cmd.append(f"--cinit={cinit}")
        if init:
            cmd.append(f"--init={init}")
        cmd.append(f"{module}.tla")
        try:
            p = subprocess.run(cmd, cwd=work, capture_output=True, text=True, timeout=timeout)
        except subprocess.TimeoutExpired:
            return "unavailable", f"apalache timed out after {timeout}s"
        out = p.stdout + p.stderr
        if "The outcome is: NoError" in out:
            return "ok", out[-600:]
        if "The outcome is: Error" in out or "violat" in out.lower():
            return "violation", out[-2500:]
        return "unavailable", out[-800:]
    finally:
        shutil.rmtree(work, ignore_errors=True)
