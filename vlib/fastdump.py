"""Fast reader for TLC `-dump` / `-simulate file=` output when every state variable is an integer,
a string, or a (nested) sequence of those: `<<..>>` is rewritten to a JSON array and parsed by the C
json module (about 50x faster than vlib.tla's general parser).  Sets, records and functions are not
supported here - use vlib.tla for those.
"""
from __future__ import annotations

import json
import os
import re

_VAR = re.compile(r"^/\\ (\w+) = (.*)$")


def _parse_block(lines):
    st = {}
    cur = None
    buf = []
    for ln in lines:
        m = _VAR.match(ln)
        if m:
            if cur is not None:
                st[cur] = _val(" ".join(buf))
            cur, buf = m.group(1), [m.group(2)]
        elif cur is not None and ln.strip():
            buf.append(ln.strip())
    if cur is not None:
        st[cur] = _val(" ".join(buf))
    return st


def _val(s: str):
    s = s.strip()
    if s == "TRUE":
        return True
    if s == "FALSE":
        return False
    return json.loads(s.replace("<<", "[").replace(">>", "]"))


def iter_dump(path, keep=None):
    """Yield the states of a dump file as dicts.  `keep`: optional substring that must occur in the
    raw text of a state (e.g. '/\\ pc = "done"') - other states are skipped without being parsed."""
    block = []
    hit = keep is None
    with open(path) as f:
        for ln in f:
            if ln.startswith("State ") and ln.rstrip().endswith(":"):
                if block and hit:
                    yield _parse_block(block)
                block = []
                hit = keep is None
                continue
            ln = ln.rstrip("\n")
            if ln:
                block.append(ln)
                if not hit and keep in ln:
                    hit = True
        if block and hit:
            yield _parse_block(block)


def last_states_of_sim(simdir):
    """For every behaviour file written by `-simulate file=...`: the last state (dict)."""
    for fn in sorted(os.listdir(simdir)):
        block = []
        with open(os.path.join(simdir, fn)) as f:
            for ln in f:
                ln = ln.rstrip("\n")
                if ln.startswith("STATE_"):
                    block = []
                elif ln.startswith("/\\") or (block and ln.strip() and not ln.startswith("=") and not ln.startswith("\\*")):
                    block.append(ln)
        if block:
            yield _parse_block(block)
