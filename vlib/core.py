"""Common check scaffolding: argument handling, violations / known findings, evidence files.

Exit codes: 0 = property held on everything explored (possibly with KNOWN-FINDING lines),
1 = at least one violation not listed in known_findings.json, 2 = machinery failure.
"""
from __future__ import annotations

import argparse
import json
import os
import sys
import time
import traceback

VERIF = os.path.dirname(os.path.dirname(os.path.abspath(__file__)))
REPO = os.environ.get("VERIF_REPO", "/repo")
GUARD = "TEMPEST_VERIF"


def import_repo():
    """Make `import tempest` resolve to /repo's working tree, hooks on, no bytecode written there."""
    sys.dont_write_bytecode = True
    os.environ[GUARD] = "1"
    os.environ.setdefault("PYTHONHASHSEED", "0")
    if REPO not in sys.path[:1]:
        sys.path.insert(0, REPO)
    import tempest  # noqa

    f = os.path.realpath(tempest.__file__)
    if not f.startswith(os.path.realpath(REPO) + os.sep):
        raise RuntimeError(f"tempest imported from {f}, expected under {REPO}")
    return tempest


def load_known():
    p = os.path.join(VERIF, "known_findings.json")
    if not os.path.exists(p):
        return {"findings": [], "fixed": []}
    with open(p) as f:
        return json.load(f)


class Check:
    def __init__(self, pid: str, level: str, argv=None, description=""):
        ap = argparse.ArgumentParser(description=description or pid)
        ap.add_argument("--tier", default=os.environ.get("VERIF_TIER", "quick"), choices=["quick", "thorough"])
        ap.add_argument("--replay", default=None)
        ap.add_argument("--selftest", action="store_true", help="run the binding self-test (corrupt traces / oracle) only")
        ap.add_argument("--no-evidence", action="store_true")
        self.args = ap.parse_args(argv)
        self.pid = pid
        self.level = level
        self.tier = self.args.tier
        self.seed = int(os.environ.get("VERIF_SEED", "0") or 0)
        self.t0 = time.time()
        self.violations = 0
        self.known_hits = {}
        self.known = [k for k in load_known().get("findings", []) if k.get("property") == pid]
        self.cov = {}
        self.samples = []
        self.assumptions = []
        self._replay_n = 0
        self._seen_keys = set()

    # ------------------------------------------------------------------ reporting
    def sample(self, obj, limit=6):
        if len(self.samples) < limit:
            self.samples.append(obj)

    def add(self, key, n=1):
        self.cov[key] = self.cov.get(key, 0) + n

    def violation(self, key: str, what: str, replay: dict):
        """key: stable identifier of the failing site/input class (matched against known findings)."""
        for k in self.known:
            if k["key"] == key:
                if key not in self.known_hits:
                    print(f"KNOWN-FINDING: property={self.pid} {k['what']}", flush=True)
                self.known_hits[key] = self.known_hits.get(key, 0) + 1
                return False
        self.violations += 1
        if key in self._seen_keys and self.violations > 20:
            return True
        self._seen_keys.add(key)
        d = os.path.join(VERIF, "out", "replays")
        os.makedirs(d, exist_ok=True)
        self._replay_n += 1
        path = os.path.join(d, f"{self.pid}_{self._replay_n}.json")
        with open(path, "w") as f:
            json.dump({"property": self.pid, "key": key, "what": what, "replay": replay}, f, indent=1, default=_js)
        print(f"VIOLATION property={self.pid} replay={path}", flush=True)
        print(f"  key={key}: {what}", flush=True)
        return True

    def finish(self, coverage: dict):
        cov = dict(coverage)
        cov.setdefault("samples", self.samples or [{"note": "no sample recorded"}])
        cov["known_findings_reproduced"] = sorted(self.known_hits)
        for k, v in self.cov.items():
            cov.setdefault(k, v)
        ev = {
            "property_id": self.pid,
            "tier": self.tier,
            "seed": self.seed,
            "level": self.level,
            "coverage": cov,
            "assumptions": self.assumptions,
            "wall_s": round(time.time() - self.t0, 2),
            "violations": self.violations,
        }
        if not self.args.no_evidence:
            d = os.path.join(VERIF, "evidence")
            os.makedirs(d, exist_ok=True)
            with open(os.path.join(d, f"{self.pid}.json"), "w") as f:
                json.dump(ev, f, indent=1, default=_js)
        print(
            f"[{self.pid}] tier={self.tier} seed={self.seed} violations={self.violations} "
            f"known={len(self.known_hits)} wall={ev['wall_s']}s",
            flush=True,
        )
        sys.exit(1 if self.violations else 0)


def _js(o):
    try:
        import numpy as np

        if isinstance(o, np.generic):
            return o.item()
        if isinstance(o, np.ndarray):
            return o.tolist()
    except Exception:
        pass
    if isinstance(o, (set, frozenset)):
        return sorted(o, key=repr)
    if isinstance(o, tuple):
        return list(o)
    return repr(o)


def main_guard(fn):
    """Run a check's main(); any unexpected exception is a machinery failure (exit 2)."""
    try:
        fn()
    except SystemExit:
        raise
    except BaseException:
        traceback.print_exc()
        print("MACHINERY-FAILURE (exit 2)", flush=True)
        sys.exit(2)
