"""Relational (two-run) binding: run the real sampler twice on related inputs, project both runs at the
grain of committed iterations and let TLC check the coupling relation of specs/Pair.tla."""
from __future__ import annotations

import json
import os
import shutil

import numpy as np

from . import core, psrun, tla, tlc


def summarize(sampler):
    """Per committed iteration: raw floats + digests (JSON-able)."""
    H = sampler.state._history
    T = len(H["beta"])
    its = []
    for t in range(T):
        blobs = H["blobs"][t] if len(H.get("blobs", [])) > t else None
        its.append({
            "iter": int(H["iter"][t]) if len(H["iter"]) > t else t + 1,
            "beta": float(H["beta"][t]),
            "logz": float(H["logz"][t]) if len(H["logz"]) > t else 0.0,
            "ess": float(H["ess"][t]) if len(H["ess"]) > t else 0.0,
            "calls": int(H["calls"][t]) if len(H["calls"]) > t else 0,
            "batch": psrun.digest(H["u"][t], H["x"][t]).hex(),
            "logl": [float(v) for v in np.asarray(H["logl"][t], dtype=float)],
        })
    try:
        logw, _ = sampler.state.compute_logw_and_logz(1.0)
        w = np.exp(logw - np.max(logw))
        w = (w / w.sum()).tolist()
    except Exception:
        w = []
    try:
        ev = float(sampler.evidence()[0])
    except Exception:
        ev = float("nan")
    return {"iters": its, "weights": w, "evidence": ev}


def run_plain(job):
    """Worker: one plain run (no recorder), returns the summary. job = {conf, n_total, seed, pre_seed}"""
    core.import_repo()
    import warnings

    warnings.filterwarnings("ignore")
    from . import drivers

    np.random.seed(job["seed"])
    out = {"job": job, "raised": None, "raised_site": None, "all_inf_batch": False, "nan_prior_draw": False}
    s = None
    try:
        s, c = drivers.build_sampler(job["conf"], None, out_dir=None)
        if job.get("pre_draws"):
            np.random.random(job["pre_draws"])
        s.run(n_total=job.get("n_total", 32), progress=False)
        out.update(summarize(s))
    except Exception as ex:
        out["raised"] = repr(ex)
        out["raised_site"] = psrun.raise_site(ex) + ":" + type(ex).__name__
        try:  # the known all-zero-likelihood prior batch (C11 finding) makes everything downstream NaN
            out["all_inf_batch"] = any(not np.any(np.isfinite(b)) for b in s.state._history["logl"])
            # the user's likelihood returned NaN for a PRIOR draw (the drivers' NaN pocket is meant to be reached by proposals only,
            # but a prior draw can land in it): the value is stored and everything downstream is NaN - invalid input, outside the properties
            out["nan_prior_draw"] = any(bool(np.any(np.isnan(np.asarray(b, dtype=float)))) for b, be in zip(s.state._history["logl"], s.state._history["beta"]) if float(be) == 0.0)
        except Exception:
            pass
        out.update({"iters": [], "weights": [], "evidence": float("nan")})
    return out


def out_of_scope(r):
    """A run that died of a defect recorded under ANOTHER property (known findings of C11 / C14) says nothing about the
    relation a pair check decides: such pairs are discarded and counted."""
    if r.get("all_inf_batch"):
        return "all-inf-prior-batch (C11 known finding)"
    if r.get("nan_prior_draw"):
        return "the likelihood returned NaN for a prior draw (invalid input, stored as is)"
    rs = r.get("raised_site") or ""
    if rs.startswith("student.") and rs.endswith(":LinAlgError"):
        return "degenerate cluster: singular scale in fit_mvstud (C14 known finding)"
    return None


def run_twice(job):
    """Worker: the same seeded run executed twice IN THE SAME PROCESS (state kept in module globals or caches by
    the library would make the second differ). Returns {"first": summary, "second": summary}."""
    a = run_plain(dict(job))
    b = run_plain(dict(job, seed=job["seed"] + 4321, pre_draws=11))
    return {"first": a, "second": b}


def run_pair_in_process(job):
    """Worker: two related runs (job["a"], job["b"]) one after the other IN THE SAME PROCESS (what the library keeps in module or
    class level state survives from the first to the second)."""
    return {"a": run_plain(dict(job["a"])), "b": run_plain(dict(job["b"]))}


def run_many(jobs, procs=None, timeout=600.0, func=None):
    from . import procs as pr
    from .sysrun import PROCS

    res = pr.run(func or run_plain, jobs, procs=min(procs or PROCS, max(1, len(jobs))), timeout=timeout)
    out = []
    for j, (st, r) in zip(jobs, res):
        if st == "ok":
            out.append(r)
        else:
            what = f"run did not complete within {r:.0f}s (hang)" if st == "timeout" else f"worker failed: {r[:300]}"
            out.append({"job": j, "raised": what, "all_inf_batch": False, "iters": [], "weights": [], "evidence": float("nan")})
    return out


def project_pair(A, B, kind="same", c=0.0, exact=True, rtol=1e-9):
    """Project two summaries into the Pair.tla input. exact: bit-equality of floats; else rtol."""

    def same(x, y):
        if exact:
            return x == y or (np.isnan(x) and np.isnan(y))
        return bool(np.isclose(x, y, rtol=rtol, atol=rtol))

    a, b = [], []
    for k in range(max(len(A["iters"]), len(B["iters"]))):
        ia = A["iters"][k] if k < len(A["iters"]) else None
        ib = B["iters"][k] if k < len(B["iters"]) else None
        if ia is not None:
            a.append({"iter": ia["iter"], "beta": 2 * k, "batch": 2 * k, "ess": 2 * k, "zres": 0, "calls": ia["calls"]})
        if ib is not None:
            d = {"iter": ib["iter"], "calls": ib["calls"]}
            if ia is None:
                d.update(beta=2 * k + 1, batch=2 * k + 1, ess=2 * k + 1, zres=1)
            else:
                d["beta"] = 2 * k if ia["beta"] == ib["beta"] else 2 * k + 1  # temperatures are compared exactly
                # particles: same unit-cube points and blobs; log-likelihoods shifted by c
                la, lb = np.asarray(ia["logl"]), np.asarray(ib["logl"])
                same_l = la.shape == lb.shape and (bool(np.array_equal(lb, la + c)) if exact else bool(np.allclose(lb, la + c, rtol=rtol, atol=rtol)))
                d["batch"] = 2 * k if (ia["batch"] == ib["batch"] and same_l) else 2 * k + 1
                d["ess"] = 2 * k if same(ia["ess"], ib["ess"]) else 2 * k + 1
                res = ib["logz"] - ia["logz"] - ia["beta"] * c
                tol = 0.0 if exact else rtol * max(1.0, abs(c), abs(ia["logz"]))
                d["zres"] = 0 if (abs(res) <= tol or (np.isnan(ia["logz"]) and np.isnan(ib["logz"]))) else 1
            b.append(d)
    wa, wb = np.asarray(A["weights"]), np.asarray(B["weights"])
    if exact:
        same_w = wa.shape == wb.shape and bool(np.array_equal(wa, wb))
    else:
        same_w = wa.shape == wb.shape and bool(np.allclose(wa, wb, rtol=1e-7, atol=1e-12))
    res = B["evidence"] - A["evidence"] - c
    tol = 0.0 if exact else rtol * max(1.0, abs(c), abs(A["evidence"]))
    fin = {"zres": 0 if (abs(res) <= tol or (np.isnan(res) and np.isnan(A["evidence"]) and np.isnan(B["evidence"]))) else 1, "wa": 1, "wb": 1 if same_w else 2}
    return {"kind": kind, "a": a, "b": b, "fin": fin}


CFG = "INIT Init\nNEXT Next\nINVARIANT TypeOK\nCHECK_DEADLOCK FALSE\n"


def validate_pairs(pairs):
    if not pairs:
        return [], {"states": 0}
    work = tlc.scratch_dir("vpair_")
    path = os.path.join(work, "pairs.json")
    with open(path, "w") as f:
        json.dump(pairs, f)
    try:
        res = tlc.run_tlc("Pair", CFG, workers=1, env={"TRACE_FILE": path})
    finally:
        shutil.rmtree(work, ignore_errors=True)
    out = res.stdout
    res.cleanup()
    if res.status != "ok":
        raise tlc.TLCFailure("Pair: unexpected TLC verdict " + res.violated + out[-1500:])
    expected = sum(min(len(p["a"]), len(p["b"])) + 2 for p in pairs)
    if res.distinct != expected:
        raise tlc.TLCFailure(f"Pair consumed {res.distinct} states, expected {expected}\n{out[-2000:]}")
    fails = []
    for ln in out.splitlines():
        if ln.startswith('<<"FAIL"'):
            v = tla.parse_value(ln)
            fails.append({"pid": v[1], "i": v[2], "kind": v[3], "clauses": sorted(v[4])})
    return fails, {"states": res.distinct, "generated": res.generated}
