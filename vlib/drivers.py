"""Drivers: small test problems and a function that runs the real Sampler under the recorder."""
from __future__ import annotations

import itertools
import os

import numpy as np

from . import psrun


# ------------------------------------------------------------------------------- targets
class Target:
    """A test problem: affine prior transform on [lo, hi]^d and a likelihood in scalar / vectorised /
    blob-returning form that are pointwise identical (same floating-point operations per point)."""

    def __init__(self, n_dim, kind="gauss", lo=-5.0, hi=5.0, shift=0.0, support=None, quant=None, slow=None, nan_pocket=None):
        self.n_dim = n_dim
        self.kind = kind
        self.lo, self.hi = lo, hi
        self.shift = shift
        self.nan_pocket = nan_pocket  # None, or radius of a small ball around the mode where the likelihood returns NaN
        self.slow = slow  # None, or seconds to sleep for points with x[0] > 0 (evaluation time varies across a batch)
        self.quant = quant  # None, or q: log-likelihood values rounded to multiples of 2^-q (dyadic: adding a dyadic shift is exact)
        self.support = support  # None or fraction f: likelihood is zero unless u_0 < f  (x_0 < lo + f (hi-lo))
        if kind == "gauss":
            self.mu = np.linspace(-1.0, 1.0, n_dim) if n_dim > 1 else np.array([0.5])
            self.sig = np.linspace(0.7, 1.3, n_dim) if n_dim > 1 else np.array([0.8])
        elif kind == "bimodal":
            self.mu = np.full(n_dim, 2.5)
            self.sig = np.full(n_dim, 0.6)
        elif kind == "narrow":  # two well separated narrow modes (sigma = 1% of the cube): the hierarchical clusterer does split
            self.mu = np.full(n_dim, 2.5)
            self.sig = np.full(n_dim, 0.1)
        elif kind == "tophat":  # plateau likelihood: every supported point has the same (finite) value
            self.mu = np.zeros(n_dim)
            self.sig = np.ones(n_dim)
        elif kind == "needle":  # one very narrow mode (sigma = 0.03% of the cube): log-likelihood range ~1e7, the first positive temperature is tiny
            self.mu = np.linspace(-1.0, 1.0, n_dim) if n_dim > 1 else np.array([0.5])
            self.sig = np.full(n_dim, 0.003)
        elif kind == "banana":  # curved ridge: the hierarchical clusterer cuts it into ADJACENT clusters (points near the cuts)
            self.mu = np.zeros(n_dim)
            self.sig = np.ones(n_dim)
        elif kind == "edge":  # posterior mass abuts the lower prior boundary
            self.mu = np.full(n_dim, lo)
            self.sig = np.full(n_dim, 1.0)
        else:
            raise ValueError(kind)

    def prior_transform(self, u):
        # written per component, the way users write priors with different laws per parameter (x[0] = ..., x[1] = ...): for ONE
        # point this is bit-identical to lo + (hi - lo) * u; handed a whole batch (n, d) it would transform rows, not parameters
        x = np.array(u, dtype=float)
        for j in range(self.n_dim):
            x[j] = self.lo + (self.hi - self.lo) * u[j]
        return x

    def _logl_point(self, x):
        # explicit per-coordinate arithmetic so that batch and scalar evaluation are bit-identical
        if self.slow and x[0] > 0:
            import time

            time.sleep(self.slow)
        if self.support is not None and not (x[0] < self.lo + self.support * (self.hi - self.lo)):
            return -np.inf
        s = 0.0
        if self.kind == "tophat":
            return float(0.0 + self.shift) if all(abs(x[j]) < 3.0 for j in range(self.n_dim)) else -np.inf
        if getattr(self, "nan_pocket", None) and sum((x[j] - self.mu[j]) ** 2 for j in range(self.n_dim)) < self.nan_pocket ** 2:
            return float("nan")
        if self.kind == "banana":
            a = x[0]
            b = x[1] - 0.6 * (x[0] * x[0] - 2.0)
            s = -0.5 * (a / 1.6) ** 2 - 0.5 * (b / 0.25) ** 2
            for j in range(2, self.n_dim):
                s += -0.5 * x[j] ** 2
            return float(s + self.shift)
        if self.kind in ("bimodal", "narrow"):
            a = 0.0
            b = 0.0
            for j in range(self.n_dim):
                a += -0.5 * ((x[j] - self.mu[j]) / self.sig[j]) ** 2
                b += -0.5 * ((x[j] + self.mu[j]) / self.sig[j]) ** 2
            m = a if a > b else b
            s = m + np.log(np.exp(a - m) + 0.5 * np.exp(b - m))
        else:
            for j in range(self.n_dim):
                s += -0.5 * ((x[j] - self.mu[j]) / self.sig[j]) ** 2
        if self.quant is not None:
            s = float(np.round(s * 2.0 ** self.quant) / 2.0 ** self.quant)
        return float(s + self.shift)

    def logl_scalar(self, x):
        return self._logl_point(x)

    def logl_vector(self, X):
        return np.array([self._logl_point(x) for x in np.atleast_2d(X)])

    def logl_vector_reuse(self, X):
        """A vectorised likelihood that re-uses its output buffer between calls (legal: the values it returns
        for a call are correct when it returns; callers that keep the array must copy it)."""
        X = np.atleast_2d(X)
        buf = getattr(self, "_buf", None)
        if buf is None or len(buf) != len(X):
            buf = self._buf = np.empty(len(X))
        for i, x in enumerate(X):
            buf[i] = self._logl_point(x)
        return buf

    def logl_blob(self, x):
        # blob: a different injective function of x
        return self._logl_point(x), float(np.sum(x * np.arange(1, self.n_dim + 1)) + 0.125 * x[0] ** 3)


def _logl_blob2(self, x):
    # TWO scalar blobs per point (a plain numeric blobs_dtype): different injective functions of x
    return self._logl_point(x), float(np.sum(x * np.arange(1, self.n_dim + 1)) + 0.125 * x[0] ** 3), float(x[0] - 3.0 * x[-1] + 0.0625 * x[-1] ** 3)


Target.logl_blob2 = _logl_blob2


class PermutingPool:
    """Pool-like object: map(f, xs) evaluates in a seed-driven order, returns in input order (map contract)."""

    def __init__(self, seed=0):
        self.rng = np.random.RandomState(seed)
        self.n_maps = 0

    def map(self, f, xs):
        xs = list(xs)
        order = self.rng.permutation(len(xs))
        out = [None] * len(xs)
        for i in order:
            out[i] = f(xs[i])
        self.n_maps += 1
        return out


def shared_logl(x, offset=7.0, tgt=None):
    """ONE module-level likelihood for every sampler that uses via="shared": target and additive constant arrive as the user's
    extra keyword arguments (log_likelihood_kwargs); anything keyed on the function object alone confuses two samplers."""
    return tgt._logl_point(x) + offset


GLOBAL_TARGET = None


def global_logl(x):
    """Module-level likelihood over module-level data: the user rebinds GLOBAL_TARGET between two fits in one process."""
    return GLOBAL_TARGET._logl_point(x)


class FaultyPool:
    """Pool-like object whose map() fails ONCE, part-way through a batch (a lost worker): the points evaluated before the failure
    WERE evaluated.  The library may let the error propagate (the run dies: fine) - but if it carries on, its call count must still
    be the number of points at which the user's likelihood was evaluated."""

    def __init__(self, fail_at_map=3):
        self.fail_at_map, self.n_maps = fail_at_map, 0

    def map(self, f, xs):
        xs = list(xs)
        self.n_maps += 1
        if self.n_maps == self.fail_at_map:
            for x in xs[: max(1, len(xs) // 2)]:
                f(x)
            raise OSError("worker lost (injected by the harness)")
        return [f(x) for x in xs]


DEFAULTS = dict(n_dim=2, n_particles=8, ess_ratio=2.0, volume_variation=None, evaluation="scalar", periodic=None,
                reflective=None, pool=None, clustering=True, normalize=True, cluster_every=1, split_threshold=1.0,
                n_max_clusters=None, sample="tpcn", n_steps=None, n_max_steps=None, resample="mult",
                random_state=None, target="gauss", support=None, shift=0.0, quant=None, slow=None, nan_pocket=None, via=None)


def build_sampler(conf: dict, rec: psrun.Recorder | None, out_dir=None):
    from tempest import Sampler

    c = dict(DEFAULTS)
    c.update(conf)
    via = c.get("via")   # None | "kwargs" | "args": the constant added to the log-likelihood travels through log_likelihood_kwargs / _args
    tgt = Target(c["n_dim"], c["target"], shift=(0.0 if via else c["shift"]), support=c["support"], quant=c["quant"], slow=c["slow"], nan_pocket=c["nan_pocket"])
    ev = c["evaluation"]
    if ev == "blobs_nodtype":   # the likelihood returns (logl, blob) but blobs_dtype is not configured
        ll, vec, bd = tgt.logl_blob, False, None
    elif ev == "vector":
        ll, vec, bd = tgt.logl_vector, True, None
    elif ev == "vector_reuse":
        ll, vec, bd = tgt.logl_vector_reuse, True, None
    elif ev == "vector_f32":   # a vectorised likelihood that returns a single-precision batch (GPU / JAX style)
        ll, vec, bd = (lambda X, _f=tgt.logl_vector: np.asarray(_f(X)).astype(np.float32)), True, None
    elif ev == "scalar_f32":   # one point at a time, each value a numpy single-precision SCALAR (jax / torch / float32 pipelines)
        ll, vec, bd = (lambda x, _f=tgt._logl_point: np.float32(_f(x))), False, None
    elif ev == "scalar_r32":   # the same values as python floats
        ll, vec, bd = (lambda x, _f=tgt._logl_point: float(np.float32(_f(x)))), False, None
    elif ev == "vector_r32":   # the same values as one double-precision batch
        ll, vec, bd = (lambda X, _f=tgt.logl_vector: np.asarray(_f(X)).astype(np.float32).astype(np.float64)), True, None
    elif ev == "global":       # a module-level likelihood that reads module-level data (what a pool's workers see depends on when they were started)
        global GLOBAL_TARGET
        GLOBAL_TARGET = tgt
        ll, vec, bd = global_logl, False, None
    elif ev == "blobs":
        ll, vec, bd = tgt.logl_blob, False, "float"
    elif ev == "blobs_f4":   # one scalar blob stored in single precision (pairs only: the recorder's blob provenance assumes float64)
        ll, vec, bd = tgt.logl_blob, False, "f4"
    elif ev == "blobs2":
        ll, vec, bd = tgt.logl_blob2, False, "float"
    else:
        ll, vec, bd = tgt.logl_scalar, False, None
    extra = {}
    if via:
        base_ll = ll
        wrong = float(c["shift"]) + 7.0     # what the function would add if the user's extra argument got lost on the way

        def _plus(r, offset):
            if isinstance(r, (tuple, list)):
                return (r[0] + offset,) + tuple(r[1:])
            return r + offset

        if via == "shared":
            ll = shared_logl
            extra = dict(log_likelihood_kwargs={"offset": float(c["shift"]), "tgt": tgt})
        elif via == "kwargs":
            def ll(x, offset=wrong):  # noqa: E306
                return _plus(base_ll(x), offset)
            extra = dict(log_likelihood_kwargs={"offset": float(c["shift"])})
        else:
            def ll(x, offset, unused=None):  # noqa: E306
                return _plus(base_ll(x), offset)
            extra = dict(log_likelihood_args=[float(c["shift"])])
    pt = tgt.prior_transform
    if rec is not None:
        pt = rec.wrap_prior(pt)
        ll = rec.wrap_like(ll, vectorize=vec)
    if isinstance(c["random_state"], str) and c["random_state"].startswith("np:"):
        c["random_state"] = np.int64(int(c["random_state"][3:]))   # an integer seed of numpy type (what rng.integers / array indexing give)
    pool = c["pool"]
    if pool == "perm":
        pool = PermutingPool(seed=c.get("pool_seed", 0))
    elif pool == "executor":
        # an executor-style pool: map() and submit() but no close(); holds thread / queue objects that cannot be pickled (one worker
        # thread: evaluation stays sequential, so the recorder's counters are safe)
        from concurrent.futures import ThreadPoolExecutor

        pool = ThreadPoolExecutor(max_workers=1)
    elif pool == "faulty":
        pool = FaultyPool(fail_at_map=c.get("fail_at_map", 3))
    s = Sampler(
        prior_transform=pt, log_likelihood=ll, n_dim=c["n_dim"], n_particles=c["n_particles"], ess_ratio=c["ess_ratio"],
        volume_variation=c["volume_variation"], vectorize=vec, blobs_dtype=bd, periodic=c["periodic"],
        reflective=c["reflective"], pool=pool, clustering=c["clustering"], normalize=c["normalize"],
        cluster_every=c["cluster_every"], split_threshold=c["split_threshold"], n_max_clusters=c["n_max_clusters"],
        sample=c["sample"], n_steps=c["n_steps"], n_max_steps=c["n_max_steps"], resample=c["resample"],
        output_dir=out_dir, output_label="ps", random_state=c["random_state"], **extra,
    )
    return s, c


def record_run(conf: dict, n_total=32, seed=0, label="", posterior_flags=None, save_every=None, out_dir=None,
               resume=None, rec=None, sampler=None, manual_iters=0):
    """Run the real sampler once under the recorder. Returns (recorder, sampler, trace)."""
    c = dict(DEFAULTS)
    c.update(conf)
    if rec is None:
        rec = psrun.Recorder(c["n_dim"], have_blobs=(c["evaluation"] in ("blobs", "blobs2")), label=label)
    np.random.seed(seed)
    if sampler is None:
        sampler, c = build_sampler(conf, rec, out_dir=out_dir)
        rec.attach(sampler)
    rec.requested_n_total = int(n_total)
    rec.expect_final_save = save_every is not None
    if label:
        rec.label = label
    with psrun.hooks_on(rec):
        rec._entry_mark = rec.evals
        try:
            sampler.run(n_total=n_total, progress=False, save_every=save_every, resume_state_path=resume)
            ok = True
            for _ in range(manual_iters):  # the caller keeps iterating with the public sample() after run() returned
                sampler.sample()
        except Exception as ex:  # an exception escaping run() is an event no spec action matches
            rec.raised(ex)
            ok = False
        if ok and posterior_flags:
            for fl in posterior_flags:
                kw = dict(resample=fl[0], trim_importance_weights=fl[1], return_blobs=fl[2], return_logw=fl[3])
                if len(fl) > 4:
                    kw.update(ess_trim=fl[4], bins_trim=fl[5])
                try:
                    out = sampler.posterior(**kw)
                    rec.posterior_event(fl[:4], out, c["evaluation"] in ("blobs", "blobs2"), ess_trim=(fl[4] if len(fl) > 4 else 0.99))
                except Exception as ex:
                    rec.raised(ex)
                    break
    tr = rec.end_run()
    if tr is not None:
        tr["meta"]["conf"] = {k: (v if isinstance(v, (int, float, str, bool, type(None), list)) else repr(v)) for k, v in c.items()}
        tr["meta"]["seed"] = seed
    return rec, sampler, tr


ALL_FLAGS = [tuple(bool(b) for b in bits) for bits in itertools.product([0, 1], repeat=4)]
