"""System-level binding (direction A): run the real sampler over a lattice of configurations under the
recorder (in parallel processes), validate all traces with TLC against PSRunTrace.tla and attribute the
failing clauses to properties."""
from __future__ import annotations

import concurrent.futures as cf
import json
import multiprocessing as mp
import os
import time

from . import core, psrun

PROCS = max(2, min(14, (os.cpu_count() or 4) - 2))


def _job(job):
    core.import_repo()
    import warnings

    warnings.filterwarnings("ignore")
    from . import drivers

    kind = job.get("kind", "run")
    if kind == "run":
        sampler = rec = None
        if job.get("oracle") == "late_crossing":
            # synthetic history: the pool ESS falls below the target only in the last 1e-4 before beta = 1 (the real ESS is
            # reported everywhere except at exactly beta = 1.0), so the ESS-limited temperature lands inside (1 - 1e-4, 1)
            import numpy as np
            from . import psrun as ps

            c = dict(drivers.DEFAULTS)
            c.update(job["conf"])
            rec = ps.Recorder(c["n_dim"], have_blobs=(c["evaluation"] in ("blobs", "blobs2")), label=job.get("label", ""))
            np.random.seed(job["seed"])
            sampler, _ = drivers.build_sampler(job["conf"], rec)
            rw = sampler._core.reweighter
            orig = rw._compute_metric_and_weights

            def oracle(beta):
                r0 = orig(beta)
                w, ess, metric = r0
                if beta == 1.0:
                    ess = 0.0
                    if rw.volume_variation is None:
                        metric = 0.0
                # hand back the same KIND of object the library's own method returns (a plain tuple, or a named tuple)
                return type(r0)(w, ess, metric) if (hasattr(r0, "_fields") and len(r0) == 3) else (w, ess, metric)

            rw._compute_metric_and_weights = oracle
            rec.attach(sampler)
        rec, s, tr = drivers.record_run(job["conf"], n_total=job.get("n_total", 32), seed=job["seed"], label=job.get("label", ""),
                                        posterior_flags=job.get("flags"), manual_iters=job.get("manual_iters", 0), rec=rec, sampler=sampler)
        out = [tr] if tr is not None else []
        if job.get("rerun") and tr is not None and not any(e["ev"] == "Raised" for e in tr["events"]):
            # run(n_total') called AGAIN on the same sampler object (PSRun!RunAgain): its own trace, same recorder
            rec, s, tr2 = drivers.record_run(job["conf"], n_total=job["rerun"], seed=job["seed"] + 7, label=job.get("label", "") + "+rerun",
                                             posterior_flags=job.get("flags"), rec=rec, sampler=s)
            if tr2 is not None:
                tr2["meta"]["rerun"] = True
                out.append(tr2)
        return out
    raise ValueError(kind)


def run_jobs(jobs, procs=PROCS, timeout=600.0):
    if not jobs:
        return []
    from . import procs as pr

    res = pr.run(_job, jobs, procs=min(procs, len(jobs)), timeout=timeout)
    traces = []
    for i, (j, (st, r)) in enumerate(zip(jobs, res)):
        if st == "ok":
            trs = r
        elif st == "timeout":
            # a run that hangs is an event no PSRun action matches
            trs = [{"cfg": {"np": 1, "one": 1, "target": 0, "nTotal": 0, "metric": "ess", "clustering": False, "clusterEvery": 1, "cap": 0,
                            "minSweeps": 1, "maxSweeps": 1, "periodic": [], "reflective": []},
                    "events": [{"ev": "Raised", "what": f"run did not complete within {r:.0f}s (hang)", "step": "?"}],
                    "meta": {"label": j.get("label", ""), "seed": j.get("seed"), "conf": j.get("conf"), "dbg": [None]}}]
        else:
            raise RuntimeError("recording worker failed (machinery): " + r)
        for t in trs:
            t["meta"]["job"] = i
            traces.append(t)
    return traces


def resume_job(job):
    """Worker: run with save_every, then for every checkpoint: fresh sampler, load + resume to completion."""
    core.import_repo()
    import warnings

    warnings.filterwarnings("ignore")
    import numpy as np
    import glob
    import shutil
    import tempfile
    from . import drivers, psrun as ps

    out_dir = tempfile.mkdtemp(prefix="c08run_")
    traces = []
    try:
        conf = job["conf"]
        c = dict(drivers.DEFAULTS)
        c.update(conf)
        rec = ps.Recorder(c["n_dim"], have_blobs=(c["evaluation"] in ("blobs", "blobs2")), label=job["label"])
        _, s, tr = drivers.record_run(conf, n_total=job["n_total"], seed=job["seed"], label=job["label"] + "|base", save_every=job["save_every"],
                                      out_dir=out_dir, rec=rec)
        traces.append(tr)
        def _it(f):
            b = os.path.basename(f)[3:-6]
            return int(b) if b.isdigit() else 10 ** 9

        files = sorted(glob.glob(os.path.join(out_dir, "ps_*.state")), key=_it)
        all_mids = [f for f in files if not f.endswith("_final.state")]
        if job.get("max_ckpt"):
            keep = [f for f in files if not f.endswith("_final.state")]
            step = max(1, len(keep) // job["max_ckpt"])
            files = keep[::step][: job["max_ckpt"]] + [f for f in files if f.endswith("_final.state")]
        plan = [(f, job["n_total"], "") for f in files]
        conf_np2 = dict(conf, n_particles=2 * c["n_particles"])
        if job.get("vary_n_total", True) and files:
            mids = [f for f in files if not f.endswith("_final.state")]
            if mids:
                plan.append((mids[len(mids) // 2], 2 * job["n_total"], "|n_total*2"))       # resumed run must reach the NEW target
            for f in all_mids[-3:]:
                plan.append((f, 4, "|n_total=4"))                                           # late periodic checkpoints: possibly nothing left to do
            plan.append((files[-1], max(4, job["n_total"] // 2), "|n_total/2"))            # nothing left to do: zero iterations
            if mids:
                plan.append((mids[len(mids) // 2], 2 * job["n_total"], "|n_particles*2"))   # resumed by a sampler with another batch size
            if mids and any(f.endswith("_final.state") for f in files):
                # an extension of the run that keeps checkpointing into the same directory: afterwards the final checkpoint's name must
                # hold the END of the extended run (not what an earlier run left there)
                plan.append((mids[-1], 3 * job["n_total"], "|extend+save"))
                plan.append(([f for f in files if f.endswith("_final.state")][0], 4, "|final-after-extension"))
        for f, nt, tag in plan:
            s2, _ = drivers.build_sampler(conf_np2 if tag == "|n_particles*2" else conf, rec, out_dir=out_dir)
            rec.attach(s2)
            np.random.seed(12345)  # the ambient stream of the resuming process is unrelated
            _, _, tr2 = drivers.record_run(conf_np2 if tag == "|n_particles*2" else conf, n_total=nt, seed=12345, label=job["label"] + "|resume:" + os.path.basename(f) + tag,
                                           resume=f, out_dir=out_dir, rec=rec, sampler=s2, save_every=(job["save_every"] if tag == "|extend+save" else None))
            tr2["meta"]["checkpoint"] = os.path.basename(f)
            traces.append(tr2)
    finally:
        shutil.rmtree(out_dir, ignore_errors=True)
    for t in traces:
        t["meta"]["conf"] = {k: (v if isinstance(v, (int, float, str, bool, type(None), list)) else repr(v)) for k, v in dict(drivers.DEFAULTS, **job["conf"]).items()}
    return traces




def all_inf_batch(tr):
    np_ = tr["cfg"].get("np", 0)
    for i, e in enumerate(tr["events"]):
        if e["ev"] == "MutatePrior" and e.get("nInf", 0) >= np_ > 0:
            return i
    return None


RESUME_CLAUSES = {"TM_CallsExact", "RW_Iter", "RW_Monotone", "CM_PrefixSame", "CM_Append", "CM_OnePerKey", "ME_Calls", "MP_Calls", "CallsExact",
                  "TM_NearOne", "TM_ESS", "TM_Evidence", "NoRaise"}
UNTRACKED_CLAUSES = {"RS_WholeCopies", "MP_Coherent", "MB_SameSlots", "SW_PropCoherent", "SW_Update", "ME_Slots", "CM_Coherent", "CM_Append",
                     "MP_Calls", "MP_Evals", "SW_Evals", "ME_Calls", "CallsExact", "PO_Rows", "TM_CallsExact"}


def attribute(ck, pid, traces, fails, extra_props=()):
    """Report failures whose clause belongs to `pid`. Returns counters."""
    counters = {"clause_failures_this_property": 0, "clause_failures_other_properties": 0, "spec_deviations": 0}
    dev = {}
    # an exception whose call site is a recorded finding is decided under the properties that list it; a run of ANOTHER property's
    # check that dies of it is out of that check's scope (counted), whatever clause tables would otherwise attribute the failure to
    known_sites = {}
    for k in core.load_known().get("findings", []):
        if str(k.get("key", "")).startswith("raised:"):
            known_sites.setdefault(k["key"], set()).add(k["property"])
    for f in fails:
        tr = traces[f["tid"] - 1]
        ev = tr["events"][f["l"] - 1]
        for cl in f["clauses"]:
            if tr["meta"].get("untracked") and cl in UNTRACKED_CLAUSES:
                continue  # likelihood evaluated in other processes: provenance / evaluation counts unobservable
            if cl == "NoRaise" and (tr["meta"].get("conf") or {}).get("pool") == "faulty":
                continue  # the harness' own pool failed on purpose: letting that error out is legitimate
            prop = psrun.CLAUSE_PROPERTY.get(cl)
            props = {prop} if prop else set()
            if cl == "RW_RefAgrees" and (tr["meta"].get("conf") or {}).get("support"):
                props.add("C11")  # with a zero-likelihood region the recorded beta=0 evidences must enter the mixture formula
            if cl == "NoRaise" and ev.get("site", "").startswith(("student.", "modes.", "cluster.", "train.", "resample.")):
                props.add("C14")  # mutation could not run: no valid proposal modes / labels for this particle history
            if cl == "PO_Rows":
                props.add("C07")  # posterior trimming / resampling moves whole records
            if cl == "LD_Rng":
                props.add("C08")  # the random stream is part of what a checkpoint restores (the resumed run continues from that point)
            if cl == "SW_LabelsFixed":
                props.add("C03")  # forward and reverse move of a walker use the same mode: the kernel of a FIXED label is what is reversible
            if cl == "MB_SameSlots":
                props.add("C14")  # the kernel must receive the labels the resampler assigned (as well as the same records)
            if tr["meta"].get("resumed") and cl in RESUME_CLAUSES:
                props.add("C08")  # a resumed run continues numbering / counting / schedule and ends with the same postconditions
            if cl == "NoRaise" and ev.get("site"):
                kk = f"raised:{str(ev['site']).split('.')[0]}:{ev.get('exc')}"   # module of the raising frame + exception type (function names move in refactorings)
                if kk in known_sites and pid not in known_sites[kk]:
                    counters["clause_failures_other_properties"] += 1
                    counters["runs_ended_by_a_finding_recorded_under_other_properties"] = counters.get("runs_ended_by_a_finding_recorded_under_other_properties", 0) + 1
                    continue
            if not props:
                counters["spec_deviations"] += 1
                dev[cl] = dev.get(cl, 0) + 1
                continue
            if pid not in props:
                counters["clause_failures_other_properties"] += 1
                continue
            counters["clause_failures_this_property"] += 1
            dbg = (tr["meta"].get("dbg") or [None] * len(tr["events"]))[f["l"] - 1]
            key = f"trace:{cl}"
            if cl == "NoRaise" and ev.get("site"):
                key = f"raised:{str(ev['site']).split('.')[0]}:{ev.get('exc')}"   # module of the raising frame + exception type identify the finding
            ck.violation(
                key,
                f"clause {cl} of PSRun fails at event {f['l']} ({f['ev']}) of run {tr['meta'].get('label')!r} seed={tr['meta'].get('seed')}",
                {"clause": cl, "event_index": f["l"], "event": ev, "debug": dbg, "conf": tr["meta"].get("conf"),
                 "seed": tr["meta"].get("seed"), "n_total": tr["meta"].get("n_total"),
                 "previous_events": tr["events"][max(0, f["l"] - 4): f["l"] - 1]},
            )
    counters["spec_deviation_clauses"] = dev
    return counters


def system_part(ck, pid, jobs, nontrivial=None):
    """Run jobs, validate, attribute. `nontrivial(trace) -> hashable or None` counts the traces that
    exercise the property's antecedent."""
    t0 = time.time()
    traces = run_jobs(jobs)
    discarded = 0
    kept = []
    for t in traces:
        if all_inf_batch(t) is not None and not t["meta"].get("conf", {}).get("allow_all_inf"):
            discarded += 1
            continue
        kept.append(t)
    t1 = time.time()
    fails, st = psrun.validate(kept)
    cnt = attribute(ck, pid, kept, fails)
    nt = set()
    for t in kept:
        k = nontrivial(t) if nontrivial else (t["meta"]["label"], t["meta"]["seed"])
        if k is not None:
            nt.add(k)
    evs = {}
    for t in kept:
        for e in t["events"]:
            evs[e["ev"]] = evs.get(e["ev"], 0) + 1
    if kept:
        t = kept[0]
        ck.sample({"label": t["meta"]["label"], "seed": t["meta"]["seed"], "cfg": t["cfg"],
                   "first_events": [{k: v for k, v in e.items() if k not in ("hist",)} for e in t["events"][:6]]})
    cov = {
        "system_runs": len(kept),
        "system_runs_discarded_all_inf_batch": discarded,
        "system_events_validated": sum(len(t["events"]) for t in kept),
        "system_event_counts": evs,
        "system_trace_states": st.get("states", 0),
        "system_nontrivial": len(nt),
        "system_record_s": round(t1 - t0, 1),
        "system_tlc_s": round(time.time() - t1, 1),
    }
    cov.update({"system_" + k: v for k, v in cnt.items()})
    return cov, kept


# ------------------------------------------------------------------------------------------- model checking part
MC_CFG = """INIT MCInit
NEXT MCNext
CONSTANTS
  NP = 2
  G = 2
  MaxIter = {maxiter}
  Clustering = {clustering}
  ClusterEvery = {every}
  Metric = "{metric}"
  Cap = {cap}
  ImplVariant = "{variant}"
  MaxCrashes = {crashes}
INVARIANT HistCoherent
INVARIANT CurCoherent
INVARIANT HistBetaMonotone
INVARIANT BetaBounded
INVARIANT OneBatchPerIteration
INVARIANT HistIters
INVARIANT CallsExact
INVARIANT LabelsCoherent
INVARIANT NoInfActive
INVARIANT PostDone
INVARIANT NoStuck
INVARIANT NoClauseFails
INVARIANT ResumeExact
PROPERTY BetaMonotoneStep
PROPERTY AppendOnlyStep
CHECK_DEADLOCK FALSE
"""

WITNESS_CFG = MC_CFG.replace("INVARIANT NoClauseFails", "INVARIANT NoClauseFails\nINVARIANT {witness}")


def model_part(ck, pid, variants=(), tier="quick", configs=None, crashes=0, maxiter=None):
    """TLC on MC_PSRun: the intended model must satisfy every invariant (all actions covered, `done`
    reachable); each code-shaped variant relevant to the property must be refuted."""
    from . import tlc

    maxiter = maxiter or (3 if tier == "quick" else 4)
    configs = configs or [dict(clustering="TRUE", every=2, metric="ess", cap=0)]
    if tier == "thorough":
        configs = configs + [dict(clustering="FALSE", every=1, metric="ess", cap=0), dict(clustering="TRUE", every=3, metric="vv", cap=1)]
    states = trans = 0
    cover = {}
    for c in configs:
        res = tlc.run_tlc("MC_PSRun", MC_CFG.format(maxiter=maxiter, variant="none", crashes=crashes, **c), coverage=True)
        states += res.distinct
        trans += res.generated
        if res.status != "ok":
            ck.violation("spec:MC_PSRun:" + res.violated, f"intended PSRun model violates {res.violated}", {"trace": res.error_trace, "consts": c})
        for k, v in res.coverage.items():
            cover[k] = cover.get(k, 0) + v[1]
        res.cleanup()
    need = ["MCReweight", "MCTrain", "MCResample", "MCMutatePrior", "MCMutateBegin", "MCSweep", "MCMutateEnd", "MCCommit", "MCTerminate"]
    missing = [a for a in need if cover.get(a, 0) == 0]
    if missing:
        raise tlc.TLCFailure(f"vacuous model: actions never taken: {missing} (coverage {cover})")
    # reachability witness: `done` must be reachable (NeverDone must be violated)
    res = tlc.run_tlc("MC_PSRun", WITNESS_CFG.format(maxiter=maxiter, variant="none", witness="NeverDone", crashes=crashes, **configs[0]))
    if res.status != "violation" or res.violated != "NeverDone":
        raise tlc.TLCFailure("vacuous model: pc = done unreachable")
    res.cleanup()
    refuted = {}
    for v in variants:
        res = tlc.run_tlc("MC_PSRun", MC_CFG.format(maxiter=maxiter, variant=v, crashes=(1 if v in ("loadnothing", "unfitted") else crashes), **configs[0]))
        refuted[v] = res.violated if res.status == "violation" else None
        if res.status != "violation":
            raise tlc.TLCFailure(f"code-shaped variant {v} not refuted by the model (vacuous invariants)")
        res.cleanup()
    return {"states": states, "transitions": trans, "mc_action_coverage": cover, "mc_variants_refuted": refuted,
            "mc_constants": {"NP": 2, "G": 2, "MaxIter": maxiter, "configs": configs}}


# ------------------------------------------------------------------------------------------- binding self-test
def corrupted_copies(tr):
    """Corrupt one recorded field / drop one event of a good trace; each copy must be rejected by the clause named."""
    import copy

    out = []
    ev = tr["events"]
    idx = {name: [i for i, e in enumerate(ev) if e["ev"] == name] for name in ("Sweep", "Commit", "Reweight", "MutateEnd", "Resample")}
    if idx["Sweep"]:
        t = copy.deepcopy(tr)
        i = idx["Sweep"][0]
        t["events"][i]["slots"][0][2] += 7  # logl id of slot 1 no longer the proposal's / previous record's
        out.append((t, "SW_Update"))
    if len(idx["Commit"]) >= 2:
        t = copy.deepcopy(tr)
        del t["events"][idx["Commit"][0]]  # a dropped hook event
        out.append((t, "PC_Order"))
    rw = [i for i in idx["Reweight"] if ev[i]["beta"] > 0]
    if rw:
        t = copy.deepcopy(tr)
        t["events"][rw[-1]]["beta"] = 0  # schedule goes back
        out.append((t, "RW_Monotone"))
    if idx["MutateEnd"]:
        t = copy.deepcopy(tr)
        t["events"][idx["MutateEnd"][0]]["calls"] += 1
        out.append((t, "ME_Calls"))
    return out


def selftest(tr):
    cc = corrupted_copies(tr)
    if not cc:
        return {"binding_mutations_tried": 0, "binding_mutations_rejected": 0}
    fails, _ = psrun.validate([c[0] for c in cc])
    rejected = 0
    for k, (t, clause) in enumerate(cc):
        if any(f["tid"] == k + 1 and clause in f["clauses"] for f in fails):
            rejected += 1
    if rejected != len(cc):
        from . import tlc

        raise tlc.TLCFailure(f"binding self-test: only {rejected}/{len(cc)} corrupted traces rejected")
    return {"binding_mutations_tried": len(cc), "binding_mutations_rejected": rejected}


# ------------------------------------------------------------------------------------------- lattices
def product_jobs(factors: dict, base: dict, seed: int, limit=None, n_total=32, flags=None, label_prefix=""):
    import itertools
    import random

    keys = list(factors)
    combos = list(itertools.product(*[factors[k] for k in keys]))
    rnd = random.Random(seed)
    rnd.shuffle(combos)
    if limit:
        combos = combos[:limit]
    jobs = []
    for i, combo in enumerate(combos):
        conf = dict(base)
        for k, v in zip(keys, combo):
            if isinstance(v, dict):
                conf.update(v)
            else:
                conf[k] = v
        lab = label_prefix + ",".join(f"{k}={v}" for k, v in zip(keys, combo))
        jobs.append({"conf": conf, "seed": seed * 1000 + i, "label": lab, "n_total": n_total, "flags": flags})
    return jobs


# ------------------------------------------------------------------------------------------- --replay
def replay(ck, pid, path):
    """Re-execute a recorded violation. Supports trace-clause violations (key trace:<clause>: the run is recorded again
    with the same configuration and seed and validated again) and pair violations (the two runs are executed again).
    Exits 1 if the violation reproduces, 0 if not, 2 if the replay file is of another kind."""
    import sys

    with open(path) as f:
        rep = json.load(f)
    key, r = rep.get("key", ""), rep.get("replay", {})
    if key.startswith("trace:") and r.get("conf") is not None:
        clause = r["clause"]
        job = {"conf": {k: v for k, v in r["conf"].items() if k in __import__("vlib.drivers", fromlist=["DEFAULTS"]).DEFAULTS},
               "seed": r["seed"], "label": "replay", "n_total": r.get("n_total") or 32}
        traces = run_jobs([job])
        fails, _ = psrun.validate(traces)
        hit = [f for f in fails if clause in f["clauses"]]
        print(f"replay {path}: clause {clause} {'REPRODUCED at event ' + str(hit[0]['l']) if hit else 'did not reproduce'}")
        if hit:
            print(f"VIOLATION property={pid} replay={path}")
        sys.exit(1 if hit else 0)
    if ("a" in r and "b" in r) and isinstance(r["a"], dict) and "conf" in r["a"]:
        from . import pairs

        R = pairs.run_many([r["a"], r["b"]])
        c = r.get("c", 0.0)
        kind = "differ" if key.startswith("repro:differ") else "same"
        P = [pairs.project_pair(R[0], R[1], kind=kind, c=c, exact=(c == 0.0))]
        fails, _ = pairs.validate_pairs(P)
        print(f"replay {path}: pair {'REPRODUCED ' + str(fails[0]['clauses']) if fails else 'did not reproduce'}")
        if fails:
            print(f"VIOLATION property={pid} replay={path}")
        sys.exit(1 if fails else 0)
    print(f"replay {path}: key {key!r} has no generic replay; re-run ./check {pid} (the check is deterministic for a given VERIF_SEED)")
    sys.exit(2)
