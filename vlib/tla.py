"""Parser for TLA+ values as printed by TLC (dump files, -simulate trace files, error traces).

Python images:  int -> int, "s" -> str, TRUE/FALSE -> bool, <<..>> -> tuple,
{..} -> frozenset, [k |-> v] -> dict, (k :> v @@ ..) -> dict, a..b -> frozenset(range),
bare identifiers (model values) -> str prefixed with '@'.
"""
from __future__ import annotations

import re

_TOK = re.compile(
    r"""\s*(?:
      (?P<int>-?\d+)
    | (?P<str>"(?:[^"\\]|\\.)*")
    | (?P<op><<|>>|\|->|:>|@@|\.\.|[\[\]\{\}\(\),])
    | (?P<id>[A-Za-z_][A-Za-z0-9_!]*)
    )""",
    re.X,
)


class TLAParseError(ValueError):
    pass


def _tokens(s: str):
    pos = 0
    n = len(s)
    out = []
    while pos < n:
        m = _TOK.match(s, pos)
        if not m:
            if s[pos:].strip() == "":
                break
            raise TLAParseError(f"bad token at {pos}: {s[pos:pos+40]!r}")
        pos = m.end()
        if m.group("int") is not None:
            out.append(("int", int(m.group("int"))))
        elif m.group("str") is not None:
            out.append(("str", bytes(m.group("str")[1:-1], "utf-8").decode("unicode_escape")))
        elif m.group("op") is not None:
            out.append(("op", m.group("op")))
        else:
            out.append(("id", m.group("id")))
    return out


class _P:
    def __init__(self, toks):
        self.t = toks
        self.i = 0

    def peek(self):
        return self.t[self.i] if self.i < len(self.t) else (None, None)

    def next(self):
        tok = self.peek()
        self.i += 1
        return tok

    def expect(self, op):
        k, v = self.next()
        if k != "op" or v != op:
            raise TLAParseError(f"expected {op!r}, got {v!r} at token {self.i}")

    def value(self):
        k, v = self.next()
        if k == "int":
            if self.peek() == ("op", ".."):
                self.next()
                k2, v2 = self.next()
                return frozenset(range(v, v2 + 1))
            return v
        if k == "str":
            return v
        if k == "id":
            if v == "TRUE":
                return True
            if v == "FALSE":
                return False
            return "@" + v
        if k == "op":
            if v == "<<":
                items = []
                if self.peek() == ("op", ">>"):
                    self.next()
                    return ()
                while True:
                    items.append(self.value())
                    k2, v2 = self.next()
                    if v2 == ">>":
                        return tuple(items)
                    if v2 != ",":
                        raise TLAParseError(f"bad tuple sep {v2!r}")
            if v == "{":
                items = []
                if self.peek() == ("op", "}"):
                    self.next()
                    return frozenset()
                while True:
                    items.append(_freeze(self.value()))
                    k2, v2 = self.next()
                    if v2 == "}":
                        return frozenset(items)
                    if v2 != ",":
                        raise TLAParseError(f"bad set sep {v2!r}")
            if v == "[":
                d = {}
                while True:
                    k2, name = self.next()
                    if k2 not in ("id", "str"):
                        raise TLAParseError(f"bad record field {name!r}")
                    self.expect("|->")
                    d[name] = self.value()
                    k3, v3 = self.next()
                    if v3 == "]":
                        return d
                    if v3 != ",":
                        raise TLAParseError(f"bad record sep {v3!r}")
            if v == "(":
                d = {}
                while True:
                    key = _freeze(self.value())
                    self.expect(":>")
                    d[key] = self.value()
                    k3, v3 = self.next()
                    if v3 == ")":
                        return d
                    if v3 != "@@":
                        raise TLAParseError(f"bad function sep {v3!r}")
        raise TLAParseError(f"unexpected token {k} {v!r}")


def _freeze(v):
    if isinstance(v, dict):
        return tuple(sorted((k, _freeze(x)) for k, x in v.items()))
    if isinstance(v, tuple):
        return tuple(_freeze(x) for x in v)
    return v


def parse_value(s: str):
    p = _P(_tokens(s))
    v = p.value()
    if p.i != len(p.t):
        raise TLAParseError(f"trailing tokens in {s[:80]!r}")
    return v


_STATE_HDR = re.compile(r"^State (\d+):")
_SIM_HDR = re.compile(r"^STATE_(\d+) ==")
_VAR = re.compile(r"^/\\ (\w+) = (.*)$")


def parse_state_block(lines):
    """lines: ['/\\ x = ...', continuation...] -> dict"""
    st = {}
    cur = None
    buf = []
    for ln in lines:
        m = _VAR.match(ln)
        if m:
            if cur is not None:
                st[cur] = parse_value(" ".join(buf))
            cur = m.group(1)
            buf = [m.group(2)]
        elif cur is not None and ln.strip():
            buf.append(ln.strip())
    if cur is not None:
        st[cur] = parse_value(" ".join(buf))
    return st


def iter_dump(path):
    """Iterate over the states of a `tlc -dump` file."""
    block = []
    with open(path) as f:
        for ln in f:
            ln = ln.rstrip("\n")
            if _STATE_HDR.match(ln):
                if block:
                    yield parse_state_block(block)
                block = []
            elif ln.startswith("/\\") or (block and ln.strip()):
                block.append(ln)
        if block:
            yield parse_state_block(block)


_ERR_STATE = re.compile(r"^State (\d+): <(.*?)>\s*$")


def parse_error_trace(stdout: str):
    """Extract the counterexample printed by TLC: list of (action_label, state dict)."""
    out = []
    lines = stdout.splitlines()
    i = 0
    while i < len(lines):
        m = _ERR_STATE.match(lines[i])
        if m:
            label = m.group(2)
            j = i + 1
            block = []
            while j < len(lines) and lines[j].strip() != "":
                block.append(lines[j])
                j += 1
            try:
                out.append((label, parse_state_block(block)))
            except TLAParseError:
                out.append((label, {"_raw": "\n".join(block)}))
            i = j
        else:
            i += 1
    return out


_SIM_ACT = re.compile(r"^\\\* <(\w+)")


def parse_sim_trace(path):
    """Parse a behaviour file written by `tlc -simulate file=...`: list of (action, state)."""
    out = []
    action = None
    block = []
    with open(path) as f:
        for ln in f:
            ln = ln.rstrip("\n")
            ma = _SIM_ACT.match(ln)
            if ma:
                action = ma.group(1)
                continue
            if _SIM_HDR.match(ln):
                if block:
                    out.append((block_action, parse_state_block(block)))
                block = []
                block_action = action
                continue
            if ln.startswith("/\\") or (block and ln.strip() and not ln.startswith("=")):
                block.append(ln)
        if block:
            out.append((block_action, parse_state_block(block)))
    return out


def to_tla(v) -> str:
    """Python value -> TLA+ expression text (for generated constants)."""
    if isinstance(v, bool):
        return "TRUE" if v else "FALSE"
    if isinstance(v, int):
        return str(v)
    if isinstance(v, str):
        if v.startswith("@"):
            return v[1:]
        return '"' + v.replace("\\", "\\\\").replace('"', '\\"') + '"'
    if isinstance(v, (tuple, list)):
        return "<<" + ", ".join(to_tla(x) for x in v) + ">>"
    if isinstance(v, (set, frozenset)):
        return "{" + ", ".join(to_tla(x) for x in sorted(v, key=repr)) + "}"
    if isinstance(v, dict):
        if all(isinstance(k, str) and re.fullmatch(r"[A-Za-z_]\w*", k) for k in v):
            return "[" + ", ".join(f"{k} |-> {to_tla(x)}" for k, x in v.items()) + "]"
        return "(" + " @@ ".join(f"{to_tla(k)} :> {to_tla(x)}" for k, x in v.items()) + ")"
    raise TypeError(type(v))
