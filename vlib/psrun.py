"""Recorder for PSRun traces (binding direction A) and TLC trace validation.

The recorder only PROJECTS: provenance ids of particles (which registered prior-transform /
likelihood call produced each stored value), order ranks of floats, content tags, and a few
re-computations at the recorded temperature made with the library's own functions on the live
history.  Every decision (which clause holds) is taken by TLC on PSRunTrace.tla.
"""
from __future__ import annotations

import json
import os
import struct
import sys
import traceback

import numpy as np

from . import tla, tlc

RTOL = 1e-9

# clause -> property attribution (None: behaviour specified beyond the listed properties; reported
# as spec deviation, never as a violation of a listed property)
CLAUSE_PROPERTY = {
    "PC_Order": None,
    "IF_Zero": "C05",
    "IF_EmptyHistory": None,
    "IF_HistoryKept": None,   # documented behaviour beyond the listed properties (a fresh run() that started from an empty history would be a legitimate design too)
    "RW_Iter": None,
    "RW_FirstZero": "C05",
    "RW_Monotone": "C05",
    "RW_Bounded": "C05",
    "RW_AdvanceESS": "C05",
    "RW_Limit": "C05",
    "RW_SameBeta": "C05",
    "RW_RefAgrees": "C04",
    "TR_Skip": None,
    "TR_Branch": None,
    "TR_PredictFitted": "C14",
    "TR_Cadence": None,
    "TR_FitSets": None,
    "TR_Cap": "C15",
    "TR_ModesOK": "C14",
    "TR_ModesExist": "C14",
    "TR_WeightsIntact": "C05",
    "TR_ModelStable": "C14",
    "RS_WholeCopies": "C07",
    "RS_Count": "C06",
    "RS_LabelRange": "C14",
    "RS_LabelsFromModel": "C14",
    "MP_Count": None,
    "MP_OnlyAtZero": "C03",
    "MP_Coherent": "C07",
    "MP_NoInf": "C11",
    "MP_Calls": "C13",
    "MP_Evals": None,
    "MP_LogzHull": "C11",
    "MB_SameSlots": "C07",
    "MB_Labels": "C14",
    "MB_ModesOK": "C14",
    "MB_Boundaries": "C16",
    "SW_PropCoherent": "C07",
    "SW_Update": "C07",
    "SW_LabelsFixed": "C14",
    "SW_Evals": None,
    "ME_Slots": "C07",
    "ME_Calls": "C13",
    "ME_Swept": None,
    "ME_Steps": None,
    "ME_SweepBounds": None,
    "CM_Append": "C17",
    "CM_OnePerKey": "C17",
    "CM_PrefixSame": "C17",
    "CM_Coherent": "C07",
    "CM_NoInf": "C11",
    "CM_BlobsVisible": "C07",
    "CM_ScalarsRecorded": "C05",
    "SW_SigmaBounds": None,
    "CallsExact": "C13",
    "TM_NearOne": "C12",
    "TM_ESS": "C12",
    "TM_Evidence": "C12",
    "TM_CallsExact": "C13",
    "TM_HistoryUntouched": "C17",
    "NoRaise": "C18",
    "RZ_UnfittedPredict": "C14",
    "RZ_SaveFailed": "C08",
    "SV_NotNested": None,
    "SV_Bracket": None,
    "SV_StateUntouched": "C08",
    "LD_Current": "C08",
    "LD_History": "C08",
    "LD_Counters": "C08",
    "LD_Rng": "C09",
    "LD_Known": None,
    "AC_Stable": "C17",
    "PO_EqualLen": "C12",
    "PO_Rows": "C12",
    "PO_LogwRows": "C12",
    "PO_Weights": "C12",
    "PO_Uniform": "C12",
    "PO_BlobsOnlyIfAsked": "C12",
    "PO_TrimESS": "C12",
}


def _bits(v) -> bytes:
    return struct.pack("<d", float(v))


def _row(a) -> bytes:
    return np.ascontiguousarray(np.asarray(a, dtype=float)).tobytes()


def digest(*arrays) -> bytes:
    import hashlib

    h = hashlib.blake2b(digest_size=12)
    for a in arrays:
        if a is None:
            h.update(b"<none>")
        else:
            a = np.asarray(a)
            h.update(str(a.dtype).encode() + str(a.shape).encode())
            h.update(np.ascontiguousarray(a).tobytes())
    return h.digest()


def ref_logw_logz(logl_batches, betas, logzs, beta_final):
    """Independent reference of the balance-heuristic MIS weights (validated against MISWeights.tla by C04)."""
    from scipy.special import logsumexp

    n = np.array([len(b) for b in logl_batches], dtype=float)
    N = n.sum()
    logl = np.concatenate([np.asarray(b, dtype=float) for b in logl_batches])
    betas = np.asarray(betas, dtype=float)
    logzs = np.asarray(logzs, dtype=float)
    comp = logl[:, None] * betas[None, :] - logzs[None, :] + (np.log(n) - np.log(N))[None, :]
    logw = beta_final * logl - logsumexp(comp, axis=1)
    logz = logsumexp(logw) - np.log(len(logw))
    return logw - logsumexp(logw), float(logz)


def raise_site(exc):
    """Innermost frame of the library (a file under tempest/) on the traceback of `exc`: 'module.function'."""
    import traceback as _tb

    site = "?"
    try:
        for fs in _tb.extract_tb(exc.__traceback__):
            fn = fs.filename.replace(os.sep, "/")
            if "/tempest/" in fn and "/_verif" not in fn:
                site = os.path.splitext(os.path.basename(fn))[0] + "." + fs.name
    except Exception:
        pass
    return site


class _R:
    """placeholder for a float to be replaced by its order rank in `space` when the trace is finalised"""

    __slots__ = ("space", "v")

    def __init__(self, space, v):
        self.space = space
        self.v = float(v)


class Recorder:
    def __init__(self, n_dim: int, have_blobs: bool = False, label: str = ""):
        self.n_dim = n_dim
        self.have_blobs = have_blobs
        self.label = label
        self.utag = {}
        self.x2u = {}
        self.l2u = {}
        self.b2u = {}
        self.unknown = {}
        self.xfin = {}       # x bytes -> did the USER's likelihood return a finite value there
        self.inf_evals = 0   # number of -inf / non-finite returns of the user's likelihood
        self.evals = 0
        self.traces = []  # finalised traces (dict cfg/events/meta)
        self._ev = None  # raw events of the run in progress
        self._cfg = None
        self._meta = None
        self._mark = 0
        self._prefix_digests = []
        self._train = None
        self._clusterer_fits = 0
        self._in_step = None
        self._last_modes = None
        self._warm = []  # (n_t, a_t) per prior batch of this run
        self._prior_batch = None
        self._limit = None
        self._stud_calls = []
        self._pred_calls = []
        self._fit_calls = 0
        self.sampler = None
        self.requested_n_total = None  # what the caller passed to run(); set by the driver
        self.saves = {}   # path -> snapshot taken at save_begin
        self.loads = []   # loads observed outside a run
        self._pending_load = None

    # ------------------------------------------------------------------ provenance
    def wrap_prior(self, pt):
        rec = self

        def prior_transform(u):
            x = pt(u)
            ub = _row(u)
            i = rec.utag.get(ub)
            if i is None:
                i = len(rec.utag) + 1
                rec.utag[ub] = i
            rec.x2u.setdefault(_row(x), set()).add(i)
            return x

        return prior_transform

    def _reg_like(self, x, logl, blob):
        fin = bool(np.isfinite(logl))
        self.xfin[_row(x)] = fin
        if not fin:
            self.inf_evals += 1
        ids = self.x2u.get(_row(x), None)
        if not ids:
            ids = {0}
        self.l2u.setdefault(_bits(logl), set()).update(ids)
        if blob is not None:   # registered whether or not blobs are configured: whatever blob the user is shown must be this one
            self.b2u.setdefault(np.ascontiguousarray(np.asarray(blob)).tobytes(), set()).update(ids)

    def wrap_like(self, ll, vectorize=False):
        rec = self
        if vectorize:

            def log_likelihood(X, *a, **k):
                r = ll(X, *a, **k)
                X2 = np.atleast_2d(X)
                rec.evals += len(X2)
                for xi, li in zip(X2, np.atleast_1d(r)):
                    rec._reg_like(xi, li, None)
                return r

        else:

            def log_likelihood(x, *a, **k):
                r = ll(x, *a, **k)
                rec.evals += 1
                if isinstance(r, (tuple, list)) and len(r) > 1:
                    rec._reg_like(x, r[0], r[1] if len(r) == 2 else r[1:])
                else:
                    rec._reg_like(x, r, None)
                return r

        return log_likelihood

    def rec_ids(self, u, x, logl, blob):
        ub = _row(u)
        uid = self.utag.get(ub)
        if uid is None:
            uid = self.unknown.setdefault(ub, 1000000 + len(self.unknown))
        u = np.asarray(u, dtype=float)
        incube = bool(np.all(u >= 0.0) and np.all(u <= 1.0))
        xs = self.x2u.get(_row(x), ())
        xid = uid if uid in xs else (min(xs) if xs else 0)
        ls = self.l2u.get(_bits(logl), ())
        lid = uid if uid in ls else (min(ls) if ls else 0)
        if self.have_blobs:
            bs = self.b2u.get(np.ascontiguousarray(np.asarray(blob)).tobytes(), ()) if blob is not None else ()
            bid = uid if uid in bs else (min(bs) if bs else 0)
        else:
            bid = lid
        return [uid if incube else 0, xid, lid, bid]

    def slots(self, u, x, logl, blobs, labs=None):
        out = []
        n = len(u) if u is not None else 0
        for i in range(n):
            b = blobs[i] if (self.have_blobs and blobs is not None) else None
            ids = self.rec_ids(u[i], x[i], logl[i], b)
            lab = int(labs[i]) if labs is not None else 0
            fin = bool(np.isfinite(logl[i])) and self.xfin.get(_row(x[i]), True)
            out.append(ids + [lab, 1 if fin else 0])
        return out

    def cur_slots(self, state):
        c = state._current
        if c.get("u") is None or c.get("x") is None or c.get("logl") is None:
            return []
        return self.slots(c["u"], c["x"], c["logl"], c.get("blobs"), c.get("assignments"))

    # ------------------------------------------------------------------ attach / detach
    def attach(self, sampler):
        """Install per-instance observers on a constructed Sampler (no repository code is rewritten)."""
        self.sampler = sampler
        core = sampler._core
        rw = core.reweighter
        if hasattr(rw, "_find_beta_upper_limit"):
            orig = rw._find_beta_upper_limit

            def _limit(*a, **k):
                r = orig(*a, **k)
                self._limit = float(r)
                return r

            rw._find_beta_upper_limit = _limit
        cl = getattr(core.trainer, "clusterer", None)
        if cl is not None:
            ofit, opred = cl.fit, cl.predict

            def fit(X, *a, **k):
                r = ofit(X, *a, **k)
                self._fit_calls += 1
                self._clusterer_fits += 1
                return r

            def predict(X, *a, **k):
                r = opred(X, *a, **k)
                self._pred_calls.append((np.array(X, copy=True), np.array(r, copy=True)))
                return r

            self._orig_predict = opred
            cl.fit, cl.predict = fit, predict

    # ------------------------------------------------------------------ hook sink
    def sink(self, event, refs):
        try:
            h = getattr(self, "_on_" + event, None)
            if h is not None:
                h(refs)
        except Exception:
            traceback.print_exc()
            raise RuntimeError("recorder failure (machinery)")

    def _emit(self, ev, **kw):
        d = {"ev": ev}
        d.update(kw)
        self._ev.append(d)

    def _pool(self, state):
        H = state._history
        return H["logl"], H["beta"], H["logz"]

    def _hist_projection(self, state):
        H = state._history
        out = []
        T = len(H["beta"])
        for t in range(T):
            blobs = H["blobs"][t] if (self.have_blobs and len(H["blobs"]) > t) else None
            parts = [r[:4] for r in self.slots(H["u"][t], H["x"][t], H["logl"][t], blobs)]
            it = int(H["iter"][t]) if len(H["iter"]) > t else t + 1
            out.append({"iter": it, "beta": _R("beta", H["beta"][t]), "parts": parts})
        return out

    def _batch_digests(self, state):
        H = state._history
        T = len(H["beta"])
        keys = sorted(H.keys())
        return [digest(*[H[k][t] if len(H[k]) > t else None for k in keys]) for t in range(T)]

    def _on_run_begin(self, r):
        core = r["core"]
        st = core.state
        self._ev = []
        self._fallback_seen = None
        # (calls reported at entry, user-level evaluations counted when run() was entered): evaluations made while resuming, before
        # this hook, are part of the run
        mark = getattr(self, "_entry_mark", None)
        self._calls_at_entry = (int(st.get_current("calls") or 0), self.evals if mark is None else mark)
        self._entry_mark = None
        if not r["resumed"]:
            self._warm = []   # a resumed run keeps the supported fractions observed so far (any estimator pooled over the history is admissible)
        cfgo = core.config
        self._cfg = {
            "np": int(cfgo.n_particles),
            "metric": "vv" if cfgo.volume_variation is not None else "ess",
            "clustering": bool(cfgo.clustering),
            "clusterEvery": int(cfgo.cluster_every),
            "cap": int(cfgo.n_max_clusters) if cfgo.n_max_clusters else 0,
            "blobs": bool(cfgo.blobs_dtype is not None),
            "target": _R("ess", cfgo.ess_ratio * cfgo.n_particles * (1 - RTOL)),
            "nTotal": _R("ess", (self.requested_n_total if self.requested_n_total is not None else core.n_total) * (1 - RTOL)),
            "one": _R("beta", 1.0),
            "periodic": sorted(int(i) for i in (cfgo.periodic or [])),
            "reflective": sorted(int(i) for i in (cfgo.reflective or [])),
            "minSweeps": int(cfgo.n_steps * cfgo.n_dim),
            "maxSweeps": int(max(cfgo.n_max_steps, cfgo.n_steps) * cfgo.n_dim),
        }
        self._meta = {"label": self.label, "resumed": bool(r["resumed"]), "n_total": int(core.n_total), "requested_n_total": self.requested_n_total,
                      "kernel": cfgo.sample, "resample": cfgo.resample, "vectorize": bool(cfgo.vectorize)}
        self._prefix_digests = self._batch_digests(st)
        self._mark = self.evals
        it = st.get_current("iter")
        prev_len = int(getattr(self, "_hist_len_seen", 0)) if getattr(self, "_hist_owner", None) is st else 0
        self._emit(
            "RunBegin",
            prevHistLen=prev_len,
            resumed=bool(r["resumed"]),
            iter=int(it if it is not None else 0),
            beta=_R("beta", st.get_current("beta") or 0.0),
            calls=int(st.get_current("calls") or 0),
            histLen=int(st.get_history_length()),
            hist=self._hist_projection(st),
        )
        if self._pending_load is not None:
            self._emit("Load", **self._pending_load)
            self._pending_load = None

    def snapshot(self, st):
        cur = st._current
        return {
            "cur": digest(*[cur.get(k) if not np.isscalar(cur.get(k)) else np.asarray(cur.get(k)) for k in sorted(cur)]).hex(),
            "hist": [d.hex() for d in self._batch_digests(st)],
            "counters": [repr(cur.get("iter")), repr(cur.get("calls")), repr(cur.get("beta")), repr(cur.get("logz"))],
            "rng": digest(np.random.get_state()[1], np.asarray(np.random.get_state()[2:])).hex(),
        }

    def _on_save_begin(self, r):
        snap = self.snapshot(r["core"].state)
        self.saves[str(r["path"])] = snap
        self._save_snap = snap
        if self._ev is not None:
            self._emit("SaveBegin", path=os.path.basename(str(r["path"])))

    def _on_save_end(self, r):
        after = self.snapshot(r["core"].state)
        if self._ev is not None:
            self._emit("SaveEnd", stateSame=bool(after == getattr(self, "_save_snap", None)))

    def _on_load_end(self, r):
        st = r["core"].state
        got = self.snapshot(st)
        want = self.saves.get(str(r["path"]))
        # a run made with save_every ends by writing <label>_final.state: that name then holds the END of the latest such run
        want = getattr(self, "final_expected", {}).get(str(r["path"]), want)
        ev = {"known": want is not None}
        if want is None:
            ev.update(curSame=True, histSame=True, countersSame=True, rngSame=True)
        else:
            ev.update(curSame=got["cur"] == want["cur"], histSame=got["hist"] == want["hist"],
                      countersSame=got["counters"] == want["counters"], rngSame=got["rng"] == want["rng"])
        ev["_dbg"] = {"got": {k: got[k] for k in ("counters",)}, "want": {k: want[k] for k in ("counters",)} if want else None,
                      "histLen": [len(got["hist"]), len(want["hist"]) if want else None]}
        self.loads.append(ev)
        self._pending_load = ev

    def _on_iter_begin(self, r):
        self._limit = None
        self._fit_calls = 0
        self._pred_calls = []
        self._stud_calls = []
        self._step_mark = self.evals

    def _on_reweighted(self, r):
        from tempest.tools import effective_sample_size

        core = r["core"]
        st = core.state
        weights = np.asarray(r["weights"], dtype=float)
        beta = float(st.get_current("beta"))
        ess = float(st.get_current("ess"))
        logz = float(st.get_current("logz"))
        first = st.get_history_length() == 0
        o = {"iter": int(st.get_current("iter")), "first": first, "beta": _R("beta", beta)}
        self._wtag = getattr(self, "_wtag", 0) + 2
        self._ztag = getattr(self, "_ztag", 0) + 2
        self._w_handed = weights.copy()
        if first:
            o.update(ess=_R("ess", ess), essAt=_R("ess", ess), logz=self._ztag, logzAt=self._ztag, wts=self._wtag,
                     wtsAt=self._wtag, refAgrees=True, limit=_R("beta", beta), essAtLimit=_R("ess", ess))
        else:
            logw, logz_at = st.compute_logw_and_logz(beta)
            w = np.exp(logw - np.max(logw))
            ess_at = float(effective_sample_size(w))
            w_at = w / np.sum(w)
            same_w = weights.shape == w_at.shape and bool(np.allclose(weights, w_at, rtol=RTOL, atol=1e-300))
            same_z = bool(np.isclose(logz, logz_at, rtol=RTOL, atol=RTOL))
            same_e = bool(np.isclose(ess, ess_at, rtol=RTOL, atol=0))
            logls, betas, logzs = self._pool(st)
            finite = all(np.all(np.isfinite(b)) for b in logls)
            if finite:
                rw, rz = ref_logw_logz(logls, betas, logzs, beta)
                ref_ok = bool(np.allclose(np.exp(rw), w_at, rtol=1e-8, atol=1e-13) and np.isclose(rz, logz_at, rtol=1e-9, atol=1e-9))
            else:
                ref_ok = True
            lim = self._limit if self._limit is not None else beta
            if core.config.volume_variation is not None:
                lw, _ = st.compute_logw_and_logz(lim)
                ess_lim = float(effective_sample_size(np.exp(lw - np.max(lw))))
            else:
                ess_lim = ess_at
            o.update(
                ess=_R("ess", ess_at if same_e else ess),
                essAt=_R("ess", ess_at),
                logz=self._ztag,
                logzAt=self._ztag if same_z else self._ztag + 1,
                wts=self._wtag,
                wtsAt=self._wtag if same_w else self._wtag + 1,
                refAgrees=ref_ok,
                limit=_R("beta", lim),
                essAtLimit=_R("ess", ess_lim),
            )
            o["_dbg"] = {"beta": beta, "ess": ess, "essAt": ess_at, "logz": logz, "logzAt": float(logz_at), "limit": lim}
        self._emit("Reweight", **o)

    def _mode_info(self, ms):
        try:
            means = np.asarray(ms.means)
            covs = np.asarray(ms.covariances)
            dof = np.asarray(ms.degrees_of_freedom, dtype=float)
            ok = bool(np.all(np.isfinite(means)) and np.all(np.isfinite(covs)) and np.all(np.isfinite(dof)) and np.all(dof > 0))
            if ok:
                for j, c in enumerate(covs):
                    if not np.allclose(c, c.T, rtol=1e-10, atol=1e-300):
                        ok = False
                        break
                    if np.linalg.eigvalsh((c + c.T) / 2).min() <= 0:
                        ok = False
                        break
                    # the factor the kernels draw noise with and the inverse used by the Student-t correction belong to
                    # this same scale matrix (checked relative to the matrix' own magnitude / conditioning)
                    L = np.asarray(ms.chol_covariances)[j]
                    if np.max(np.abs(L @ L.T - c)) > 1e-9 * np.max(np.abs(c)):
                        ok = False
                        break
            return ok
        except Exception:
            return False

    def _on_trained(self, r):
        core = r["core"]
        st = core.state
        ms = r["mode_stats"]
        beta = float(st.get_current("beta"))
        nfit, npred, nstud = self._fit_calls, len(self._pred_calls), len(self._stud_calls)
        if nfit > 0:
            branch = "Fit"
        elif npred > 0:
            branch = "PredictOnly"
        elif nstud > 0:
            branch = "Global"
        else:
            branch = "Skip"
        cl = getattr(core.trainer, "clusterer", None)
        K = int(getattr(cl, "n_clusters_", 0) or 0) if cl is not None else 0
        # which label's particles was each mode fitted from (observed through the fit_mvstud wrapper)
        labels = []
        if nstud > 0:
            lab_of = {}
            if self._pred_calls:
                X, lab = self._pred_calls[-1]
                for xi, li in zip(X, lab):
                    lab_of.setdefault(_row(xi), set()).add(int(li))
            populated = set()
            for v in lab_of.values():
                populated |= v
            # the rows a mode is fitted from are rows of the particle pool (unit-cube coordinates as stored), not anything else
            try:
                pool_rows = {_row(r_) for b_ in st._history["u"] for r_ in np.asarray(b_)}
            except Exception:
                pool_rows = None
            for j, (data, res) in enumerate(self._stud_calls):
                if pool_rows is not None and any(_row(row) not in pool_rows for row in data):
                    labels.append(-1)   # fitted from points that are not particles of the pool
                    continue
                if not self._pred_calls:
                    labels.append(0)
                    continue
                seen = set()
                for row in data:
                    seen |= lab_of.get(_row(row), {-1})
                if j not in populated and len(self._stud_calls) > max(populated, default=0) and seen and seen <= populated:
                    labels.append(-2)  # fallback mode of a cluster that attracted no training particle: fitted from the whole training pool
                elif len(seen) == 1:
                    labels.append(seen.pop())
                else:
                    labels.append(-1)
        elif beta == 0.0:
            labels = [0] * int(getattr(ms, "K", 1))      # dummy mode of the prior phase (never used by a kernel)
        else:
            labels = [-1] * int(getattr(ms, "K", 1))     # no fit observed in this iteration: these modes do not come from the current pool
        self._last_modes = (ms, labels)
        # the labelling function the modes were built with is the one the resampling step will use: the model has not changed
        # between labelling the training particles and the end of the training step
        model_stable = True
        if (nstud > 0 and self._pred_calls and cl is not None and getattr(self, "check_labels_from_model", True)
                and getattr(self, "_orig_predict", None) is not None and self._clusterer_fits > 0):
            Xl, labl = self._pred_calls[-1]
            try:
                now = np.asarray(self._orig_predict(Xl))
                model_stable = bool(now.shape == np.asarray(labl).shape and np.array_equal(now, labl))
            except Exception:
                model_stable = True   # a failing predict is reported where the library itself calls it
        w_now = np.asarray(r["weights"], dtype=float)
        w0 = getattr(self, "_w_handed", None)
        intact = w0 is None or (w_now.shape == w0.shape and bool(np.allclose(w_now, w0, rtol=RTOL, atol=1e-300)))
        # a non-finite fitted dof is replaced by ONE configured fallback, the same in every branch of the training step: the first
        # replacement value observed in a run is the configured one
        fb_ok = True
        try:
            dofs = np.asarray(ms.degrees_of_freedom, dtype=float)
            if nstud == len(dofs):
                for j, (_, res) in enumerate(self._stud_calls):
                    raw = float(res[2]) if res is not None else float("nan")
                    if not np.isfinite(raw) and np.isfinite(dofs[j]):
                        if getattr(self, "_fallback_seen", None) is None:
                            self._fallback_seen = float(dofs[j])
                        elif float(dofs[j]) != self._fallback_seen:
                            fb_ok = False
        except Exception:
            fb_ok = True
        self._emit("Train", branch=branch, fitted=bool(self._clusterer_fits > 0), K=K, modes=labels,
                   modesOK=bool(self._mode_info(ms) and fb_ok), nModes=int(getattr(ms, "K", 0)), wtsOut=self._wtag if intact else self._wtag + 1,
                   modelStable=bool(model_stable))

    def _on_resampled(self, r):
        core = r["core"]
        st = core.state
        labs_ok = True
        cl = getattr(core.trainer, "clusterer", None)
        beta = float(st.get_current("beta"))
        if (getattr(self, "check_labels_from_model", True) and beta > 0.0 and core.config.clustering and cl is not None
                and st._current.get("u") is not None and getattr(self, "_clusterer_fits", 0) > 0):
            # the label of every active particle is the one the model that produced the proposal modes gives to that particle
            try:
                pred = getattr(self, "_orig_predict", cl.predict)
                want = np.asarray(pred(np.asarray(st._current["u"])))
                have = np.asarray(st._current.get("assignments"))
                labs_ok = bool(have.shape == want.shape and np.array_equal(have, want))
            except Exception:
                labs_ok = False
        self._emit("Resample", slots=self.cur_slots(st), labelsFromModel=labs_ok)
        self._mut_mark = self.evals
        self._inf_mark = self.inf_evals

    def _on_prior_batch(self, r):
        logl = np.asarray(r["logl"], dtype=float)
        self._prior_batch = (len(logl), int(np.sum(np.isfinite(logl))))

    def _on_mcmc_begin(self, r):
        run = r["runner"]
        ms, labels = self._last_modes if self._last_modes else (None, [])
        rms = run.mode_stats
        if rms is ms:
            modes = list(labels)
        else:  # match modes by content
            modes = []
            for k in range(rms.K):
                hit = -1
                if ms is not None:
                    for j in range(ms.K):
                        if (np.array_equal(rms.means[k], ms.means[j]) and np.array_equal(rms.covariances[k], ms.covariances[j])
                                and rms.degrees_of_freedom[k] == ms.degrees_of_freedom[j]):
                            hit = labels[j] if j < len(labels) else -1
                            break
                modes.append(hit)
        self._emit("MutateBegin", slots=self.slots(run.u, run.x, run.logl, run.blobs, run.assignments), modes=modes,
                   modesOK=self._mode_info(rms),
                   periodic=sorted(int(i) for i in (run.periodic if run.periodic is not None else [])),
                   reflective=sorted(int(i) for i in (run.reflective if run.reflective is not None else [])))
        self._mcmc_mark = self.evals
        self._sweep_mark = self.evals
        self._mcmc_seen = True

    def _on_sweep(self, r):
        run = r["runner"]
        prop = [s[:4] for s in self.slots(r["u_prime"], r["x_prime"], r["logl_prime"], r["blobs_prime"])]
        sig = np.asarray(run.sigmas, dtype=float)
        sig_ok = bool(np.all(np.isfinite(sig)))
        if type(run).__name__ == "TPCNRunner":
            sig_ok = sig_ok and bool(np.all(sig >= 0.0) and np.all(sig <= min(run.sigma_0, 0.99) + 1e-12))
        self._emit("Sweep", sigmaOK=sig_ok, mask=[1 if m else 0 for m in np.asarray(r["mask"])], prop=prop,
                   slots=self.slots(run.u, run.x, run.logl, run.blobs, run.assignments), dEvals=self.evals - self._sweep_mark)
        self._sweep_mark = self.evals

    def _on_mutated(self, r):
        core = r["core"]
        st = core.state
        beta = float(st.get_current("beta"))
        slots = self.cur_slots(st)
        calls = int(st.get_current("calls"))
        # which branch of the mutation step RAN is observed (did a kernel start in this iteration?), not inferred from the temperature
        kernel_ran = bool(getattr(self, "_mcmc_seen", False))
        self._mcmc_seen = False
        if not kernel_ran:
            n, a = self._prior_batch if self._prior_batch else (len(slots), len(slots))
            self._prior_batch = None
            # the number of zero-likelihood draws is what the USER's function returned (not what reached the mutator)
            d_ev, d_inf = self.evals - self._mut_mark, self.inf_evals - getattr(self, "_inf_mark", self.inf_evals)
            if d_ev > 0:
                n, a = d_ev, d_ev - d_inf
            self._warm.append((n, a))
            logz = float(st.get_current("logz"))
            fr = [np.log(ai / ni) if ai > 0 else -np.inf for ni, ai in self._warm]
            lo, hi = min(fr), max(fr)
            in_hull = bool(logz >= lo - 1e-9 and logz <= hi + 1e-9)
            self._ztag = getattr(self, "_ztag", 0) + 2
            self._emit("MutatePrior", slots=slots, dEvals=self.evals - self._mut_mark, calls=calls, nInf=n - a,
                       zInHull=in_hull, logz=self._ztag, _dbg={"logz": logz, "warm": list(self._warm)})
        else:
            self._emit("MutateEnd", slots=slots, calls=calls, dEvals=self.evals - self._mcmc_mark, steps=int(st.get_current("steps") or 0))

    def _on_committed(self, r):
        st = r["core"].state
        H = st._history
        dg = self._batch_digests(st)
        prefix_same = dg[: len(self._prefix_digests)] == self._prefix_digests
        self._prefix_digests = dg
        T = len(H["beta"])
        blobs = H["blobs"][-1] if (self.have_blobs and H["blobs"]) else None
        batch = [s[:4] for s in self.slots(H["u"][-1], H["x"][-1], H["logl"][-1], blobs)] if T and H["u"] else []
        recorded = [k for k in sorted(H.keys()) if not (k == "blobs" and not self.have_blobs)]
        # the blobs of the current state are what Sampler.sample() hands to the user: absent, or those of these particles
        cur = st._current
        blobs_ok = True
        cb = cur.get("blobs")
        if cb is not None and cur.get("u") is not None and len(cb) == len(cur["u"]):
            for i in range(len(cb)):
                uid = self.utag.get(_row(cur["u"][i]))
                bs = self.b2u.get(np.ascontiguousarray(np.asarray(cb[i])).tobytes(), ())
                if uid is None or uid not in bs:
                    blobs_ok = False
                    break
        elif cb is not None:
            blobs_ok = False
        # the scalars recorded for this iteration are the current ones (temperature, evidence, ESS, counters)
        def _same(a, b):
            try:
                return bool(a == b or (a != a and b != b))
            except Exception:
                return False

        scal_ok = all(len(H[k]) > 0 and _same(H[k][-1], cur.get(k)) for k in ("beta", "logz", "ess", "iter", "calls") if cur.get(k) is not None)
        self._hist_len_seen, self._hist_owner = T, st
        self._emit("Commit", batch=batch, histLen=T, keyLens=[len(H[k]) for k in recorded], prefixSame=bool(prefix_same), blobsOK=bool(blobs_ok),
                   scalarsOK=bool(scal_ok))

    def _on_loop_exit(self, r):
        from tempest.tools import effective_sample_size

        st = r["core"].state
        beta = float(st.get_current("beta"))
        logw, _ = st.compute_logw_and_logz(1.0)
        ess_post = float(effective_sample_size(np.exp(logw - np.max(logw)))) if len(logw) else 0.0
        self._term = {"nearOne": bool(1.0 - beta < 1e-4), "essPost": _R("ess", ess_post), "_dbg": {"beta": beta, "essPost": ess_post}}

    def _on_run_end(self, r):
        core = r["core"]
        st = core.state
        evid = float(core.compute_evidence()[0])
        logls, betas, logzs = self._pool(st)
        _, rz = ref_logw_logz(logls, betas, logzs, 1.0)
        same = bool(np.isclose(evid, rz, rtol=RTOL, atol=RTOL))
        t = getattr(self, "_term", {"nearOne": False, "essPost": _R("ess", 0.0)})
        base = getattr(self, "_calls_at_entry", None)
        reported = int(st.get_current("calls") or 0)
        seen = reported if base is None else int(base[0] + (self.evals - base[1]))
        dg = self._batch_digests(st)
        hist_same = dg == getattr(self, "_prefix_digests", dg)
        self._emit("Terminate", evid=1, evidAt=1 if same else 2, callsReported=reported, callsSeen=seen, histSame=bool(hist_same), **t)
        t.setdefault("_dbg", {}).update(evid=evid, evidRef=rz)
        if getattr(self, "expect_final_save", False):
            if not hasattr(self, "final_expected"):
                self.final_expected = {}
            self.final_expected[str(core.config.output_dir / f"{core.config.output_label}_final.state")] = self.snapshot(st)

    # ------------------------------------------------------------------ run control
    def raised(self, exc):
        if self._ev is None:
            self._ev = []
            self._cfg = self._cfg or {}
        self._emit("Raised", what=repr(exc)[:300], step=(self._ev[-1]["ev"] if self._ev else "start"), site=raise_site(exc), exc=type(exc).__name__)

    def posterior_event(self, flags, out, blobs_configured, ess_trim=None):
        """Project one posterior() call (C12)."""
        resample, trim, return_blobs, return_logw = flags
        n_expected = 3 + (1 if (return_blobs and blobs_configured) else 0) + (1 if return_logw else 0)
        arity_ok = isinstance(out, tuple) and len(out) == n_expected
        o = {"flags": [int(f) for f in flags], "resample": bool(resample), "arityOK": bool(arity_ok)}
        if not arity_ok:
            o.update(lensEqual=False, rows=[], logwRowsOK=False, nonneg=False, sumOne=False, uniform=False, trimEssOK=True)
            self._emit("Posterior", **o)
            return
        x, w, logl = out[0], np.asarray(out[1], dtype=float), out[2]
        k = 3
        blobs = None
        if return_blobs and blobs_configured:
            blobs = out[k]
            k += 1
        logw = out[k] if return_logw else None
        lens = [len(x), len(w), len(logl)] + ([len(blobs)] if blobs is not None else []) + ([len(logw)] if logw is not None else [])
        o["lensEqual"] = len(set(lens)) == 1
        n = min(lens)
        # rows: ids of x (through the registered transform), logl and blob; u is not returned -> use x's id
        rows = []
        # posterior() does not return u.  Two DIFFERENT cube points can transform to the same x (rounding of the affine map, e.g. a
        # tpCN proposal one ulp away from the current point): the id of a returned row is then the id of a STORED record with that x
        stored = {}
        try:
            st_ = self.sampler.state
            for xi_, ui_ in zip(st_.get_history("x", flat=True), st_.get_history("u", flat=True)):
                stored.setdefault(_row(xi_), set()).add(self.utag.get(_row(ui_), 0))
        except Exception:
            stored = {}
        for i in range(n):
            xs = self.x2u.get(_row(x[i]), ())
            cand = sorted(set(xs) & stored.get(_row(x[i]), set()))
            xid = cand[0] if cand else (min(xs) if xs else 0)
            ls = self.l2u.get(_bits(logl[i]), ())
            lid = xid if xid in ls else (min(ls) if ls else 0)
            if blobs is not None:
                bs = self.b2u.get(np.ascontiguousarray(np.asarray(blobs[i])).tobytes(), ())
                bid = xid if xid in bs else (min(bs) if bs else 0)
            else:
                bid = lid
            rows.append([xid, xid, lid, bid])
        o["rows"] = rows
        # log-weights must refer row by row to the same particles: exp(logw) normalised over the rows
        # must be proportional to the MIS weight of that particle
        ok_lw = True
        if logw is not None:
            ok_lw = len(logw) == len(x)
            if ok_lw:
                st = self.sampler.state
                full_logw, _ = st.compute_logw_and_logz(1.0)
                xh = st.get_history("x", flat=True)
                by_x = {}
                for xi, lwi in zip(xh, full_logw):
                    by_x.setdefault(_row(xi), set()).add(float(lwi))
                for i in range(n):
                    cand = by_x.get(_row(x[i]), ())
                    if not any(np.isclose(float(logw[i]), c, rtol=RTOL, atol=RTOL) for c in cand):
                        ok_lw = False
                        break
        o["logwRowsOK"] = bool(ok_lw)
        o["nonneg"] = bool(np.all(w >= 0))
        o["sumOne"] = bool(abs(float(np.sum(w)) - 1.0) < 1e-9)
        o["uniform"] = bool(len(w) > 0 and np.allclose(w, 1.0 / len(w), rtol=1e-12, atol=0))
        # trimming keeps at least the requested fraction of the untrimmed ESS (weights before resampling only)
        ok_trim = True
        if trim and not resample and ess_trim is not None and len(w) > 0 and np.all(np.isfinite(w)) and np.sum(w) > 0:
            flw, _ = self.sampler.state.compute_logw_and_logz(1.0)
            fw = np.exp(flw - np.max(flw))
            ess_full = float(np.sum(fw) ** 2 / np.sum(fw ** 2))
            ess_ret = float(np.sum(w) ** 2 / np.sum(w ** 2))
            ok_trim = ess_ret >= float(ess_trim) * ess_full * (1.0 - 1e-9)
        o["trimEssOK"] = bool(ok_trim)
        self._emit("Posterior", **o)

    def end_run(self):
        """Finalise the run in progress: floats -> ranks; returns the trace dict (also stored)."""
        if self._ev is None:
            return None
        spaces = {"beta": {0.0, 1.0}, "ess": set()}

        def collect(o):
            if isinstance(o, _R):
                spaces[o.space].add(o.v)
            elif isinstance(o, dict):
                for v in o.values():
                    collect(v)
            elif isinstance(o, (list, tuple)):
                for v in o:
                    collect(v)

        collect(self._ev)
        collect(self._cfg)
        order = {}
        for sp, vals in spaces.items():
            vs = sorted(v for v in vals if not np.isnan(v))
            base = vs.index(0.0) if sp == "beta" else 0
            order[sp] = {v: i - base for i, v in enumerate(vs)}

        def conv(o):
            if isinstance(o, _R):
                return order[o.space].get(o.v, -999) if not np.isnan(o.v) else -999
            if isinstance(o, dict):
                return {k: conv(v) for k, v in o.items() if not k.startswith("_")}
            if isinstance(o, (list, tuple)):
                return [conv(v) for v in o]
            if isinstance(o, (bool, np.bool_)):
                return bool(o)
            if isinstance(o, (int, np.integer)):
                return int(o)
            return o

        dbg = [e.get("_dbg") for e in self._ev]
        tr = {"cfg": conv(self._cfg), "events": conv(self._ev), "meta": dict(self._meta or {}, dbg=dbg,
              ranks={sp: {repr(v): r for v, r in d.items()} for sp, d in order.items()})}
        self.traces.append(tr)
        self._ev = None
        return tr


# ---------------------------------------------------------------------- global patch points
class hooks_on:
    """Context manager: route the repository's hook events and the fit_mvstud calls to `rec`."""

    def __init__(self, rec: Recorder):
        self.rec = rec

    def __enter__(self):
        from tempest import _verif
        import tempest.modes as modes

        if not _verif._ON:
            raise RuntimeError("TEMPEST_VERIF guard is off: hooks disabled")
        self._verif = _verif
        self._modes = modes
        self._orig = modes.fit_mvstud
        rec = self.rec

        def fit_mvstud(data, *a, **k):
            res = self._orig(data, *a, **k)
            rec._stud_calls.append((np.array(data, copy=True), res))
            return res

        modes.fit_mvstud = fit_mvstud
        _verif.set_sink(rec.sink)
        return rec

    def __exit__(self, *exc):
        self._verif.set_sink(None)
        self._modes.fit_mvstud = self._orig
        return False


# ---------------------------------------------------------------------- validation by TLC
TRACE_CFG = """INIT TraceInit
NEXT TraceNext
INVARIANT TraceTypeOK
CHECK_DEADLOCK FALSE
"""


def validate(traces, workers=1, keep=False):
    """Validate traces against PSRunTrace.tla. Returns (failures, stats) where failures is a list of
    dicts {tid, l, ev, clauses}. Raises tlc.TLCFailure on machinery problems."""
    if not traces:
        return [], {"states": 0, "generated": 0}
    work = tlc.scratch_dir("vtr_")
    path = os.path.join(work, "traces.json")
    slim = [{"cfg": t["cfg"], "events": t["events"]} for t in traces]
    with open(path, "w") as f:
        json.dump(slim, f)
    try:
        res = tlc.run_tlc("PSRunTrace", TRACE_CFG, workers=workers, env={"TRACE_FILE": path}, timeout=3600)
    finally:
        if not keep:
            import shutil

            shutil.rmtree(work, ignore_errors=True)
    out = res.stdout
    res.cleanup()
    if res.status != "ok":
        raise tlc.TLCFailure("PSRunTrace: unexpected TLC verdict " + res.violated + "\n" + out[-2000:])
    expected = sum(len(t["events"]) + 1 for t in traces)
    if res.distinct != expected:
        raise tlc.TLCFailure(f"PSRunTrace consumed {res.distinct} states, expected {expected} (a trace got stuck)\n" + out[-3000:])
    fails = []
    buf = None
    for ln in out.splitlines():
        if ln.startswith('<<"FAIL"'):
            buf = ln
        elif buf is not None:
            buf += " " + ln.strip()
        if buf is not None and buf.count("<<") == buf.count(">>") and buf.count("{") == buf.count("}"):
            v = tla.parse_value(buf)
            fails.append({"tid": v[1], "l": v[2], "ev": v[3], "clauses": sorted(v[4])})
            buf = None
    return fails, {"states": res.distinct, "generated": res.generated, "wall_s": res.wall_s}
