"""Run independent jobs in forked processes with a per-job wall-clock limit (a run that hangs is killed and
reported, instead of hanging the check)."""
from __future__ import annotations

import multiprocessing as mp
import os
import pickle
import time
import traceback


def _child(func, job, conn):
    try:
        res = ("ok", func(job))
    except BaseException as ex:  # noqa
        res = ("error", "".join(traceback.format_exception_only(type(ex), ex)).strip() + "\n" + traceback.format_exc()[-1500:])
    try:
        conn.send_bytes(pickle.dumps(res))
    except Exception as ex:
        conn.send_bytes(pickle.dumps(("error", "unpicklable result: %r" % (ex,))))
    conn.close()


def run(func, jobs, procs=8, timeout=900.0):
    """Returns a list aligned with jobs: ("ok", result) | ("error", text) | ("timeout", seconds)."""
    ctx = mp.get_context("fork")
    out = [None] * len(jobs)
    pending = list(range(len(jobs)))[::-1]
    live = {}
    while pending or live:
        while pending and len(live) < procs:
            i = pending.pop()
            rd, wr = ctx.Pipe(duplex=False)
            p = ctx.Process(target=_child, args=(func, jobs[i], wr), daemon=False)
            p.start()
            wr.close()
            live[i] = (p, rd, time.time())
        done = []
        for i, (p, rd, t0) in live.items():
            if rd.poll(0):
                try:
                    out[i] = pickle.loads(rd.recv_bytes())
                except EOFError:
                    out[i] = ("error", "worker died without a result")
                p.join(10)
                if p.is_alive():
                    _kill_tree(p.pid)
                done.append(i)
            elif not p.is_alive():
                out[i] = ("error", f"worker exited with code {p.exitcode} without a result")
                done.append(i)
            elif time.time() - t0 > (jobs[i].get("timeout", timeout) if isinstance(jobs[i], dict) else timeout):
                _kill_tree(p.pid)
                p.join(5)
                out[i] = ("timeout", float(jobs[i].get("timeout", timeout)) if isinstance(jobs[i], dict) else timeout)
                done.append(i)
        for i in done:
            live[i][1].close()
            del live[i]
        if not done:
            time.sleep(0.05)
    return out


def _kill_tree(pid):
    import signal
    import subprocess

    try:
        kids = subprocess.run(["pgrep", "-P", str(pid)], capture_output=True, text=True).stdout.split()
        for k in kids:
            _kill_tree(int(k))
        os.kill(pid, signal.SIGKILL)
    except Exception:
        pass
