"""Outside observation of tempest.student.fit_mvstud (no hooks, no repository edit) and the relational
projection used by specs/StudentPair.tla (C19).

Observation.  `fit_mvstud` reaches numpy / scipy only through the three module-level names `np`, `optimize`
and `special` of `tempest.student`.  For the duration of ONE fit those names are pointed at forwarding proxies:
every attribute is forwarded unchanged to the real module; six callables additionally append (a copy of) their
arguments / result to a log before returning the real result object untouched:

    np.array          -> the location vector mu (initial median and every update `np.array([mu])`)
    np.abs            -> the value |last_nu - nu| of every evaluation of the loop test
    np.linalg.solve   -> (Sigma, diffs) entering each ECME iteration
    np.sum(., 0)      -> the Mahalanobis distances delta_iobs
    special.psi       -> every probe point of func0 (the first one of an iteration is the inf-branch test point)
    optimize.bisect   -> bracket, root (or the exception it raised)

The proxies compute nothing themselves, so the observed fit executes exactly the arithmetic of the unobserved
one; `observe_fit` demonstrates this on every call by running the fit a second time without proxies and
requiring bit-identical (mu, Sigma, nu) (or the same exception type).
"""
from __future__ import annotations

import contextlib
import io
import itertools
import math

import numpy as np
from scipy import special as _sp

EPS = float(np.finfo(float).eps)
TOL_NU = 1e-6  # fit_mvstud's default `tolerance`
MAX_ITER = 100  # fit_mvstud's default `max_iter`


class ObservationError(RuntimeError):
    """the proxies changed the result or the log does not have the shape of the loop: machinery failure"""


class _Fwd:
    def __init__(self, target, overrides):
        object.__setattr__(self, "_t", target)
        object.__setattr__(self, "_o", overrides)

    def __getattr__(self, name):
        o = object.__getattribute__(self, "_o")
        if name in o:
            return o[name]
        return getattr(object.__getattribute__(self, "_t"), name)


@contextlib.contextmanager
def _proxies(mod, log):
    r_np, r_opt, r_sp = mod.np, mod.optimize, mod.special

    def solve(a, b, *args, **kw):
        log.append(("solve", np.array(a, dtype=float, copy=True), np.array(b, dtype=float, copy=True)))
        return r_np.linalg.solve(a, b, *args, **kw)

    def array(obj, *args, **kw):
        r = r_np.array(obj, *args, **kw)
        log.append(("array", np.array(r, copy=True)))
        return r

    def abs_(x, *args, **kw):
        r = r_np.abs(x, *args, **kw)
        if np.ndim(r) == 0:
            log.append(("abs", float(r)))
        return r

    def sum_(a, *args, **kw):
        r = r_np.sum(a, *args, **kw)
        if args == (0,) or kw.get("axis", None) == 0:
            log.append(("delta", np.array(r, dtype=float, copy=True)))
        return r

    def psi(x, *args, **kw):
        if np.ndim(x) == 0:
            log.append(("psi", float(x)))
        return r_sp.psi(x, *args, **kw)

    def bisect(f, a, b, *args, **kw):
        try:
            r = r_opt.bisect(f, a, b, *args, **kw)
        except BaseException as ex:
            log.append(("bisect", float(a), float(b), None, repr(ex)[:200]))
            raise
        log.append(("bisect", float(a), float(b), float(r), None))
        return r

    mod.np = _Fwd(r_np, {"array": array, "abs": abs_, "sum": sum_, "linalg": _Fwd(r_np.linalg, {"solve": solve})})
    mod.optimize = _Fwd(r_opt, {"bisect": bisect})
    mod.special = _Fwd(r_sp, {"psi": psi})
    try:
        yield
    finally:
        mod.np, mod.optimize, mod.special = r_np, r_opt, r_sp


def _call(fit, data):
    buf = io.StringIO()
    try:
        with contextlib.redirect_stdout(buf), np.errstate(all="ignore"):
            import warnings

            with warnings.catch_warnings():
                warnings.simplefilter("ignore")
                mu, Sigma, nu = fit(np.array(data, copy=True))
        return {"mu": np.asarray(mu, dtype=float), "Sigma": np.asarray(Sigma, dtype=float), "nu": float(nu), "raised": None,
                "warned": "did not converge" in buf.getvalue()}
    except Exception as ex:  # noqa
        return {"mu": None, "Sigma": None, "nu": None, "raised": type(ex).__name__ + ": " + str(ex)[:160], "warned": False}


def _same_bits(a, b):
    if a is None or b is None:
        return a is None and b is None
    a, b = np.asarray(a), np.asarray(b)
    return a.shape == b.shape and a.tobytes() == b.tobytes()


def observe_fit(student_mod, data, fit=None):
    """Run fit_mvstud(data) observed; returns the structured run.  `fit` defaults to student_mod.fit_mvstud."""
    fit = fit or student_mod.fit_mvstud
    plain = _call(fit, data)
    log = []
    with _proxies(student_mod, log):
        obs = _call(fit, data)
    if (plain["raised"] is None) != (obs["raised"] is None) or not (
        _same_bits(plain["mu"], obs["mu"]) and _same_bits(plain["Sigma"], obs["Sigma"]) and _same_bits(plain["nu"], obs["nu"])
    ):
        raise ObservationError(f"observed fit differs from the unobserved one: {plain['raised']} / {obs['raised']}")
    return parse_log(log, obs, np.asarray(data, dtype=float))


def parse_log(log, res, data):
    """Structure the flat log as: init state, iterations, exit."""
    n, dim = data.shape
    mu_cur = None
    tests = []
    its = []
    cur = None
    mu0 = None
    for ev in log:
        k = ev[0]
        if k == "array":
            a = np.asarray(ev[1], dtype=float)
            if a.size == dim:
                mu_cur = a.ravel().copy()
                if cur is None:
                    mu0 = mu_cur
                else:
                    cur["mu_out"] = mu_cur
        elif k == "abs":
            tests.append(ev[1])
            if cur is not None:
                cur["test_after"] = ev[1]
        elif k == "solve":
            cur = {"Sigma_in": ev[1], "diffs": ev[2], "mu_in": mu_cur, "psi": [], "bisect": None, "delta": None, "mu_out": None,
                   "test_before": tests[-1] if tests else None, "test_after": None}
            its.append(cur)
        elif k == "delta":
            if cur is not None and cur["delta"] is None:
                cur["delta"] = ev[1]
        elif k == "psi":
            if cur is not None:
                cur["psi"].append(ev[1])
        elif k == "bisect":
            if cur is not None:
                cur["bisect"] = ev[1:]
    run = {"n": n, "dim": dim, "mu0": mu0, "its": its, "res": res, "tests": tests,
           "Sigma0": its[0]["Sigma_in"] if its else (res["Sigma"] if res["raised"] is None else None)}
    for j, it in enumerate(its):
        last = j == len(its) - 1
        nxt = its[j + 1] if not last else None
        if it["bisect"] is not None:
            it["branch"] = "root" if it["bisect"][2] is not None else "raise"
            it["nu"] = it["bisect"][2]
        elif it["psi"]:
            it["branch"] = "inf"
            it["nu"] = math.inf
        else:
            it["branch"] = "raise"  # the iteration ended before the nu update
            it["nu"] = None
        it["tpt"] = 2.0 * it["psi"][0] if it["psi"] else None
        if nxt is not None:
            it["Sigma_out"], it["decision"] = nxt["Sigma_in"], "cont"
        else:
            it["Sigma_out"] = res["Sigma"]
            it["decision"] = "raise" if res["raised"] is not None else ("ret" if it["branch"] == "inf" else "exit")
        if it["mu_out"] is None:  # inf branch returns the incoming location
            it["mu_out"] = it["mu_in"] if it["branch"] == "inf" else (res["mu"] if last else None)
    return run


# ----------------------------------------------------------------------------------------------------------------
# the specification's real-arithmetic objects, evaluated by the projection
# ----------------------------------------------------------------------------------------------------------------
def F(nu, delta, dim):
    """func0 as the ECME step defines it (transcribed from the algorithm, not imported from the repository)."""
    delta = np.asarray(delta, dtype=float)
    w = (nu + dim) / (nu + delta)
    return float(-_sp.psi(nu / 2) + math.log(nu / 2) + np.mean(np.log(w)) - np.mean(w) + 1 + _sp.psi((nu + dim) / 2) - math.log((nu + dim) / 2))


def branch_oracle(delta, dim, tpt):
    """Sign of the REAL-arithmetic value of func0 at the code's own test point `tpt`.
    For tpt >= 1e5 by the expansion  func0(nu) = c2/nu^2 + c3/nu^3 + O(nu^-4),
        c2 = dim - mean((delta-dim)^2)/2,   c3 = -dim^2 + 2 dim/3 + dim^3/3 + 2 mean(delta^3)/3 - dim mean(delta^2)
    (exact up to a relative (max delta / tpt) remainder); below that by direct double evaluation (|func0| >> rounding).
    Returns (tag, margin): tag in {"inf", "root", "tie"}; "tie" when the relative margin is below 1e-2 (series) resp.
    the value is within 1e-11 of zero (direct) - too close to be decided by any double evaluation."""
    d = np.asarray(delta, dtype=float)
    if not np.all(np.isfinite(d)) or tpt is None or not np.isfinite(tpt):
        return "tie", 0.0
    p = float(dim)
    if tpt >= 1e5:
        V = float(np.mean((d - p) ** 2))
        c2 = p - V / 2
        c3 = -p * p + 2 * p / 3 + p ** 3 / 3 + 2 * float(np.mean(d ** 3)) / 3 - p * float(np.mean(d ** 2))
        val = c2 + c3 / tpt
        scale = p + V / 2 + abs(c3) / tpt
        margin = abs(val) / scale
        if margin < 1e-2 or float(np.max(d)) / tpt > 1e-2:
            return "tie", margin
        return ("inf" if val >= 0 else "root"), margin
    f = F(tpt, d, dim)
    if abs(f) < 1e-11:
        return "tie", abs(f)
    return ("inf" if f >= 0 else "root"), abs(f)


def root_ok(nu, delta, dim):
    """nu solves the step's equation: func0 changes sign from + to - across [nu(1-r), nu(1+r)] or is at rounding level."""
    if nu is None or not np.isfinite(nu) or nu <= 0:
        return False, float("nan")
    f0 = F(nu, delta, dim)
    r = 1e-9
    lo, hi = F(nu * (1 - r) - 1e-11 if nu * (1 - r) - 1e-11 > 0 else nu * (1 - r), delta, dim), F(nu * (1 + r) + 1e-11, delta, dim)
    ok = (lo >= 0 >= hi) or abs(f0) <= 1e-12
    return bool(ok), abs(f0)


# ----------------------------------------------------------------------------------------------------------------
# data sets and the group of maps
# ----------------------------------------------------------------------------------------------------------------
CLASSES = ["gauss", "t1", "t2", "t3", "t5", "lognormal", "contam", "dup", "corr", "cube"]


def make_data(rng, cls, d, n):
    def mix(z, cond=8.0):
        q, _ = np.linalg.qr(rng.standard_normal((d, d)))
        sv = np.exp(rng.uniform(0, math.log(cond), d))
        return z @ (q * sv).T

    if cls == "gauss":
        return mix(rng.standard_normal((n, d))) + rng.uniform(-2, 2, d)
    if cls in ("t1", "t2", "t3", "t5"):
        df = int(cls[1:])
        z = rng.standard_normal((n, d)) / np.sqrt(rng.chisquare(df, (n, 1)) / df)
        return mix(z) + rng.uniform(-2, 2, d)
    if cls == "lognormal":
        return np.exp(0.75 * rng.standard_normal((n, d)) + rng.uniform(-0.5, 0.5, d))
    if cls == "contam":
        x = mix(rng.standard_normal((n, d)))
        k = max(1, int(round(0.05 * n)))
        rows = rng.choice(n, k, replace=False)
        x[rows] = rng.standard_normal((k, d)) * rng.choice([30.0, 100.0, 1000.0]) + rng.uniform(-50, 50, d)
        return x
    if cls == "dup":
        m = min(n, max(4 * d, n // 3))  # at least 4d DISTINCT points (the quantifier's n >= 4d is asked of the support)
        base = mix(rng.standard_t(4, (m, d)))
        idx = np.concatenate([np.arange(m), rng.integers(0, m, n - m)])
        return base[rng.permutation(idx)]
    if cls == "corr":
        f = rng.standard_normal((n, 1))
        load = rng.uniform(0.5, 2.0, d) * rng.choice([-1.0, 1.0], d)
        noise = 10.0 ** rng.uniform(-2.5, -1.0)
        return f * load + noise * rng.standard_normal((n, d)) if d > 1 else f * load
    if cls == "cube":
        a, b = rng.uniform(0.6, 6.0, d), rng.uniform(0.6, 6.0, d)
        return rng.beta(a, b, (n, d))
    raise ValueError(cls)


def draw_case(rng, k):
    """k-th data set of a family: class and dimension cycle so that every class x small/large dimension occurs."""
    cls = CLASSES[k % len(CLASSES)]
    d = 1 + (k // len(CLASSES) + k) % 8
    n_hi = max(4 * d + 1, 320)
    n = int(4 * d + (k % 3 == 0) * 0 + (0 if k % 7 == 0 else rng.integers(0, n_hi - 4 * d)))
    return cls, d, n


def all_perms(d):
    return [list(p) for p in itertools.permutations(range(d))]


def make_map(rng, d, kind, perm=None):
    """g(x)_j = s_j * x_perm[j] + t_j.  kind selects which generators of the group are non-trivial."""
    s = np.ones(d)
    t = np.zeros(d)
    p = list(range(d))
    dyadic = True
    if "S" in kind:  # dyadic per-coordinate scaling, 2^-19 .. 2^19  (1.9e-6 .. 5.2e5): exact in floating point
        s = 2.0 ** rng.integers(-19, 20, d)
    if "E" in kind:  # the end points of the property's range, all coordinates at one end or mixed
        s = rng.choice([1e-6, 1e6], d)
        dyadic = False
    if "N" in kind:  # non-dyadic scaling, log-uniform on [1e-6, 1e6]
        s = 10.0 ** rng.uniform(-6, 6, d)
        dyadic = False
    if "T" in kind:  # translation: magnitude log-uniform on [1e-3, 1e6], random signs (bounded below by conditioning, see fit_budget)
        t = rng.choice([-1.0, 1.0], d) * 10.0 ** rng.uniform(-3, 6, d)
    if "P" in kind:
        p = list(perm) if perm is not None else list(rng.permutation(d))
    return {"s": s, "t": t, "p": [int(v) for v in p], "dyadic": bool(dyadic), "kind": kind}


def apply_map(g, X):
    return X[:, g["p"]] * g["s"] + g["t"]


def g_mu(g, mu):
    return np.asarray(mu)[g["p"]] * g["s"] + g["t"]


def g_sigma(g, S):
    S = np.asarray(S)
    return S[np.ix_(g["p"], g["p"])] * np.outer(g["s"], g["s"])


def condition(X):
    """K(X) = (max_j max|x_j| / sd_j) * cond(correlation matrix): how many units of rounding of the REPRESENTATION of the
    data one unit of its standardised shape is worth.  Equality 'up to rounding' is measured in units of eps*K."""
    sd = X.std(axis=0)
    if not np.all(sd > 0):
        return math.inf, math.inf, math.inf
    loc = float(np.max(np.max(np.abs(X), axis=0) / sd))
    R = np.corrcoef(X.T) if X.shape[1] > 1 else np.ones((1, 1))
    try:
        c = float(np.linalg.cond(np.atleast_2d(R)))
    except Exception:
        c = math.inf
    return max(loc, 1.0) * c, loc, c


K_MAX = 1e8


def fit_budget(g, X):
    """Translations are shrunk (halved in log-magnitude steps of 10) until the image data keep enough significant bits of
    their own spread: K(g(X)) <= K_MAX.  Returns the map actually used and K of the pair."""
    KA = condition(X)[0]
    for _ in range(12):
        KB = condition(apply_map(g, X))[0]
        if KB <= max(K_MAX, 4 * KA) or not np.any(g["t"]):
            break
        g = dict(g, t=g["t"] / 10.0)
    return g, max(KA, KB)


# ----------------------------------------------------------------------------------------------------------------
# error measures (all dimensionless; 'equal' = error <= tolerance decided in c19.py)
# ----------------------------------------------------------------------------------------------------------------
def err_mu(g, muA, muB, SigB):
    if muA is None or muB is None or SigB is None:
        return 0.0 if (muA is None and muB is None) else math.inf
    sd = np.sqrt(np.abs(np.diag(SigB)))
    with np.errstate(all="ignore"):
        e = np.abs(muB - g_mu(g, muA)) / sd
    return float(np.nan_to_num(np.max(e), nan=math.inf))


def err_sigma(g, SA, SB):
    if SA is None or SB is None:
        return 0.0 if (SA is None and SB is None) else math.inf
    T = g_sigma(g, SA)
    sd = np.sqrt(np.abs(np.diag(SB)))
    with np.errstate(all="ignore"):
        e = np.abs(SB - T) / np.outer(sd, sd)
    return float(np.nan_to_num(np.max(e), nan=math.inf))


def err_delta(dA, dB):
    if dA is None or dB is None:
        return 0.0 if (dA is None and dB is None) else math.inf
    if dA.shape != dB.shape:
        return math.inf
    with np.errstate(all="ignore"):
        e = np.abs(dB - dA) / (np.abs(dA) + 1.0)
    return float(np.nan_to_num(np.max(e), nan=math.inf))


def err_nu(a, b):
    if a is None or b is None:
        return 0.0 if (a is None and b is None) else math.inf
    if math.isinf(a) or math.isinf(b):
        return 0.0 if a == b else math.inf
    if math.isnan(a) or math.isnan(b):
        return math.inf
    return abs(b - a) / (abs(a) * max(1.0, abs(a)))


# ----------------------------------------------------------------------------------------------------------------
# single-run well-posedness predicates
# ----------------------------------------------------------------------------------------------------------------
def well_posed(X, res):
    """Clauses of the first sentence of C19 on a returned (mu, Sigma, nu).
    'inside the bounding box' is asked with the slack a weighted mean of n doubles needs:
        min_j - n*eps*max|x_j|  <=  mu_j  <=  max_j + n*eps*max|x_j|   (the median and any convex combination computed in
    double arithmetic satisfy it; one part in 1e13 of the data's magnitude for n = 300)."""
    n, d = X.shape
    if res["raised"] is not None:
        return {k: False for k in ("MuFinite", "MuInBox", "SigmaSymmetric", "SigmaPD", "NuRange")}
    mu, S, nu = res["mu"], res["Sigma"], res["nu"]
    out = {}
    out["MuFinite"] = bool(mu.shape == (d,) and np.all(np.isfinite(mu)))
    slack = n * EPS * np.max(np.abs(X), axis=0)
    out["MuInBox"] = bool(out["MuFinite"] and np.all(mu >= X.min(axis=0) - slack) and np.all(mu <= X.max(axis=0) + slack))
    fin = bool(S.shape == (d, d) and np.all(np.isfinite(S)))
    out["SigmaSymmetric"] = bool(fin and np.all(np.abs(S - S.T) <= 4 * EPS * np.sqrt(np.abs(np.outer(np.diag(S), np.diag(S))))))
    pd = False
    if fin:
        try:
            np.linalg.cholesky(S)
            pd = bool(np.linalg.eigvalsh((S + S.T) / 2).min() > 0)
        except np.linalg.LinAlgError:
            pd = False
    out["SigmaPD"] = pd
    out["NuRange"] = bool(nu is not None and not math.isnan(nu) and nu > 0)
    return out
