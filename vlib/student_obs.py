"""Outside observation of tempest.student.fit_mvstud (no hooks, no repository edit) and the relational
projection used by specs/StudentPair.tla (C19).

Observation.  `fit_mvstud` reaches numpy / scipy only through the three module-level names `np`, `optimize`
and `special` of `tempest.student`.  For the duration of ONE fit those names are pointed at forwarding proxies:
every attribute is forwarded unchanged to the real module; six callables additionally append (a copy of) their
arguments / result to a log before returning the real result object untouched:

    np.array          -> the location vector mu (initial median and every update `np.array([mu])`)
    np.abs            -> the value |last_nu - nu| of every evaluation of the loop test
    np.linalg.solve   -> (Sigma, diffs) entering each ECME iteration
    np.sum(., 0)      -> the Mahalanobis distances delta_iobs
    special.psi       -> every probe point of func0 (the first one of an iteration is the inf-branch test point)
    optimize.bisect   -> bracket, root (or the exception it raised)

The proxies compute nothing themselves, so the observed fit executes exactly the arithmetic of the unobserved
one; `observe_fit` demonstrates this on every call by running the fit a second time without proxies and
requiring bit-identical (mu, Sigma, nu) (or the same exception type).
"""
from __future__ import annotations

import contextlib
import io
import itertools
import math

import numpy as np
from scipy import special as _sp

EPS = float(np.finfo(float).eps)
TOL_NU = 1e-6  # fit_mvstud's default `tolerance`
MAX_ITER = 100  # fit_mvstud's default `max_iter`


class ObservationError(RuntimeError):
    """the proxies changed the result or the log does not have the shape of the loop: machinery failure"""


class _Fwd:
    def __init__(self, target, overrides):
        object.__setattr__(self, "_t", target)
        object.__setattr__(self, "_o", overrides)

    def __getattr__(self, name):
        o = object.__getattribute__(self, "_o")
        if name in o:
            return o[name]
        return getattr(object.__getattribute__(self, "_t"), name)


@contextlib.contextmanager
def _proxies(mod, log):
    r_np, r_opt, r_sp = mod.np, mod.optimize, mod.special

    def solve(a, b, *args, **kw):
        log.append(("solve", np.array(a, dtype=float, copy=True), np.array(b, dtype=float, copy=True)))
        return r_np.linalg.solve(a, b, *args, **kw)

    def array(obj, *args, **kw):
        r = r_np.array(obj, *args, **kw)
        log.append(("array", np.array(r, copy=True)))
        return r

    def abs_(x, *args, **kw):
        r = r_np.abs(x, *args, **kw)
        if np.ndim(r) == 0:
            log.append(("abs", float(r)))
        return r

    def sum_(a, *args, **kw):
        r = r_np.sum(a, *args, **kw)
        if args == (0,) or kw.get("axis", None) == 0:
            log.append(("delta", np.array(r, dtype=float, copy=True)))
        return r

    def psi(x, *args, **kw):
        if np.ndim(x) == 0:
            log.append(("psi", float(x)))
        return r_sp.psi(x, *args, **kw)

    def bisect(f, a, b, *args, **kw):
        try:
            r = r_opt.bisect(f, a, b, *args, **kw)
        except BaseException as ex:
            log.append(("bisect", float(a), float(b), None, repr(ex)[:200]))
            raise
        log.append(("bisect", float(a), float(b), float(r), None))
        return r

    mod.np = _Fwd(r_np, {"array": array, "abs": abs_, "sum": sum_, "linalg": _Fwd(r_np.linalg, {"solve": solve})})
    mod.optimize = _Fwd(r_opt, {"bisect": bisect})
    mod.special = _Fwd(r_sp, {"psi": psi})
    try:
        yield
    finally:
        mod.np, mod.optimize, mod.special = r_np, r_opt, r_sp


def _call(fit, data):
    buf = io.StringIO()
    try:
        with contextlib.redirect_stdout(buf), np.errstate(all="ignore"):
            import warnings

            with warnings.catch_warnings():
                warnings.simplefilter("ignore")
                mu, Sigma, nu = fit(np.array(data, copy=True))
        return {"mu": np.asarray(mu, dtype=float), "Sigma": np.asarray(Sigma, dtype=float), "nu": float(nu), "raised": None,
                "warned": "did not converge" in buf.getvalue()}
    except Exception as ex:  # noqa
        return {"mu": None, "Sigma": None, "nu": None, "raised": type(ex).__name__ + ": " + str(ex)[:160], "warned": False}


def _same_bits(a, b):
    if a is None or b is None:
        return a is None and b is None
    a, b = np.asarray(a), np.asarray(b)
    return a.shape == b.shape and a.tobytes() == b.tobytes()


def observe_fit(student_mod, data, fit=None):
    """Run fit_mvstud(data) observed; returns the structured run.  `fit` defaults to student_mod.fit_mvstud."""
    fit = fit or student_mod.fit_mvstud
    plain = _call(fit, data)
    log = []
    with _proxies(student_mod, log):
        obs = _call(fit, data)
    if (plain["raised"] is None) != (obs["raised"] is None) or not (
        _same_bits(plain["mu"], obs["mu"]) and _same_bits(plain["Sigma"], obs["Sigma"]) and _same_bits(plain["nu"], obs["nu"])
    ):
        raise ObservationError(f"observed fit differs from the unobserved one: {plain['raised']} / {obs['raised']}")
    return parse_log(log, obs, np.asarray(data, dtype=float))


def parse_log(log, res, data):
    """Structure the flat log as: init state, iterations, exit."""
    n, dim = data.shape
    mu_cur = None
    tests = []
    its = []
    cur = None
    mu0 = None
    for ev in log:
        k = ev[0]
        if k == "array":
            a = np.asarray(ev[1], dtype=float)
            if a.size == dim:
                mu_cur = a.ravel().copy()
                if cur is None:
                    mu0 = mu_cur
                else:
                    cur["mu_out"] = mu_cur
        elif k == "abs":
            tests.append(ev[1])
            if cur is not None:
                cur["test_after"] = ev[1]
        elif k == "solve":
            if mu_cur is None and ev[2].shape == (dim, n):  # the location did not pass through np.array: recover it from diffs = data - mu
                mu_cur = np.median(data.T - ev[2], axis=1)
                if mu0 is None:
                    mu0 = mu_cur
            cur = {"Sigma_in": ev[1], "diffs": ev[2], "mu_in": mu_cur, "psi": [], "bisect": None, "delta": None, "mu_out": None,
                   "test_before": tests[-1] if tests else None, "test_after": None}
            its.append(cur)
        elif k == "delta":
            if cur is not None and cur["delta"] is None:
                cur["delta"] = ev[1]
        elif k == "psi":
            if cur is not None:
                cur["psi"].append(ev[1])
        elif k == "bisect":
            if cur is not None:
                cur["bisect"] = ev[1:]
    run = {"n": n, "dim": dim, "mu0": mu0, "its": its, "res": res, "tests": tests,
           "Sigma0": its[0]["Sigma_in"] if its else (res["Sigma"] if res["raised"] is None else None)}
    for j, it in enumerate(its):
        last = j == len(its) - 1
        nxt = its[j + 1] if not last else None
        if it["bisect"] is not None:
            it["branch"] = "root" if it["bisect"][2] is not None else "raise"
            it["nu"] = it["bisect"][2]
        elif it["psi"]:
            it["branch"] = "inf"
            it["nu"] = math.inf
        else:
            it["branch"] = "raise"  # the iteration ended before the nu update
            it["nu"] = None
        it["tpt"] = 2.0 * it["psi"][0] if it["psi"] else None
        if nxt is not None:
            it["Sigma_out"], it["decision"] = nxt["Sigma_in"], "cont"
        else:
            it["Sigma_out"] = res["Sigma"]
            it["decision"] = "raise" if res["raised"] is not None else ("ret" if it["branch"] == "inf" else "exit")
        if it["mu_out"] is None:  # inf branch returns the incoming location
            it["mu_out"] = it["mu_in"] if it["branch"] == "inf" else (res["mu"] if last else None)
    return run


# ----------------------------------------------------------------------------------------------------------------
# the specification's real-arithmetic objects, evaluated by the projection
# ----------------------------------------------------------------------------------------------------------------
def F(nu, delta, dim):
    """func0 as the ECME step defines it (transcribed from the algorithm, not imported from the repository)."""
    delta = np.asarray(delta, dtype=float)
    w = (nu + dim) / (nu + delta)
    return float(-_sp.psi(nu / 2) + math.log(nu / 2) + np.mean(np.log(w)) - np.mean(w) + 1 + _sp.psi((nu + dim) / 2) - math.log((nu + dim) / 2))


def branch_oracle(delta, dim, tpt):
    """Sign of the REAL-arithmetic value of func0 at the code's own test point `tpt`.
    For tpt >= 1e5 by the expansion  func0(nu) = c2/nu^2 + c3/nu^3 + O(nu^-4),
        c2 = dim - mean((delta-dim)^2)/2,   c3 = -dim^2 + 2 dim/3 + dim^3/3 + 2 mean(delta^3)/3 - dim mean(delta^2)
    (exact up to a relative (max delta / tpt) remainder); below that by direct double evaluation (|func0| >> rounding).
    Returns (tag, margin): tag in {"inf", "root", "tie"}; "tie" when the relative margin is below 1e-2 (series) resp.
    the value is within 1e-11 of zero (direct) - too close to be decided by any double evaluation."""
    d = np.asarray(delta, dtype=float)
    if not np.all(np.isfinite(d)) or tpt is None or not np.isfinite(tpt):
        return "tie", 0.0
    p = float(dim)
    if tpt >= 1e5:
        V = float(np.mean((d - p) ** 2))
        c2 = p - V / 2
        c3 = -p * p + 2 * p / 3 + p ** 3 / 3 + 2 * float(np.mean(d ** 3)) / 3 - p * float(np.mean(d ** 2))
        val = c2 + c3 / tpt
        scale = p + V / 2 + abs(c3) / tpt
        margin = abs(val) / scale
        if margin < 1e-2 or float(np.max(d)) / tpt > 1e-2:
            return "tie", margin
        return ("inf" if val >= 0 else "root"), margin
    f = F(tpt, d, dim)
    if abs(f) < 1e-11:
        return "tie", abs(f)
    return ("inf" if f >= 0 else "root"), abs(f)


def root_ok(nu, delta, dim):
    """nu solves the step's equation: func0 changes sign from + to - across [nu(1-r), nu(1+r)] or is at rounding level."""
    if nu is None or not np.isfinite(nu) or nu <= 0:
        return False, float("nan")
    f0 = F(nu, delta, dim)
    r = 1e-9
    lo, hi = F(nu * (1 - r) - 1e-11 if nu * (1 - r) - 1e-11 > 0 else nu * (1 - r), delta, dim), F(nu * (1 + r) + 1e-11, delta, dim)
    ok = (lo >= 0 >= hi) or abs(f0) <= 1e-12
    return bool(ok), abs(f0)


# ----------------------------------------------------------------------------------------------------------------
# data sets and the group of maps
# ----------------------------------------------------------------------------------------------------------------
CLASSES = ["gauss", "t1", "t2", "t3", "t5", "lognormal", "contam", "dup", "corr", "cube"]


def make_data(rng, cls, d, n):
    def mix(z, cond=8.0):
        q, _ = np.linalg.qr(rng.standard_normal((d, d)))
        sv = np.exp(rng.uniform(0, math.log(cond), d))
        return z @ (q * sv).T

    if cls == "gauss":
        return mix(rng.standard_normal((n, d))) + rng.uniform(-2, 2, d)
    if cls in ("t1", "t2", "t3", "t5"):
        df = int(cls[1:])
        z = rng.standard_normal((n, d)) / np.sqrt(rng.chisquare(df, (n, 1)) / df)
        return mix(z) + rng.uniform(-2, 2, d)
    if cls == "lognormal":
        return np.exp(0.75 * rng.standard_normal((n, d)) + rng.uniform(-0.5, 0.5, d))
    if cls == "contam":
        x = mix(rng.standard_normal((n, d)))
        k = max(1, int(round(0.05 * n)))
        rows = rng.choice(n, k, replace=False)
        x[rows] = rng.standard_normal((k, d)) * rng.choice([30.0, 100.0, 1000.0]) + rng.uniform(-50, 50, d)
        return x
    if cls == "dup":
        m = min(n, max(4 * d, n // 3))  # at least 4d DISTINCT points (the quantifier's n >= 4d is asked of the support)
        base = mix(rng.standard_t(4, (m, d)))
        idx = np.concatenate([np.arange(m), rng.integers(0, m, n - m)])
        return base[rng.permutation(idx)]
    if cls == "corr":
        f = rng.standard_normal((n, 1))
        load = rng.uniform(0.5, 2.0, d) * rng.choice([-1.0, 1.0], d)
        noise = 10.0 ** rng.uniform(-2.5, -1.0)
        return f * load + noise * rng.standard_normal((n, d)) if d > 1 else f * load
    if cls == "cube":
        a, b = rng.uniform(0.6, 6.0, d), rng.uniform(0.6, 6.0, d)
        return rng.beta(a, b, (n, d))
    raise ValueError(cls)


def draw_case(rng, k):
    """k-th data set of a family: class and dimension cycle so that every class x small/large dimension occurs."""
    cls = CLASSES[k % len(CLASSES)]
    d = 1 + (k // len(CLASSES) + k) % 8
    n_hi = max(4 * d + 1, 320)
    n = int(4 * d + (k % 3 == 0) * 0 + (0 if k % 7 == 0 else rng.integers(0, n_hi - 4 * d)))
    return cls, d, n


def all_perms(d):
    return [list(p) for p in itertools.permutations(range(d))]


def make_map(rng, d, kind, perm=None):
    """g(x)_j = s_j * x_perm[j] + t_j.  kind selects which generators of the group are non-trivial."""
    s = np.ones(d)
    t = np.zeros(d)
    p = list(range(d))
    dyadic = True
    if "S" in kind:  # dyadic per-coordinate scaling, 2^-19 .. 2^19  (1.9e-6 .. 5.2e5): exact in floating point
        s = 2.0 ** rng.integers(-19, 20, d)
    if "E" in kind:  # the end points of the property's range, all coordinates at one end or mixed
        s = rng.choice([1e-6, 1e6], d)
        dyadic = False
    if "N" in kind:  # non-dyadic scaling, log-uniform on [1e-6, 1e6]
        s = 10.0 ** rng.uniform(-6, 6, d)
        dyadic = False
    if "T" in kind:  # translation: magnitude log-uniform on [1e-3, 1e6], random signs (bounded below by conditioning, see fit_budget)
        t = rng.choice([-1.0, 1.0], d) * 10.0 ** rng.uniform(-3, 6, d)
    if "P" in kind:
        p = list(perm) if perm is not None else list(rng.permutation(d))
    return {"s": s, "t": t, "p": [int(v) for v in p], "dyadic": bool(dyadic), "kind": kind}


def apply_map(g, X):
    return X[:, g["p"]] * g["s"] + g["t"]


def g_mu(g, mu):
    return np.asarray(mu)[g["p"]] * g["s"] + g["t"]


def g_sigma(g, S):
    S = np.asarray(S)
    return S[np.ix_(g["p"], g["p"])] * np.outer(g["s"], g["s"])


def condition(X):
    """K(X) = (max_j max|x_j| / sd_j) * cond(correlation matrix): how many units of rounding of the REPRESENTATION of the
    data one unit of its standardised shape is worth.  Equality 'up to rounding' is measured in units of eps*K."""
    sd = X.std(axis=0)
    if not np.all(sd > 0):
        return math.inf, math.inf, math.inf
    loc = float(np.max(np.max(np.abs(X), axis=0) / sd))
    R = np.corrcoef(X.T) if X.shape[1] > 1 else np.ones((1, 1))
    try:
        c = float(np.linalg.cond(np.atleast_2d(R)))
    except Exception:
        c = math.inf
    return max(loc, 1.0) * c, loc, c


TOL_TARGET = 1e-5  # translations are limited so that the per-iteration tolerance of a pair stays below this where the data allow it


def fit_budget(g, X, numax=1.0):
    """Translations are shrunk (by factors of 10) until the image data keep enough significant bits of their own spread:
    TOL_SHAPE(K(g(X)), nu_max) <= TOL_TARGET (or K(g(X)) <= 4 K(X) when X itself is worse than that).
    Returns the map actually used and K of the pair."""
    KA = condition(X)[0]
    kmax = (TOL_TARGET - TOL_SHAPE[0]) / (TOL_SHAPE[1] * EPS * max(1.0, numax))
    KB = KA
    for _ in range(14):
        KB = condition(apply_map(g, X))[0]
        if KB <= max(kmax, 4 * KA) or not np.any(g["t"]):
            break
        g = dict(g, t=g["t"] / 10.0)
    return g, max(KA, KB)


# ----------------------------------------------------------------------------------------------------------------
# error measures (all dimensionless; 'equal' = error <= tolerance decided in c19.py)
# ----------------------------------------------------------------------------------------------------------------
def err_mu(g, muA, muB, SigB):
    if muA is None or muB is None or SigB is None:
        return 0.0 if (muA is None and muB is None) else math.inf
    sd = np.sqrt(np.abs(np.diag(SigB)))
    with np.errstate(all="ignore"):
        e = np.abs(muB - g_mu(g, muA)) / sd
    return float(np.nan_to_num(np.max(e), nan=math.inf))


def err_sigma(g, SA, SB):
    if SA is None or SB is None:
        return 0.0 if (SA is None and SB is None) else math.inf
    T = g_sigma(g, SA)
    sd = np.sqrt(np.abs(np.diag(SB)))
    with np.errstate(all="ignore"):
        e = np.abs(SB - T) / np.outer(sd, sd)
    return float(np.nan_to_num(np.max(e), nan=math.inf))


def err_delta(dA, dB):
    if dA is None or dB is None:
        return 0.0 if (dA is None and dB is None) else math.inf
    if dA.shape != dB.shape:
        return math.inf
    with np.errstate(all="ignore"):
        e = np.abs(dB - dA) / (np.abs(dA) + 1.0)
    return float(np.nan_to_num(np.max(e), nan=math.inf))


def err_nu(a, b):
    if a is None or b is None:
        return 0.0 if (a is None and b is None) else math.inf
    if math.isinf(a) or math.isinf(b):
        return 0.0 if a == b else math.inf
    if math.isnan(a) or math.isnan(b):
        return math.inf
    return abs(b - a) / (abs(a) * max(1.0, abs(a)))


# ----------------------------------------------------------------------------------------------------------------
# single-run well-posedness predicates
# ----------------------------------------------------------------------------------------------------------------
def is_pd(S):
    """Cholesky of S succeeds (what ModeStatistics does) and the smallest eigenvalue of the diagonally equilibrated matrix
    D^-1/2 S D^-1/2 is > 0 (positive definiteness is invariant under that congruence; on the raw matrix eigvalsh's absolute
    error eps*||S|| would swamp the small eigenvalues of a matrix whose coordinates have scales 1e-6 .. 1e6)."""
    S = np.asarray(S, dtype=float)
    if not np.all(np.isfinite(S)) or not np.all(np.diag(S) > 0):
        return False
    try:
        np.linalg.cholesky(S)
    except np.linalg.LinAlgError:
        return False
    sd = np.sqrt(np.diag(S))
    Cn = S / np.outer(sd, sd)
    return bool(np.linalg.eigvalsh((Cn + Cn.T) / 2).min() > 0)


def well_posed(X, res):
    """Clauses of the first sentence of C19 on a returned (mu, Sigma, nu).
    'symmetric' is asked up to the rounding of the scatter sum: |S_ij - S_ji| <= 4 n eps sqrt(S_ii S_jj)  (np.dot(w*d, d.T)
    rounds (w d_i) d_j and (w d_j) d_i differently).  'inside the bounding box' is asked with the slack a weighted mean of n doubles needs:
        min_j - n*eps*max|x_j|  <=  mu_j  <=  max_j + n*eps*max|x_j|   (the median and any convex combination computed in
    double arithmetic satisfy it; one part in 1e13 of the data's magnitude for n = 300)."""
    n, d = X.shape
    if res["raised"] is not None:
        return {k: False for k in ("MuFinite", "MuInBox", "SigmaSymmetric", "SigmaPD", "NuRange")}
    mu, S, nu = res["mu"], res["Sigma"], res["nu"]
    out = {}
    out["MuFinite"] = bool(mu.shape == (d,) and np.all(np.isfinite(mu)))
    slack = n * EPS * np.max(np.abs(X), axis=0)
    out["MuInBox"] = bool(out["MuFinite"] and np.all(mu >= X.min(axis=0) - slack) and np.all(mu <= X.max(axis=0) + slack))
    fin = bool(S.shape == (d, d) and np.all(np.isfinite(S)))
    out["SigmaSymmetric"] = bool(fin and np.all(np.abs(S - S.T) <= 4 * n * EPS * np.sqrt(np.abs(np.outer(np.diag(S), np.diag(S))))))
    out["SigmaPD"] = bool(fin and is_pd(S))
    out["NuRange"] = bool(nu is not None and not math.isnan(nu) and nu > 0)
    return out


# ----------------------------------------------------------------------------------------------------------------
# projection: observed runs -> StudentPair.tla items
# ----------------------------------------------------------------------------------------------------------------
C_INIT = 64.0  # acceptance for the initial estimates, units of eps*K (worst observed 1.9)
# acceptance for per-iteration quantities:  floor + C * eps * K * max(1, nu_max).  The floor is the absolute termination
# tolerance of the root search (scipy bisect xtol = 2e-12) as the iteration propagates it (observed <= 1.7e-10 on delta, <= 1.7e-11
# on Sigma); the slope is the rounding of the data representation (observed <= 1e3 on delta / mu, <= 1e2 on nu / Sigma).
TOL_SHAPE = (1e-8, 1.0e5)  # delta, mu
TOL_SCAT = (1e-9, 1.0e4)  # nu, Sigma
C_ITER = TOL_SHAPE[1]


def _finite_nus(run):
    return [it["nu"] for it in run["its"] if it["nu"] is not None and math.isfinite(it["nu"])]


def step_conformance(run, X):
    """Truth values of 'logged output = the specification's definition applied to the logged input' for every
    iteration of ONE run, and the exact loop-test facts."""
    n, p = X.shape
    out = []
    last_nu = 20.0
    for k, it in enumerate(run["its"], start=1):
        r = {}
        S_in, diffs, mu_in, delta = it["Sigma_in"], it["diffs"], it["mu_in"], it["delta"]
        centred = mu_in is not None and diffs.shape == (p, n) and bool(
            np.all(np.abs(diffs - (X.T - mu_in.reshape(-1, 1))) <= 4 * EPS * (np.abs(X.T) + np.abs(mu_in.reshape(-1, 1)))))
        dok = False
        if centred and delta is not None and delta.shape == (n,):
            try:
                with np.errstate(all="ignore"):
                    ref = np.sum(diffs * np.linalg.solve(S_in, diffs), 0)
                dok = bool(np.all(np.abs(ref - delta) <= 1e-12 * (np.abs(ref) + 1.0)))
            except np.linalg.LinAlgError:
                dok = False
        r["dok"] = dok
        tpt = it["tpt"]
        ex, margin = branch_oracle(delta, p, tpt) if delta is not None and delta.shape == (n,) else ("tie", 0.0)
        r["ex"], r["margin"] = ex, margin
        dmax = float(np.max(delta)) if delta is not None and delta.size and np.all(np.isfinite(delta)) else 0.0
        r["blind"] = bool(tpt is not None and np.isfinite(tpt) and tpt + p == tpt and tpt + dmax == tpt)
        r["tieb"] = ex == "tie"
        br = it["branch"]
        nu = it["nu"]
        if br == "root":
            ok, f0 = root_ok(nu, delta, p)
            r["rok"], r["f_at_root"] = ok, f0
            with np.errstate(all="ignore"):
                w = (nu + p) / (nu + delta)
                S_ref = np.dot(w * diffs, diffs.T) / n
                mu_ref = np.sum(w * X.T, 1) / np.sum(w)
            S_out, mu_out = it["Sigma_out"], it["mu_out"]
            sd = np.sqrt(np.abs(np.diag(S_ref)))
            r["sok"] = bool(S_out is not None and S_out.shape == (p, p) and np.all(np.abs(S_out - S_ref) <= 1e-11 * np.outer(sd, sd)))
            r["mok"] = bool(mu_out is not None and mu_out.shape == (p,) and np.all(np.abs(mu_out - mu_ref) <= 8 * n * EPS * np.max(np.abs(X), axis=0)))
        elif br == "inf":
            r["rok"], r["f_at_root"] = True, 0.0
            r["sok"] = bool(it["Sigma_out"] is not None and _same_bits(it["Sigma_out"], S_in))
            r["mok"] = bool(it["mu_out"] is not None and mu_in is not None and _same_bits(it["mu_out"], mu_in))
        else:
            r["rok"] = r["sok"] = r["mok"] = True
            r["f_at_root"] = 0.0
        # the loop test evaluated after this iteration
        ta = it["test_after"]
        if it["decision"] in ("ret", "raise"):
            r["tst"], r["over"], r["test"] = True, False, None
        else:
            r["tst"] = bool(ta is not None and nu is not None and ta == abs(last_nu - nu))
            r["over"] = bool(ta is not None and ta > TOL_NU)
            r["test"] = ta
        if nu is not None:
            last_nu = nu
        out.append(r)
    return out


def pair_tolerances(g, X, Y, A, B):
    KA, KB = condition(X)[0], condition(Y)[0]
    K = max(KA, KB)
    numax = max([1.0] + _finite_nus(A) + _finite_nus(B))
    exact = bool(X.shape[1] == 1 and g["dyadic"] and not np.any(g["t"]))
    if exact:
        return {"K": K, "numax": numax, "exact": True, "init": 0.0, "shape": 0.0, "scat": 0.0}
    u = EPS * K * numax
    return {"K": K, "numax": numax, "exact": False, "init": C_INIT * EPS * K, "shape": TOL_SHAPE[0] + TOL_SHAPE[1] * u, "scat": TOL_SCAT[0] + TOL_SCAT[1] * u}


def project_pair(g, X, Y, A, B):
    """-> (item for StudentPair.tla, diagnostics).  Tags: run A carries 0; run B carries 0 when its value equals the
    image under g of run A's value up to the pair's tolerance, 1 otherwise."""
    tol = pair_tolerances(g, X, Y, A, B)
    ca, cb = step_conformance(A, X), step_conformance(B, Y)
    worst = {"mu0": 0.0, "S0": 0.0, "delta": 0.0, "nu": 0.0, "mu": 0.0, "S": 0.0}

    def tag(e, t, key):
        worst[key] = max(worst[key], e if math.isfinite(e) else 1e300)
        return 0 if e <= t else 1

    def init_rec(run, is_b):
        S0, mu0 = run["Sigma0"], run["mu0"]
        pd = bool(S0 is not None and is_pd(S0))
        rec = {"mu": 0, "sig": 0, "pd": pd, "fin": bool(mu0 is not None and np.all(np.isfinite(mu0)))}
        if is_b:
            rec["mu"] = tag(err_mu(g, A["mu0"], B["mu0"], B["Sigma0"]), tol["init"], "mu0")
            rec["sig"] = tag(err_sigma(g, A["Sigma0"], B["Sigma0"]), tol["init"], "S0")
        return rec

    def its_rec(run, conf, is_b):
        out = []
        for k, (it, c) in enumerate(zip(run["its"], conf)):
            nu = it["nu"]
            band = 0.0
            if nu is not None and math.isfinite(nu):
                band = 2.0 * tol["scat"] * abs(nu) * max(1.0, abs(nu)) + 1e-9 * TOL_NU
            rec = {"delta": 0, "nu": 0, "sig": 0, "mu": 0, "br": it["branch"], "ex": c["ex"], "blind": c["blind"], "dec": it["decision"],
                   "dok": c["dok"], "rok": c["rok"], "sok": c["sok"], "mok": c["mok"], "tst": c["tst"], "over": c["over"],
                   "tieb": c["tieb"], "tiec": bool(c["test"] is not None and abs(c["test"] - TOL_NU) <= band)}
            if is_b and k < len(A["its"]):
                a = A["its"][k]
                rec["delta"] = tag(err_delta(a["delta"], it["delta"]), tol["shape"], "delta")
                if a["branch"] == it["branch"]:
                    rec["nu"] = tag(err_nu(a["nu"], nu), tol["scat"], "nu")
                    rec["sig"] = tag(err_sigma(g, a["Sigma_out"], it["Sigma_out"]), tol["scat"], "S")
                    rec["mu"] = tag(err_mu(g, a["mu_out"], it["mu_out"], it["Sigma_out"]), tol["shape"], "mu")
            out.append(rec)
        return out

    def fin_rec(run, data, is_b):
        res = run["res"]
        last = True
        if run["its"] and res["raised"] is None:
            li = run["its"][-1]
            last = bool(_same_bits(li["mu_out"], res["mu"]) and _same_bits(li["Sigma_out"], res["Sigma"]) and li["nu"] is not None
                        and (li["nu"] == res["nu"]))
        rec = {"mu": 0, "sig": 0, "nu": 0, "raised": res["raised"] is not None, "last": last, "wp": well_posed(data, res)}
        if is_b:
            ra = A["res"]
            if ra["raised"] is None and res["raised"] is None:
                rec["mu"] = 0 if err_mu(g, ra["mu"], res["mu"], res["Sigma"]) <= tol["shape"] else 1
                rec["sig"] = 0 if err_sigma(g, ra["Sigma"], res["Sigma"]) <= tol["scat"] else 1
                rec["nu"] = 0 if err_nu(ra["nu"], res["nu"]) <= tol["scat"] else 1
            elif (ra["raised"] is None) != (res["raised"] is None):
                rec["mu"] = rec["sig"] = rec["nu"] = 1
        return rec

    item = {"kind": "pair", "max": MAX_ITER,
            "a": {"init": init_rec(A, False), "its": its_rec(A, ca, False), "fin": fin_rec(A, X, False)},
            "b": {"init": init_rec(B, True), "its": its_rec(B, cb, True), "fin": fin_rec(B, Y, True)}}
    diag = {"tol": tol, "worst": worst, "lenA": len(A["its"]), "lenB": len(B["its"]),
            "nuA": A["res"]["nu"], "nuB": B["res"]["nu"], "raisedA": A["res"]["raised"], "raisedB": B["res"]["raised"],
            "marginsA": [c["margin"] for c in ca[:3]], "f_at_root_max": max([c["f_at_root"] for c in ca + cb] + [0.0]),
            "tptA": [it["tpt"] for it in A["its"][:1]]}
    return item, diag


def dof_class(v):
    v = float(v)
    if math.isnan(v):
        return "nan"
    if math.isinf(v):
        return "inf"
    return "pos" if v > 0 else "nonpos"


# ----------------------------------------------------------------------------------------------------------------
# ModeStatistics.from_particles / from_global observed from outside
# ----------------------------------------------------------------------------------------------------------------
def observe_modes(modes_mod, student_mod, u, w, labels=None, n_modes=None, fallback=7.5, seed=0, observe=True):
    """Calls the real constructor with (a) the name `fit_mvstud` inside tempest.modes pointed at a wrapper that runs the
    real fit (observed, see observe_fit) and records its input and raw output, (b) numpy.random.choice wrapped to record
    the resampling indices.  Returns {"ms": object | None, "raised", "fits": [...], "choices": [...]}."""
    fits, choices = [], []
    real_fit = modes_mod.fit_mvstud
    real_choice = np.random.choice

    def fit(data, *a, **kw):
        data = np.array(data, copy=True)
        run = None
        if observe and not a and not kw:
            try:
                run = observe_fit(student_mod, data, fit=real_fit)
            except ObservationError:
                raise
        rec = {"data": data, "out": None, "run": run}
        fits.append(rec)
        if run is not None and run["res"]["raised"] is None:  # observe_fit has shown this to be bit-identical to the plain call
            out = (run["res"]["mu"].copy(), run["res"]["Sigma"].copy(), run["res"]["nu"])
        else:
            out = real_fit(np.array(data, copy=True), *a, **kw)
        rec["out"] = (np.array(out[0], dtype=float, copy=True), np.array(out[1], dtype=float, copy=True), float(out[2]))
        return out

    def choice(a, size=None, replace=True, p=None):
        r = real_choice(a, size=size, replace=replace, p=p)
        choices.append({"a": a, "idx": np.array(r, copy=True), "p": None if p is None else np.array(p, copy=True)})
        return r

    np.random.seed(seed)
    modes_mod.fit_mvstud = fit
    np.random.choice = choice
    ms, raised = None, None
    buf = io.StringIO()
    try:
        import warnings

        with contextlib.redirect_stdout(buf), np.errstate(all="ignore"), warnings.catch_warnings():
            warnings.simplefilter("ignore")
            if labels is None:
                ms = modes_mod.ModeStatistics.from_global(u, w, dof_fallback=fallback)
            elif n_modes is None:
                ms = modes_mod.ModeStatistics.from_particles(u, w, labels, dof_fallback=fallback)
            else:
                ms = modes_mod.ModeStatistics.from_particles(u, w, labels, dof_fallback=fallback, n_modes=n_modes)
    except Exception as ex:  # noqa
        raised = type(ex).__name__ + ": " + str(ex)[:160]
    finally:
        modes_mod.fit_mvstud = real_fit
        np.random.choice = real_choice
    return {"ms": ms, "raised": raised, "fits": fits, "choices": choices}


def thin_support(obs, d):
    """some fit inside the construction received fewer than 4d DISTINCT rows (outside the property's quantifier)"""
    return any(len(np.unique(f["data"], axis=0)) < 4 * d for f in obs["fits"])


def project_modes(obs, u, w, labels, n_modes, fallback):
    """-> the "m" record of a StudentPair.tla "modes" item."""
    ms = obs["ms"]
    if labels is None:
        groups = [np.arange(len(u))]
    else:
        labs = np.unique(labels) if n_modes is None else np.arange(n_modes)
        groups = []
        for lab in labs:
            idx = np.where(np.asarray(labels) == lab)[0]
            groups.append(idx if len(idx) else np.arange(len(labels)))
    m = {"raised": obs["raised"] is not None, "modes": [], "kok": False}
    if ms is None:
        return m
    K = len(groups)
    m["kok"] = bool(ms.means.shape[0] == K and ms.covariances.shape[0] == K and ms.degrees_of_freedom.shape == (K,)
                    and len(obs["fits"]) == K)
    wn = np.asarray(w, dtype=float)
    for j in range(min(K, ms.means.shape[0], len(obs["fits"]))):
        f = obs["fits"][j]
        if f["out"] is None:
            continue
        mean, cov, raw = f["out"]
        stored = float(ms.degrees_of_freedom[j])
        C = np.asarray(ms.covariances[j], dtype=float)
        inv = np.asarray(ms.inv_covariances[j], dtype=float)
        L = np.asarray(ms.chol_covariances[j], dtype=float)
        d = C.shape[0]
        sd = np.sqrt(np.abs(np.diag(C)))
        with np.errstate(all="ignore"):
            invfin = bool(np.all(np.isfinite(inv)))
            cholfin = bool(np.all(np.isfinite(L)))
            Cn = C / np.outer(sd, sd)  # scale-free forms
            invn = inv * np.outer(sd, sd)
            try:
                cond = float(np.linalg.cond(Cn))
            except Exception:
                cond = math.inf
            invok = bool(invfin and np.all(np.abs(invn @ Cn - np.eye(d)) <= 64 * d * EPS * max(cond, 1.0)))
            cholok = bool(cholfin and np.allclose(L, np.tril(L)) and np.all(np.abs(L @ L.T - C) <= 64 * d * EPS * np.outer(sd, sd)))
        ch = obs["choices"][j] if j < len(obs["choices"]) else None
        grp = groups[j]
        # "fitted on resampled support points": every row handed to the fit is a row of this label's particles with positive
        # weight.  HOW the rows are drawn (numpy.random.choice, a systematic comb, ...) is not prescribed; when a choice() call
        # was observed it must in addition be the one that produced the data.
        pw = wn[grp]
        support = {np.ascontiguousarray(r).tobytes() for r, ww in zip(np.asarray(u, dtype=float)[grp], pw) if ww > 0}
        rows = np.asarray(f["data"], dtype=float)
        resok = bool(rows.ndim == 2 and len(rows) >= 1 and all(np.ascontiguousarray(r).tobytes() in support for r in rows))
        if ch is not None and resok:
            idx = ch["idx"]
            resok = bool(np.ndim(ch["a"]) == 0 and int(ch["a"]) == len(grp) and idx.ndim == 1 and len(idx) >= 1 and np.all(pw[idx] > 0)
                         and np.array_equal(f["data"], np.asarray(u)[grp][idx]))
        m["modes"].append({"raw": dof_class(raw), "stored": dof_class(stored), "isfb": bool(stored == fallback),
                           "israw": bool(stored == raw), "meanok": _same_bits(np.asarray(ms.means[j], dtype=float), mean),
                           "covok": _same_bits(C, cov), "invfin": invfin, "invok": invok, "cholfin": cholfin, "cholok": cholok,
                           "resok": resok})
    return m


DEGENERATE = ["constcoord", "collinear", "fewpoints", "allequal"]


def make_degenerate(rng, what, d):
    d = max(d, 2)
    if what == "constcoord":
        X = rng.standard_normal((6 * d, d))
        X[:, rng.integers(0, d)] = 0.375
        return X
    if what == "collinear":
        return rng.standard_normal((6 * d, 1)) * rng.uniform(0.5, 2, d) + rng.uniform(-1, 1, d)
    if what == "fewpoints":
        return rng.standard_normal((d, d))
    if what == "allequal":
        return np.tile(rng.uniform(0, 1, d), (5 * d, 1))
    raise ValueError(what)


def outcome(res_or_ms):
    """'raised:<Type>' | 'finite' | 'non-finite-returned'"""
    if isinstance(res_or_ms, dict) and "ms" in res_or_ms:
        if res_or_ms["raised"]:
            return "raised:" + res_or_ms["raised"].split(":")[0]
        ms = res_or_ms["ms"]
        ok = all(np.all(np.isfinite(np.asarray(a, dtype=float))) for a in (ms.means, ms.covariances, ms.degrees_of_freedom, ms.inv_covariances, ms.chol_covariances))
        return "finite" if ok else "non-finite-in-ModeStatistics"
    res = res_or_ms
    if res["raised"]:
        return "raised:" + res["raised"].split(":")[0]
    ok = np.all(np.isfinite(res["mu"])) and np.all(np.isfinite(res["Sigma"])) and not math.isnan(res["nu"])
    return "finite" if ok else "non-finite-returned"
