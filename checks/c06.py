#!/venv/bin/python
"""C06 - resampling returns exactly n valid indices and is unbiased.

Specification: specs/Resample.tla (+ ResampleOps.tla, ResampleTrace.tla).

1. TLC explores Resample.tla (variant "intended") exhaustively: the systematic comb as the
   implementation's loop over rational cumulative weights, for every offset of the finite partition of
   [0,1) (every breakpoint and an interior point of every cell), weights with zeros anywhere, the
   tolerance family (sum = 1 -/+ eps below the renormalisation threshold, offsets just below one),
   and the multinomial inverse-CDF lookup.  Invariants: exactly n indices, in range, non-decreasing,
   zero-weight indices never chosen, copies in {floor(n w), ceil(n w)}, exact unbiasedness as a counting
   identity over the cells, completeness of the offset cover.
2. The code-shaped variant ("impl": comparison `>`, unbounded inner loop) is run against the same
   invariants; TLC must exhibit the counterexamples (kept in the evidence).
3. Binding B: every enumerated (n, w, u0) is replayed into tempest.tools.systematic_resample with
   numpy.random.random scripted to return u0 (breakpoints only with dyadic data, where the double
   arithmetic is exact; cell midpoints for every denominator).  An outcome equal to the specification's
   is accepted; every other outcome (an exception is an outcome) is handed back to TLC
   (ResampleTrace.tla) which returns the set of property clauses it fails - at a breakpoint either
   closure convention is acceptable as long as every clause holds.
4. Binding A: Resampler.run(resample='mult') on generated (history, weights, seed): the global stream
   is snapshotted, the consumed uniforms are regenerated from the snapshot, and TLC validates every
   returned index against idx_i = min{j : r_i < cdf_j} on order ranks, plus "the same index vector is
   applied to u, x, logl and blobs" on row ids.  Resampler.run(resample='syst') and
   SamplerCore.compute_posterior(resample=True) are driven through the same scripted offsets.
"""
import json
import os
import sys
import types
from concurrent.futures import ThreadPoolExecutor
from fractions import Fraction

sys.path.insert(0, os.path.dirname(os.path.dirname(os.path.abspath(__file__))))
from vlib import core, tla, tlc  # noqa: E402

CFG = """INIT Init
NEXT Next
CONSTANTS
  Variant = "{variant}"
  Ns = {ns}
  Ds = {ds}
  MaxLen = {maxlen}
  TolNs = {tolns}
  TolDs = {tolds}
  TolMaxLen = {tolmaxlen}
  TQ = 2048
  TE = 8
  MultNs = {multns}
  MultDs = {multds}
  MultMaxLen = {multmaxlen}
  DegDs = {degds}
  DegNs = {degns}
  DegBigDs = {degbigds}
  DegBigNs = {degbigns}
{invariants}
CHECK_DEADLOCK FALSE
"""

INVARIANTS = [
    "TypeOK", "NoError", "ExactlyNIndices", "IndicesInRange", "IndicesNonDecreasing", "ZeroWeightNeverChosen",
    "FloorCeilLaw", "FloorCeilLawPositive", "LoopMatchesOperator", "LoopMatchesDefinition", "InteriorConventionFree",
    "CoverageComplete", "Unbiased", "MultLookupValid", "MultUnbiased",
]
# invariants the code-shaped variant must be shown to violate (spec-level counterexamples of F6)
IMPL_EXPECTED = ["ZeroWeightNeverChosen", "FloorCeilLawPositive", "NoError"]

TRACE_CFG = """INIT Init
NEXT Next
INVARIANT TypeOK
INVARIANT LookupIsSearchSortedRight
CHECK_DEADLOCK FALSE
"""

TQ = 2048
FINE = 2.0 ** -30  # concrete image of the specification's fine unit 1/TQ   (TE = 8 units -> eps = 2^-27)


def cfg(consts, variant, invariants):
    return CFG.format(variant=variant, invariants="\n".join("INVARIANT " + i for i in invariants), **consts)


def iter_done_states(path):
    """States of a TLC dump whose pc is "done" (the other blocks are not even parsed)."""
    block, done = [], False

    def flush():
        if block and done:
            return tla.parse_state_block(block)
        return None

    with open(path) as f:
        for ln in f:
            ln = ln.rstrip("\n")
            if ln.startswith("State "):
                st = flush()
                if st is not None:
                    yield st
                block, done = [], False
            elif ln.startswith("/\\") or (block and ln.strip()):
                block.append(ln)
                if ln == '/\\ pc = "done"':
                    done = True
    st = flush()
    if st is not None:
        yield st


# --------------------------------------------------------------------------- scripted offset
class BindingLost(RuntimeError):
    pass


class ScriptedRandom:
    """Replacement of numpy.random.random for one call of the code: the first value handed out is u0.
    Further values (a second call, or an array request) are *different* offsets, so a routine that does
    not use one common offset for all teeth does not reproduce the comb."""

    def __init__(self, np, u0):
        self.np, self.u0, self.calls, self.values = np, u0, 0, 0

    def _next(self):
        v = self.u0 if self.values == 0 else (self.u0 + 0.381966011250105 * self.values) % 1.0
        self.values += 1
        return v

    def __call__(self, size=None):
        self.calls += 1
        if size is None:
            return self._next()
        m = int(self.np.prod(size))
        return self.np.array([self._next() for _ in range(m)]).reshape(size)


class Patched:
    """numpy.random.{random,random_sample,rand,uniform} all answer from the script (so a harmless change
    of the drawing function does not lose the binding)."""

    NAMES = ("random", "random_sample", "rand", "ranf", "sample", "uniform")

    def __init__(self, np, u0):
        self.np, self.script, self.saved = np, ScriptedRandom(np, u0), {}

    def __enter__(self):
        for nm in self.NAMES:
            self.saved[nm] = getattr(self.np.random, nm)
        self.np.random.random = self.script
        self.np.random.random_sample = self.script
        self.np.random.rand = lambda *shape: self.script(shape if shape else None)
        self.np.random.ranf = self.script
        self.np.random.sample = self.script
        real_uniform = self.saved["uniform"]

        def uniform(low=0.0, high=1.0, size=None):
            if low == 0.0 and high == 1.0:
                return self.script(size)
            return real_uniform(low, high, size)

        self.np.random.uniform = uniform
        return self.script

    def __exit__(self, *exc):
        for nm, f in self.saved.items():
            setattr(self.np.random, nm, f)
        return False


def call_systematic(np, tools, n, w, u0):
    """-> (out, err, script): out = tuple of 1-based indices or the exception text."""
    with Patched(np, u0) as script:
        try:
            got = tools.systematic_resample(n, np.array(w, dtype=float))
        except Exception as ex:  # an exception is an outcome
            return repr(ex), True, script
    return tuple(int(v) + 1 for v in np.asarray(got).ravel()), False, script


# --------------------------------------------------------------------------- concretisation
def concretise(st):
    """Spec input -> (weights as doubles, u0 as double, exact?) ; exact = double arithmetic of the code is
    exact / unambiguous on this input so that breakpoints may be replayed."""
    fam, Q, dc, a, k = st["fam"], st["Q"], st["dc"], st["a"], st["k"]
    if fam in ("exact", "degen"):
        dyadic = Q & (Q - 1) == 0
        return [ai / Q for ai in a], k / (2 * Q), dyadic
    g = Q // dc  # coarse step in units 1/Q
    w = []
    for ai in a:
        f = ((ai + g // 2) % g) - g // 2
        w.append(((ai - f) // g) / dc + f * FINE)
    G = 2 * Q // dc
    if k % G == G // 2:
        u0 = (k // G + 0.5) / dc
    else:
        f = ((k + G // 2) % G) - G // 2
        assert f % 2 == 0
        u0 = ((k - f) // G) / dc + (f // 2) * FINE
    return w, u0, True


def order_preserved(st, w, u0):
    """Every comparison the comb can make has the same sign on the specification's integers and on the
    concrete doubles (evaluated exactly with Fractions): the concretisation is order preserving."""
    n, Q, a, k = st["n"], st["Q"], st["a"], st["k"]
    fu, A, fA = Fraction(u0), 0, Fraction(0)
    for j in range(len(a)):
        A += a[j]
        fA += Fraction(w[j])
        for i in range(n):
            s_spec = (k + 2 * Q * i) - 2 * n * A
            s_conc = (fu + i) - n * fA
            if (s_spec > 0) != (s_conc > 0) or (s_spec == 0) != (s_conc == 0):
                return False
    return True


def ranks_of(values):
    order = {v: r for r, v in enumerate(sorted(set(values)), start=1)}
    return order


# --------------------------------------------------------------------------- Resampler.run driver
def build_state(np, StateManager, sizes, blobs):
    """A real StateManager with len(sizes) committed batches; every field encodes the (1-based) row id."""
    st = StateManager(n_dim=2)
    row = 0
    for t, m in enumerate(sizes):
        ids = np.arange(row + 1, row + m + 1, dtype=float)
        row += m
        d = {
            "u": np.stack([ids, ids + 0.5], axis=1),
            "x": np.stack([1000.0 + ids, 2000.0 + ids], axis=1),
            "logl": -ids,
            "beta": 0.25 * t,
            "logz": 0.0,
            "iter": t,
        }
        if blobs:
            d["blobs"] = 7.0 * ids + 3.0
        st.update_current(d)
        st.commit_current_to_history()
    st.set_current("beta", 0.5)
    return st, row


def decode_rows(np, cur, blobs):
    """Row ids carried by the resampled fields (0 = not a row of the history)."""
    def ids(v, f):
        out = []
        for x in np.asarray(v, dtype=float).ravel():
            r = f(x)
            out.append(int(r) if r == int(r) and r >= 1 else 0)
        return tuple(out)

    u, x, logl = np.asarray(cur["u"]), np.asarray(cur["x"]), np.asarray(cur["logl"])
    rows = {}
    if u.ndim == 2:
        rows["u0"] = ids(u[:, 0], lambda v: v)
        rows["u1"] = ids(u[:, 1], lambda v: v - 0.5)
    if x.ndim == 2:
        rows["x0"] = ids(x[:, 0], lambda v: v - 1000.0)
        rows["x1"] = ids(x[:, 1], lambda v: v - 2000.0)
    rows["logl"] = ids(logl, lambda v: -v)
    if blobs:
        rows["blobs"] = ids(cur["blobs"], lambda v: (v - 3.0) / 7.0)
    return rows


def gen_weights(np, rng, N):
    """Weight vectors of length N with zeros (leading / trailing / interior), dyadic and non-dyadic, and
    sums within the tolerance numpy's choice accepts."""
    kind = rng.randint(0, 7)
    if kind == 0:  # dyadic with zeros
        parts = rng.multinomial(16, np.ones(N) / N).astype(float)
        w = parts / 16.0
    elif kind == 1:  # non-dyadic
        w = rng.dirichlet(np.ones(N) * 0.5)
    elif kind == 2:  # leading and trailing zeros
        w = rng.dirichlet(np.ones(N))
        if N >= 3:
            w[0] = 0.0
            w[-1] = 0.0
        w = w / w.sum()
    elif kind == 3:  # one-hot
        w = np.zeros(N)
        w[rng.randint(0, N)] = 1.0
    elif kind == 4:  # uniform
        w = np.ones(N) / N
    elif kind == 5:  # sum = 1 - 2^-27 (accepted without renormalisation)
        w = rng.dirichlet(np.ones(N)) * (1.0 - 2.0 ** -27)
    else:  # sum = 1 + 2^-27, interior zeros
        w = rng.dirichlet(np.ones(N))
        if N >= 2:
            w[rng.randint(0, N)] = 0.0
        w = w / w.sum() * (1.0 + 2.0 ** -27)
    return np.asarray(w, dtype=float)


def same_rng_state(a, b):
    return a[0] == b[0] and (a[1] == b[1]).all() and a[2:] == b[2:]


def choice_model_holds(np, rng):
    """numpy's legacy choice(a, size=n, replace=True, p=w) consumes exactly n doubles of the global stream
    and returns cdf.searchsorted(u, side='right') with cdf = cumsum(w)/cumsum(w)[-1].  Verified
    empirically before it is relied upon (if it does not hold the lookup cannot be validated)."""
    for _ in range(60):
        N = rng.randint(1, 9)
        n = rng.randint(1, 9)
        w = gen_weights(np, rng, N)
        np.random.seed(rng.randint(0, 2 ** 31 - 1))
        snap = np.random.get_state()
        got = np.random.choice(np.arange(N), size=n, replace=True, p=w)
        post = np.random.get_state()
        rs = np.random.RandomState()
        rs.set_state(snap)
        u = rs.random_sample(n)
        cdf = np.cumsum(w)
        cdf /= cdf[-1]
        if not same_rng_state(rs.get_state(), post) or list(got) != list(cdf.searchsorted(u, side="right")):
            return False
    return True


def record_mult(np, StateManager, Resampler, sizes, blobs, n, seed, w):
    """One trace of the real Resampler.run(resample='mult'): -> (case for TLC, report info, raised?)."""
    sm, N = build_state(np, StateManager, sizes, blobs)
    w = np.asarray(w, dtype=float)
    rs = Resampler(state=sm, n_particles=n, resample="mult", clusterer=None, clustering=False, have_blobs=blobs)
    if seed % 2:
        # the SAME Resampler object has already been used at this temperature with other weights (the sampler calls it once per
        # iteration, several times at beta = 1): the observed call must draw afresh from the weights it is handed
        try:
            np.random.seed(seed ^ 0x5A5A)
            rs.run(w[::-1].copy())
        except Exception:
            pass
    np.random.seed(seed)
    snap = np.random.get_state()
    # the lookup can only be validated against the cdf/searchsorted model if the draw really is ONE numpy.random.choice call
    # (another exact construction of n iid draws - counts + shuffle, inverse-cdf on sorted uniforms, ... - may by coincidence
    # consume the same amount of the stream)
    real_choice = np.random.choice
    choice_calls = []

    def spy_choice(*a_, **k_):
        choice_calls.append(1)
        return real_choice(*a_, **k_)

    np.random.choice = spy_choice
    # an implementation that draws its own uniforms (numpy.random.random / random_sample / rand) and looks them up itself gets, in every
    # fourth case, uniforms adjacent to 1: the lookup must still return valid indices (numpy's choice is not affected by this patch)
    adversarial = (seed % 4 == 3)
    try:
        if adversarial:
            with Patched(np, float(np.nextafter(1.0, 0.0))):
                rs.run(w.copy())
        else:
            rs.run(w.copy())
        err = False
    except Exception as ex:
        err, exc = True, repr(ex)
    finally:
        np.random.choice = real_choice
    post = np.random.get_state()
    regen = np.random.RandomState()
    regen.set_state(snap)
    r = regen.random_sample(n)  # the uniforms the draw consumed, regenerated from the snapshot
    consumed_as_modelled = same_rng_state(regen.get_state(), post) and len(choice_calls) == 1
    cdf = np.cumsum(w)
    cdf = cdf / cdf[-1]
    rk = ranks_of(list(r) + list(cdf))
    zero = frozenset(i + 1 for i, v in enumerate(w) if v == 0.0)
    info = dict(kind="mult", sizes=list(sizes), blobs=blobs, n=n, seed=seed, w=[float(v) for v in w],
                w_hex=[float(v).hex() for v in w], uniforms=[float(v) for v in r])
    if err:
        case = dict(n=n, nw=N, zero=zero, r=tuple(rk[v] for v in r), cdf=tuple(rk[v] for v in cdf), lookup=False,
                    out=(), err=True, rows=())
        info["got"] = exc
    else:
        rows = decode_rows(np, sm.get_current(), blobs)
        got = rows.pop("u0")
        case = dict(n=n, nw=N, zero=zero, r=tuple(rk[v] for v in r), cdf=tuple(rk[v] for v in cdf),
                    lookup=bool(consumed_as_modelled), out=got, err=False, rows=tuple(rows.values()))
        info["got"] = list(got)
    return case, info, err


def mult_frequency_monitor(ck, np, StateManager, Resampler, quick):
    reps = 3000 if quick else 20000
    worst = 0.0
    cases = 0
    rng = np.random.RandomState(60606)
    for N, n in ((3, 4), (5, 8), (8, 3), (4, 8), (6, 5)):
        w = rng.dirichlet(np.ones(N))
        if N == 5:
            w[1] = 0.0
            w /= w.sum()
        if N in (4, 6):
            w = np.ones(N) / N     # exactly uniform weights (a flat likelihood): the branch an equal-weights shortcut would take
        sm, NN = build_state(np, StateManager, [N], False)
        counts = np.zeros(N)
        for r in range(reps):
            rs = Resampler(state=sm, n_particles=n, resample="mult", clusterer=None, clustering=False, have_blobs=False)
            sm2, _ = build_state(np, StateManager, [N], False)
            rs.state = sm2
            np.random.seed(1000003 * (cases + 1) + r)
            rs.run(w.copy())
            got = decode_rows(np, sm2.get_current(), False)["u0"]
            counts += np.bincount(np.array(got) - 1, minlength=N)
        mean = counts / reps
        se = np.sqrt(n * w * (1 - w) / reps)
        with np.errstate(all="ignore"):
            z = np.where(se > 0, np.abs(mean - n * w) / se, np.where(mean == n * w, 0.0, np.inf))
        worst = max(worst, float(np.max(z)))
        cases += 1
        if np.max(z) > 6.5:
            j = int(np.argmax(z))
            ck.violation("mult:frequency", f"Resampler.run(resample='mult'): over {reps} seeded draws of n={n} from w={w.tolist()} index {j} was copied "
                         f"{mean[j]:.4f} times on average, n*w = {n * w[j]:.4f} ({z[j]:.1f} standard errors)", {"kind": "mult-frequency", "N": N, "n": n, "w": w.tolist()})
    return {"weight_vectors": cases, "seeded_draws_each": reps, "worst_standard_errors": round(worst, 2)}


# --------------------------------------------------------------------------- main
def spec_comb(n, a, Q, k):
    """Transliteration of Resample.tla's intended comb on its integer inputs (offset k/(2Q), cells [A_{j-1}, A_j) / sum(a)):
    tooth i selects the first j with (k + 2 Q i) * sum(a) < 2 n Q A_j ... in units where the weights are a_j / Q.  Validated in
    every run against the index vector TLC computed for every replayed small state (see `transliteration_checked`); used to judge
    inputs that are too long for TLC to enumerate (histories longer than 2^16 entries)."""
    out, j, A = [], 0, a[0]
    last = max(i for i, v in enumerate(a) if v > 0)
    for i in range(n):
        t = k + 2 * Q * i            # tooth position * 2 Q n
        while j < last and t >= 2 * n * A:
            j += 1
            A += a[j]
        out.append(j + 1)
    return tuple(out)


def large_part(ck, np, tools, rng, quick):
    """Long weight vectors (N > 2^16, exact dyadic weights: judged by the validated transliteration) and weight vectors whose sum
    is OUTSIDE the no-renormalisation band (|sum - 1| > sqrt(eps)): there the routine renormalises, so the floor/ceil law is
    decided against w / sum(w) for large n (n |sum - 1| > 1: a routine that widens its band mis-counts the last positive index)."""
    done = {"long_vectors": 0, "renormalised_vectors": 0}
    Q = 2 ** 17
    for N, twos in ((70001, Q - 70001), (65537, Q - 65537)) if quick else ((70001, Q - 70001), (65537, Q - 65537), (100003, Q - 100003), (131072, 0)):
        a = [2] * twos + [1] * (N - twos)
        assert sum(a) == Q
        perm = rng.permutation(N)
        a = [a[i] for i in perm]
        if N % 2:
            a[0], a[-1] = 0, a[0] + a[-1]   # a zero first weight and a heavier last one
        w = [ai / Q for ai in a]
        for n in (3, 64, 257):
            for k in (0, 1, Q, 2 * Q - 1):
                out, err, _ = call_systematic(np, tools, n, w, k / (2 * Q))
                want = spec_comb(n, a, Q, k)
                done["long_vectors"] += 1
                if err or out != want:
                    bad = "raised " + str(out) if err else f"first difference at tooth {next(i for i, (x, y) in enumerate(zip(out, want)) if x != y)}"
                    cnt = None if err else np.bincount(np.array(out) - 1, minlength=N)
                    law = None if err else bool(np.all(np.abs(cnt - n * np.array(w)) < 1))
                    ck.violation("large:comb", f"systematic_resample on a weight vector of length {N} (exact dyadic weights, n={n}, u0={k}/{2 * Q}): {bad}; "
                                 f"floor/ceil law holds: {law}", {"kind": "large", "N": N, "n": n, "k": k, "Q": Q, "seed": ck.seed})
                    break
    below1 = float(np.nextafter(1.0, 0.0))
    for N in (8, 64):
        for delta in (1e-7, -1e-7, 1e-6, -1e-6, 5e-6, -5e-6, 1e-5, -1e-5, 1e-4, -1e-4, 1e-2, 2.0):
            base = rng.dirichlet(np.ones(N) * 0.7)
            if N == 8:
                base[rng.randint(N)] = 0.0
                base /= base.sum()
            w = base * (1.0 + delta)
            s = float(np.sum(w))
            if abs(s - 1.0) <= 2 * 1.4901161193847656e-08:
                continue
            p = w / s
            for n in (2 ** 18, 300007):
                for u0 in (0.0, 0.37, below1):
                    out, err, _ = call_systematic(np, tools, n, list(w), u0)
                    done["renormalised_vectors"] += 1
                    if err:
                        ck.violation("renorm:raised", f"systematic_resample raised {out} on weights with sum {s!r} (n={n})", {"kind": "renorm", "N": N, "delta": delta, "n": n, "u0": u0, "seed": ck.seed})
                        break
                    idx = np.array(out) - 1
                    cnt = np.bincount(idx, minlength=N)
                    e = n * p
                    near = np.abs(e - np.round(e)) < 1e-6
                    okc = (cnt >= np.floor(e) - near) & (cnt <= np.ceil(e) + near)
                    if len(idx) != n or np.any(np.diff(idx) < 0) or np.any(cnt[w == 0.0] > 0) or not np.all(okc):
                        j = int(np.argmin(okc)) if not np.all(okc) else -1
                        ck.violation("renorm:law", f"weights with sum {s!r} (|sum-1| > sqrt(eps): the routine renormalises), n={n}, u0={u0!r}: "
                                     f"index {j} copied {int(cnt[j]) if j >= 0 else '?'} times, n*w/sum(w) = {float(e[j]) if j >= 0 else '?'}; "
                                     f"length {len(idx)}, sorted {not np.any(np.diff(idx) < 0)}",
                                     {"kind": "renorm", "N": N, "delta": delta, "n": n, "u0": u0, "seed": ck.seed, "w_hex": [float(x).hex() for x in w]})
                        break
    return done


def main():
    ck = core.Check("C06", "model_checking", description=__doc__)
    core.import_repo()
    import numpy as np
    from tempest import tools
    from tempest.core import SamplerCore
    from tempest.state_manager import StateManager
    from tempest.steps.resample import Resampler

    quick = ck.tier == "quick"
    if quick:
        consts = dict(ns="{1, 2, 3, 4}", ds="{3, 4, 5, 6}", maxlen=3, tolns="{1, 2, 3, 4}", tolds="{4}", tolmaxlen=3,
                      multns="{1, 2}", multds="{3, 4}", multmaxlen=3,
                      degds="{131072, 1048576, 16777216}", degns="{1, 2, 3, 4, 5, 6}", degbigds="{1048576}", degbigns="{64}")
    else:
        consts = dict(ns="{1, 2, 3, 4, 5, 6}", ds="{2, 3, 4, 5, 6, 7, 8}", maxlen=4, tolns="{1, 2, 3, 4, 5, 6}",
                      tolds="{2, 4, 8}", tolmaxlen=3, multns="{1, 2, 3}", multds="{3, 4, 5}", multmaxlen=3,
                      degds="{131072, 1048576, 16777216}", degns="{1, 2, 3, 4, 5, 6}", degbigds="{131072, 1048576}",
                      degbigns="{17, 64}")
    small = dict(ns="{1, 2}", ds="{2, 3}", maxlen=2, tolns="{1, 2}", tolds="{2}", tolmaxlen=2,
                 multns="{1}", multds="{2}", multmaxlen=2, degds="{}", degns="{1}", degbigds="{}", degbigns="{1}")

    rng = np.random.RandomState(ck.seed + 606)

    # ---- replay of a recorded violation
    if ck.args.replay:
        with open(ck.args.replay) as f:
            rp = json.load(f)["replay"]
        if rp.get("kind") in ("large", "renorm"):
            before = ck.violations
            large_part(ck, np, tools, np.random.RandomState(rp["seed"] + 6060), quick)
            sys.exit(1 if ck.violations > before else 0)
        w = [float.fromhex(h) for h in rp["w_hex"]]
        if rp.get("kind") == "mult":
            case, info, err = record_mult(np, StateManager, Resampler, rp["sizes"], rp["blobs"], rp["n"], rp["seed"], w)
            print(f"Resampler.run(resample='mult') n={rp['n']} seed={rp['seed']} w={w} -> {info['got']}")
            obs = obs_module([], [], [case])
        else:
            out, err, _ = call_systematic(np, tools, rp["n"], w, float.fromhex(rp["u0_hex"]))
            print(f"systematic_resample(n={rp['n']}, w={w}, u0={float.fromhex(rp['u0_hex'])!r}) -> "
                  f"{'raised ' + out if err else [i - 1 for i in out]}")
            if "Q" in rp:  # an input of Resample.tla: all clauses
                obs = obs_module([dict(n=rp["n"], a=tuple(rp["a"]), Q=rp["Q"], k=rp["k"], out=() if err else out, err=err)], [], [])
            else:  # input that exists only as doubles: shape clauses
                zero = frozenset(i + 1 for i, v in enumerate(w) if v == 0.0)
                obs = obs_module([], [dict(n=rp["n"], nw=len(w), zero=zero, out=() if err else out, err=err, rows=())], [])
        res = tlc.run_tlc("ResampleTrace", TRACE_CFG, dump=True, extra_modules={"ResampleObs.tla": obs})
        fails = [st["fails"] for st in iter_done_states(res.dump_path)]
        res.cleanup()
        print("clauses failed:", sorted(fails[0]) if fails else "?")
        sys.exit(1 if fails and fails[0] else (0 if fails else 2))

    # ---- 1. the specification: intended variant, exhaustive
    res = tlc.run_tlc("Resample", cfg(consts, "intended", INVARIANTS), dump=True, coverage=True)
    if res.status != "ok":
        ck.violation("spec:" + res.violated, f"TLC: {res.violated} violated on Resample.tla (intended variant)",
                     {"trace": res.error_trace})
        res.cleanup()
        ck.finish({"states": max(res.distinct, 1), "transitions": max(res.generated, 1), "traces_validated_against_impl": 0})
    for act in ("Begin", "Advance", "Emit", "Finish", "MultDraw", "MultFinish"):
        if res.coverage.get(act, (0, 0))[1] == 0:
            raise RuntimeError(f"vacuous model: action {act} never taken")

    # ---- 2. the code-shaped variant must violate the property at the specification level
    def impl_run(inv):
        r = tlc.run_tlc("Resample", cfg(small, "impl", [inv]), workers=4)
        out = (r.status, r.violated, r.error_trace)
        r.cleanup()
        return out

    with ThreadPoolExecutor(max_workers=len(IMPL_EXPECTED)) as ex:
        impl_future = {inv: ex.submit(impl_run, inv) for inv in IMPL_EXPECTED}

        # ---- 3. binding B: replay every enumerated systematic case
        if not choice_model_holds(np, rng):
            raise RuntimeError("numpy.random.choice does not follow the cdf/searchsorted model on this numpy")
        spec_mult = 0
        replayed = 0
        transliteration_checked = 0
        skipped_breakpoints_nondyadic = 0
        matched_intended = 0
        follows_impl_where_differs = 0
        differs_intended_vs_impl = 0
        nontrivial = set()
        to_judge = []  # (case record for TLC, info for the report)
        matched_pool = []
        script_unused = 0
        dyadic_sys = []
        groups = {}  # (fam, n, a, Q) -> {k: outcome of the code (None if it raised)}
        group_w = {}
        degen_replayed = 0
        sampled = set()
        for st in iter_done_states(res.dump_path):
            if st["fam"] == "mult":
                spec_mult += 1
                continue
            w, u0, exact = concretise(st)
            n, a, Q, k = st["n"], st["a"], st["Q"], st["k"]
            if st["fam"] == "exact" and not exact and k % 2 == 0:
                skipped_breakpoints_nondyadic += 1  # non-dyadic weights: possible ties are not replayed
                continue
            if st["fam"] == "tol" or exact:
                if st["fam"] == "tol":
                    if not order_preserved(st, w, u0):
                        raise RuntimeError(f"concretisation not order preserving for {st}")
                else:
                    assert all(Fraction(x) == Fraction(ai, Q) for x, ai in zip(w, a)) and Fraction(u0) == Fraction(k, 2 * Q)
            out, err, script = call_systematic(np, tools, n, w, u0)
            replayed += 1
            degen_replayed += st["fam"] == "degen"
            if st["fam"] != "exact" or exact:  # every offset of the family's cover is replayed for these
                gk = (st["fam"], n, tuple(a), Q)
                groups.setdefault(gk, {})[k] = None if err else out
                if gk not in group_w or (not err and out != tuple(st["idx"]) and "witness" not in group_w[gk]):
                    group_w.setdefault(gk, {"w": w})
                    if not err and out != tuple(st["idx"]):
                        group_w[gk]["witness"] = dict(k=k, u0=u0, got=list(out), want=list(st["idx"]))
            if script.calls == 0:
                script_unused += 1
            want_out, want_err = tuple(st["idx"]), st["err"]
            if st["fam"] in ("exact", "degen") and not want_err:
                if spec_comb(n, list(a), Q, k) != want_out:
                    raise RuntimeError(f"transliteration of the comb disagrees with Resample.tla on {st}")
                transliteration_checked += 1
            alt = st["alt"]
            if any(ai == 0 for ai in a) or any((n * ai) % Q for ai in a) or sum(a) != Q:
                nontrivial.add((n, tuple(a), Q, k))
            if (tuple(alt["out"]), alt["err"]) != (want_out, want_err):
                differs_intended_vs_impl += 1
                if (not err and tuple(alt["out"]) == out and not alt["err"]) or (err and alt["err"]):
                    follows_impl_where_differs += 1
            case = dict(n=n, a=tuple(a), Q=Q, k=k, out=() if err else out, err=err)
            info = dict(fam=st["fam"], n=n, a=list(a), Q=Q, k=k, dc=st["dc"], w=w, u0=u0, got=out, want=list(want_out))
            if not err and out == want_out and not want_err:
                matched_intended += 1
                matched_pool.append((case, info))
                if st["fam"] == "exact" and exact and len(a) >= 2:
                    dyadic_sys.append((st, w, u0))
            else:
                to_judge.append((case, info))
            cat = ("zero-first-weight-offset0" if a[0] == 0 and k == 0 else
                   "sum-below-one-offset-just-below-one" if st["fam"] == "tol" and sum(a) < Q and k == 2 * Q - 2 else
                   "trailing-zero-midpoint" if a[-1] == 0 and k % 2 == 1 and st["fam"] == "exact" else
                   "degenerate-minor-index-selected" if st["fam"] == "degen" and min(a) > 0 and len(set(want_out)) > 1 else None)
            if cat and cat not in sampled and n >= 2 and len(a) >= 3:
                sampled.add(cat)
                ck.sample({"family": st["fam"], "n": n, "weights": w, "u0": u0, "spec_idx0": [i - 1 for i in want_out],
                           "code": out if err else [i - 1 for i in out]})
        if replayed and script_unused == replayed:
            raise BindingLost("systematic_resample never asked the scripted numpy.random for its offset")
        # outcomes equal to the specification's are accepted as they are; a seeded sample of them is judged by
        # TLC all the same (keeps every judging action exercised whatever the code does)
        cap = 1500 if quick else 6000
        pick = rng.permutation(len(matched_pool))[:cap]
        sys_cases = to_judge + [matched_pool[i] for i in pick]

        # ---- whole families of observed outcomes: TLC evaluates the counting identity of exact unbiasedness
        # (sum over cells |cell| * copies_j = n w_j) on what the code returned, over the cover of [0,1)
        cell_cases = []
        cells_skipped_raised = 0
        tol_groups = [g for g in groups if g[0] == "tol"]
        keep_tol = {tol_groups[i] for i in rng.permutation(len(tol_groups))[: (60 if quick else 600)]}
        for gk in sorted(groups):
            fam_, n_, a_, Q_ = gk
            if fam_ == "tol" and gk not in keep_tol:
                continue
            if fam_ == "exact" and len(groups[gk]) != 2 * Q_:
                continue
            if any(v is None for v in groups[gk].values()):
                cells_skipped_raised += 1  # the exceptions are reported case by case
                continue
            ks = sorted(groups[gk])
            cell_cases.append((dict(n=n_, a=a_, Q=Q_, ks=tuple(ks), outs=tuple(groups[gk][kk] for kk in ks)),
                               dict(fam=fam_, n=n_, a=list(a_), Q=Q_, w=group_w[gk]["w"], witness=group_w[gk].get("witness"))))

        # ---- IEEE corner cases, outcomes judged on shape only (inputs exist only as doubles)
        struct_cases = []
        below1 = float(np.nextafter(1.0, 0.0))
        wsets = [[0.1] * 10, [0.25] * 4, [0.5, 0.5], [0.0, 0.5, 0.5], [0.5, 0.5, 0.0], [0.0, 0.0, 1.0], [1.0, 0.0, 0.0],
                 [0.0, 1 / 3, 1 / 3, 1 / 3, 0.0], [1.0]]
        wsets += [list(np.ones(m) / m) for m in (3, 5, 6, 7, 12, 49)]
        wsets += [[0.25, 0.25, 0.25, 0.25 - 2.0 ** -27], [0.25 - 2.0 ** -27, 0.25, 0.25, 0.25], [0.5, 0.5 + 2.0 ** -27]]
        for _ in range(6 if quick else 60):
            wsets.append(list(gen_weights(np, rng, rng.randint(2, 9))))
        for w in wsets:
            zero = frozenset(i + 1 for i, v in enumerate(w) if v == 0.0)
            for n in sorted({1, 2, 3, len(w), 2 * len(w) + 1, 64}):
                for u0 in (0.0, 5e-324, 2.0 ** -53, 0.5, 1 - 2.0 ** -30, below1):
                    out, err, script = call_systematic(np, tools, n, w, u0)
                    struct_cases.append((dict(n=n, nw=len(w), zero=zero, out=() if err else out, err=err, rows=()),
                                         dict(kind="ieee", n=n, w=w, u0=u0, got=out)))

        # ---- long weight vectors and vectors outside the no-renormalisation band
        large_done = large_part(ck, np, tools, np.random.RandomState(ck.seed + 6060), quick)

        posterior_unobserved = 0
        # ---- posterior(resample=True): same routine behind SamplerCore.compute_posterior
        for logl in ([-2000.0, -1.0, -2.0], [-1.0, -2.0, -2000.0], [-1.0, -2000.0, -1.5, -3.0]):
            for blobs in (False, True):
                for u0 in (0.0, 0.5, below1):
                    sm = StateManager(n_dim=2)
                    ids = np.arange(1, len(logl) + 1, dtype=float)
                    d = {"u": np.stack([ids, ids + 0.5], axis=1) / 16.0, "x": np.stack([1000.0 + ids, 2000.0 + ids], axis=1),
                         "logl": np.array(logl), "beta": 0.0, "logz": 0.0, "iter": 0}
                    if blobs:
                        d["blobs"] = 7.0 * ids + 3.0
                    sm.update_current(d)
                    sm.commit_current_to_history()
                    # a real (never run) Sampler whose state container is replaced by the hand-made history: the posterior code
                    # may use any helper method of its own class
                    from tempest import Sampler as _Sampler

                    _smp = _Sampler(prior_transform=lambda u_: u_, log_likelihood=(lambda x_: (0.0, 1.0)) if blobs else (lambda x_: 0.0),
                                    n_dim=2, n_particles=4, blobs_dtype=float if blobs else None)
                    stub = _smp._core
                    stub.state = sm
                    seen = {}
                    real = tools.systematic_resample

                    def spy(size, weights, *a_, **k_):
                        seen["n"], seen["w"] = int(size), [float(v) for v in np.asarray(weights)]
                        return real(size, weights, *a_, **k_)

                    tools.systematic_resample = spy
                    import tempest.core as _core_mod
                    had = getattr(_core_mod, "systematic_resample", None)   # a module-level `from .tools import systematic_resample`
                    if had is not None:
                        _core_mod.systematic_resample = spy
                    try:
                        with Patched(np, u0):
                            try:
                                ret = stub.compute_posterior(resample=True, return_blobs=blobs, trim_importance_weights=False)
                                err = False
                            except Exception as ex:
                                ret, err = repr(ex), True
                    finally:
                        tools.systematic_resample = real
                        if had is not None:
                            _core_mod.systematic_resample = had
                    if "w" not in seen:
                        # posterior(resample=True) does not go through tools.systematic_resample in this organisation of the code: the
                        # weights it resampled with are not observable here (the posterior() contract itself is C12's)
                        posterior_unobserved += 1
                        continue
                    zero = frozenset(i + 1 for i, v in enumerate(seen["w"]) if v == 0.0)
                    if err:
                        case = dict(n=seen["n"], nw=len(seen["w"]), zero=zero, out=(), err=True, rows=())
                    else:
                        xs, wts, ll = ret[0], ret[1], ret[2]
                        # rows: which history row every returned field carries (x both columns, logl, blobs)
                        def rid(vals, table):
                            return tuple(table.get(float(v), 0) for v in np.asarray(vals).ravel())
                        tx0 = {1001.0 + i: i + 1 for i in range(len(logl))}
                        tx1 = {2001.0 + i: i + 1 for i in range(len(logl))}
                        tl = {float(v): i + 1 for i, v in enumerate(logl)}
                        rows = [rid(xs[:, 1], tx1), rid(ll, tl)]
                        if blobs:
                            rows.append(rid(ret[3], {7.0 * (i + 1) + 3.0: i + 1 for i in range(len(logl))}))
                        case = dict(n=seen["n"], nw=len(seen["w"]), zero=zero, out=rid(xs[:, 0], tx0), err=False, rows=tuple(rows))
                        if len(wts) != len(xs) or not np.all(np.asarray(wts) == 1.0 / len(xs)):
                            ck.violation("posterior:weights-not-uniform", "posterior(resample=True) weights are not uniform",
                                         {"logl": logl, "u0": u0})
                    struct_cases.append((case, dict(kind="posterior", logl=logl, blobs=blobs, u0=u0, w=seen["w"], n=seen["n"],
                                                    got=ret if err else list(case["out"]))))

        # ---- Resampler.run(resample='syst'): the index vector of the comb applied to every field
        sizes_pool = ([2], [3], [4], [2, 2], [1, 3], [3, 2], [2, 1, 2], [4, 4], [1, 1, 1], [5, 3])
        nsyst = 0
        for pick_i in rng.permutation(len(dyadic_sys))[: (150 if quick else 1500)]:
            st, w, u0 = dyadic_sys[pick_i]
            N = len(w)
            cand = [s for s in sizes_pool if sum(s) == N]
            sizes = cand[rng.randint(0, len(cand))] if cand else [N]
            blobs = bool(rng.randint(0, 2))
            sm, _ = build_state(np, StateManager, sizes, blobs)
            rs = Resampler(state=sm, n_particles=st["n"], resample="syst", clusterer=None, clustering=False, have_blobs=blobs)
            with Patched(np, u0):
                try:
                    rs.run(np.array(w))
                    err = False
                except Exception as ex:
                    err, exc = True, repr(ex)
            zero = frozenset(i + 1 for i, v in enumerate(w) if v == 0.0)
            if err:
                case = dict(n=st["n"], nw=N, zero=zero, out=(), err=True, rows=())
                got = exc
            else:
                rows = decode_rows(np, sm.get_current(), blobs)
                got = rows.pop("u0")
                case = dict(n=st["n"], nw=N, zero=zero, out=got, err=False, rows=tuple(rows.values()))
                if got != tuple(st["idx"]):  # differs from the comb: let TLC say which clause (if any) fails
                    sys_cases.append((dict(n=st["n"], a=tuple(st["a"]), Q=st["Q"], k=st["k"], out=got, err=False),
                                      dict(fam="exact", via="Resampler.run", n=st["n"], a=list(st["a"]), Q=st["Q"], k=st["k"],
                                           dc=st["dc"], w=w, u0=u0, got=got, want=list(st["idx"]))))
            struct_cases.append((case, dict(kind="resampler-syst", n=st["n"], w=w, u0=u0, sizes=sizes, blobs=blobs, got=got)))
            nsyst += 1

        # ---- 4. binding A: Resampler.run(resample='mult') traces
        mult_cases = []
        lookup_unverifiable = 0
        nmult = 400 if quick else 6000
        mult_nontrivial = 0
        for ci in range(nmult):
            sizes = list(sizes_pool[rng.randint(0, len(sizes_pool))])
            blobs = bool(rng.randint(0, 2))
            w = gen_weights(np, rng, sum(sizes))
            n = 70001 if (ci % 97 == 5 and ci < int(os.environ.get("C06_LARGE_BELOW", "400"))) else int(rng.randint(1, 9))   # four times (either tier) more draws than 2^16, not a multiple of it; more of them would not fit the judging module
            seed = int(rng.randint(0, 2 ** 31 - 1))
            case, info, err = record_mult(np, StateManager, Resampler, sizes, blobs, n, seed, w)
            zero, got = case["zero"], case["out"]
            if not err and not case["lookup"]:
                lookup_unverifiable += 1
            if len(zero) >= 1 or sum(1 for v in w if v > 0) >= 2:
                mult_nontrivial += 1
            mult_cases.append((case, info))
            if ci == 0 and not err:
                ck.sample({"multinomial": {"weights": info["w"], "uniforms": info["uniforms"], "idx0": [i - 1 for i in got]}})

        impl_results = {inv: f.result() for inv, f in impl_future.items()}

    res.cleanup()
    impl_counterexamples = {}
    for inv, (status, violated, trace) in impl_results.items():
        if status != "violation" or violated != inv:
            raise RuntimeError(f"the impl variant of Resample.tla does not violate {inv} ({status} {violated})")
        last = trace[-1][1] if trace else {}
        impl_counterexamples[inv] = {k_: last.get(k_) for k_ in ("fam", "n", "a", "Q", "k", "idx", "err")}

    # ---- 5. TLC judges every observed outcome that is not literally the specification's
    # (thorough tier: the few multinomial cases with more than 2^16 draws are judged in a TLC run of their own - together with the
    # 6000 small cases the judging module does not fit TLC's heap; the quick tier judges everything in one run)
    big = [] if quick else [k_ for k_, (c, _) in enumerate(mult_cases) if c["n"] > 1000]
    main_idx = [k_ for k_ in range(len(mult_cases)) if k_ not in set(big)]
    obs = obs_module([c for c, _ in sys_cases], [c for c, _ in struct_cases], [mult_cases[k_][0] for k_ in main_idx],
                     [c for c, _ in cell_cases])
    jres = tlc.run_tlc("ResampleTrace", TRACE_CFG, dump=True, coverage=True, extra_modules={"ResampleObs.tla": obs})
    if jres.status != "ok":
        raise RuntimeError(f"ResampleTrace: {jres.violated} violated (inconsistent trace module)\n{jres.error_trace}")
    verdicts = {}
    for st in iter_done_states(jres.dump_path):
        verdicts[(st["kind"], (main_idx[st["c"] - 1] + 1) if st["kind"] == "mult" else st["c"])] = st["fails"]
    jres.cleanup()
    if big:
        bres = tlc.run_tlc("ResampleTrace", TRACE_CFG, dump=True, coverage=True, extra_modules={"ResampleObs.tla": obs_module([], [], [mult_cases[k_][0] for k_ in big], [])})
        if bres.status != "ok":
            raise RuntimeError(f"ResampleTrace (large draws): {bres.violated} violated (inconsistent trace module)\n{bres.error_trace}")
        for st in iter_done_states(bres.dump_path):
            if st["kind"] == "mult":
                verdicts[("mult", big[st["c"] - 1] + 1)] = st["fails"]
        bres.cleanup()
    expect = len(sys_cases) + len(struct_cases) + len(mult_cases) + len(cell_cases)
    if len(verdicts) != expect:
        raise RuntimeError(f"verdicts are not total: {len(verdicts)} of {expect}")
    for act, lst in (("JudgeSys", sys_cases), ("JudgeStruct", struct_cases), ("JudgeCells", cell_cases), ("MultDraw", mult_cases), ("MultApply", mult_cases)):
        if lst and jres.coverage.get(act, (0, 0))[1] == 0:
            raise RuntimeError(f"vacuous judging: action {act} never taken")

    accepted_other_convention = 0
    for ci, (case, info) in enumerate(sys_cases, start=1):
        fails = verdicts[("sys", ci)]
        if not fails:
            if tuple(info["want"]) != tuple(case["out"]):
                accepted_other_convention += 1
            continue
        if info["fam"] == "degen":
            where = "degenerate-weights"
        elif info["k"] == 0:
            where = "offset0"
        elif info["fam"] == "tol":
            where = "tol-sum-below-one" if sum(info["a"]) < info["Q"] else "tol-sum-above-one"
        else:
            where = "exact-lattice-offset" if info["k"] % 2 == 0 else "exact-cell-midpoint"
        key = f"syst:{where}:" + "+".join(sorted(fails))
        what = (f"systematic_resample(n={info['n']}, w={info['w']}, u0={info['u0']!r}) -> "
                f"{info['got'] if case['err'] else [i - 1 for i in case['out']]}; specification: "
                f"{[i - 1 for i in info['want']]}; fails {sorted(fails)}")
        ck.violation(key, what, dict(info, w_hex=[float(x).hex() for x in info["w"]], u0_hex=float(info["u0"]).hex(),
                                     fails=sorted(fails)))
    for ci, (case, info) in enumerate(cell_cases, start=1):
        fails = verdicts[("cell", ci)]
        if "coverage" in fails:
            raise RuntimeError(f"offset cover incomplete for {info}")
        if not fails:
            continue
        wit = info["witness"] or {}
        key = f"syst:{'degenerate-weights' if info['fam'] == 'degen' else info['fam']}:unbiased"
        what = (f"systematic_resample(n={info['n']}, w={info['w']}): counting identity sum_cells |cell|*copies_j = n*w_j fails "
                f"over the {len(case['ks'])} cells of [0,1) (weights {info['a']}/{info['Q']}); e.g. u0={wit.get('u0')!r} -> "
                f"{[i - 1 for i in wit.get('got', [])]}, specification {[i - 1 for i in wit.get('want', [])]}")
        rp = dict(info, k=wit.get("k", 0), w_hex=[float(x).hex() for x in info["w"]],
                  u0_hex=float(wit.get("u0", 0.0)).hex(), fails=sorted(fails))
        ck.violation(key, what, rp)
    for ci, (case, info) in enumerate(struct_cases, start=1):
        fails = verdicts[("struct", ci)]
        if not fails:
            continue
        key = f"{info['kind']}:" + "+".join(sorted(fails))
        what = (f"{info['kind']}: n={info['n']} w={info['w']} u0={info['u0']!r} -> "
                f"{info['got'] if case['err'] else [i - 1 for i in case['out']]} fails {sorted(fails)}")
        ck.violation(key, what, dict(info, w_hex=[float(x).hex() for x in info["w"]], u0_hex=float(info["u0"]).hex(),
                                     fails=sorted(fails)))
    for ci, (case, info) in enumerate(mult_cases, start=1):
        fails = verdicts[("mult", ci)]
        if not fails:
            continue
        key = "mult:" + "+".join(sorted(fails))
        ck.violation(key, f"Resampler.run(resample='mult') n={info['n']} w={info['w']} seed={info['seed']} -> "
                          f"{info['got']} fails {sorted(fails)}", dict(info, fails=sorted(fails)))
    mult_fallback = None
    if lookup_unverifiable and not ck.violations:
        # The multinomial step is not one numpy.random.choice(p=weights) call: the cdf/searchsorted model does not describe this
        # implementation, so the specification's lookup clause cannot be bound to it (the structural clauses above still are).
        # Fallback OUTSIDE the model (labelled as such in the evidence): a seeded frequency monitor of "expected copies = n w_i";
        # only a gross bias (> 6.5 standard errors on a fixed set of seeds, deterministic for a given implementation) is reported.
        mult_fallback = mult_frequency_monitor(ck, np, StateManager, Resampler, quick)
        mult_fallback["draws_without_verifiable_lookup"] = lookup_unverifiable

    ck.assumptions += [
        "numpy float64 arithmetic is IEEE-754; breakpoints are replayed only with dyadic weights/offsets (exact)",
        "tolerance family: fine unit 1/2048 of the specification mapped to 2^-30 (eps = 2^-27 < sqrt(machine eps)); "
        "order preservation of every comparison re-verified per case with exact rationals",
        "numpy.random.choice = searchsorted(cumsum(p)/sum, u, side='right') on n global uniforms (verified empirically at start-up); "
        "the distribution of the Mersenne-Twister uniforms is trusted",
        "IEEE corner cases (offsets 0, 5e-324, 2^-53, 1-2^-53; non-dyadic weights) are judged on the shape clauses only",
    ]
    ck.finish({
        "states": res.distinct + jres.distinct,
        "transitions": res.generated + jres.generated,
        "traces_validated_against_impl": replayed + len(struct_cases) + len(mult_cases) + len(cell_cases),
        "evaluations": replayed + len(struct_cases) + len(mult_cases) + nsyst,
        "distinct_nontrivial": len(nontrivial) + mult_nontrivial,
        "rule": "systematic: distinct replayed (n, w, u0) with a zero weight, some n*w_j non-integer (floor != ceil) or sum(w) != 1; "
                "multinomial: traces with a zero weight or at least two positive weights",
        "exhaustive": True,
        "systematic_replayed": replayed,
        "degenerate_family_replayed": degen_replayed,
        "families_counting_identity_on_observed_outcomes": len(cell_cases),
        "families_skipped_because_an_offset_raised": cells_skipped_raised,
        "systematic_equal_to_spec": matched_intended,
        "systematic_judged_by_tlc": len(sys_cases),
        "systematic_accepted_other_closure_convention": accepted_other_convention,
        "spec_states_where_intended_and_impl_differ": differs_intended_vs_impl,
        "code_follows_impl_variant_there": follows_impl_where_differs,
        "skipped_nondyadic_breakpoints": skipped_breakpoints_nondyadic,
        "ieee_posterior_resampler_cases": len(struct_cases),
        "posterior_resample_calls_not_observable": posterior_unobserved,
        "monitor:multinomial_frequency_fallback(outside the model; only when the lookup cannot be bound)": mult_fallback,
        "long_weight_vectors_judged_by_validated_transliteration": large_done["long_vectors"],
        "transliteration_validated_against_TLC_states": transliteration_checked,
        "vectors_outside_the_no_renormalisation_band": large_done["renormalised_vectors"],
        "multinomial_traces": len(mult_cases),
        "multinomial_spec_states": spec_mult,
        "impl_variant_counterexamples": impl_counterexamples,
        "tlc_coverage": {k_: list(v) for k_, v in res.coverage.items()},
        "tlc_trace_coverage": {k_: list(v) for k_, v in jres.coverage.items()},
        "tlc_wall_s": [round(res.wall_s, 1), round(jres.wall_s, 1)],
        "constants": consts,
    })


def obs_module(sys_cases, struct_cases, mult_cases, cell_cases=()):
    def seq(cases):
        return "<<\n  " + ",\n  ".join(tla.to_tla(c) for c in cases) + "\n>>" if cases else "<<>>"

    return ("---- MODULE ResampleObs ----\n\\* generated by checks/c06.py\n"
            f"SysCases == {seq(sys_cases)}\nStructCases == {seq(struct_cases)}\nMultCases == {seq(mult_cases)}\n"
            f"CellCases == {seq(list(cell_cases))}\n====\n")


core.main_guard(main)
