#!/venv/bin/python
"""C11 - zero-likelihood prior regions are excluded and counted exactly once.

PriorPhase.tla (exact rationals): the recorded warm-up evidence Z_t must lie in the convex hull of the
per-batch supported fractions and equal 1 while no -inf was seen (`Once`, `OneWhileNoInf`); TLC checks the
admissible designs ("fixed", "pooled") and refutes the pinned tree's defect ("addcorr").  Binding B:
every enumerated sequence (a_1..a_T) is replayed through the real pipeline at beta = 0 with a likelihood
whose -inf pattern is scripted per call, and the recorded logz per iteration is compared with the spec's
rational hull.  PSRun.tla: MP_NoInf, CM_NoInf, MP_LogzHull on recorded runs of half-space targets (binding A).
"""
import math
import os
import sys
from fractions import Fraction

sys.path.insert(0, os.path.dirname(os.path.dirname(os.path.abspath(__file__))))
from vlib import core, sysrun, tlc  # noqa: E402

PP_CFG = 'INIT Init\nNEXT Next\nCONSTANTS\n N = {N}\n T = {T}\n Variant = "{v}"\nINVARIANT Once\nINVARIANT OneWhileNoInf\nCHECK_DEADLOCK FALSE\n'


class _Stop(BaseException):
    pass


def replay(seq, N, mode="ess", values=0, want_u=False):
    """Drive the real sampler through len(seq) warm-up iterations with a scripted -inf pattern."""
    import numpy as np
    from tempest import Sampler

    T = len(seq)
    st = {"n": 0}

    def ll(x):
        i = st["n"]
        st["n"] += 1
        t, j = divmod(i, N)
        if t >= T:
            raise _Stop()
        return -np.inf if j >= seq[t] else (-0.25 * (i + 1) if values == 0 else -6.0 + 0.53 * ((7 * i) % 11))

    kw = {}
    if mode == "vv":
        kw["volume_variation"] = 0.3
    if mode == "vector":
        def llv(X):
            return np.array([ll(x) for x in X])
        kw["vectorize"] = True
    s = Sampler(prior_transform=lambda u: u, log_likelihood=(llv if mode == "vector" else ll), n_dim=1, n_particles=N, ess_ratio=float(T + 5), clustering=False, random_state=11, **kw)
    try:
        s.run(n_total=8, progress=False)
    except _Stop:
        pass
    except Exception as ex:  # the run crashed: report what was committed so far
        st["raised"] = repr(ex)
    logz = [float(z) for z in s.state._history["logz"]]
    logl = [np.asarray(b, dtype=float) for b in s.state._history["logl"]]
    if want_u:
        return logz[:T], logl[:T], [np.asarray(b, dtype=float).copy() for b in s.state._history["u"]][:T]
    return logz[:T], logl[:T]


def main():
    ck = core.Check("C11", "model_checking")
    if ck.args.replay:
        from vlib import sysrun as _sr

        _sr.replay(ck, "C11", ck.args.replay)
    core.import_repo()
    import warnings

    warnings.filterwarnings("ignore")
    N, T = (4, 3) if ck.tier == "quick" else (4, 5)
    states = trans = 0
    res = tlc.run_tlc("PriorPhase", PP_CFG.format(N=N, T=T, v="fixed"), dump=True, coverage=True)
    if res.status != "ok":
        ck.violation("spec:PriorPhase:" + res.violated, "intended warm-up bookkeeping violates " + res.violated, {"trace": res.error_trace})
    states += res.distinct
    trans += res.generated
    seqs = [st["as"] for st in res.states() if len(st["as"]) == T]
    res.cleanup()
    for v, want in (("pooled", "ok"), ("addcorr", "violation")):
        r = tlc.run_tlc("PriorPhase", PP_CFG.format(N=N, T=T, v=v))
        states += r.distinct
        trans += r.generated
        if r.status != want:
            raise tlc.TLCFailure(f"PriorPhase variant {v}: expected {want}, got {r.status}")
        r.cleanup()
    # ---- binding B: replay every enumerated sequence
    replayed = 0
    nontriv = 0
    donors_checked = 0
    modes = ["ess", "vv", "vector"]
    for si, seq in enumerate(seqs):
      for mode in (modes if ck.tier == "thorough" else [modes[si % 3], "ess"][: 2 if si % 3 else 1]):
        logz, logl = replay(seq, N, mode)
        replayed += 1
        if len(logz) != T:
            ck.violation("replay:short", f"only {len(logz)} of {T} warm-up batches committed for a={seq}", {"a": list(seq)})
            continue
        if any(a < N for a in seq):
            nontriv += 1
        for t in range(T):
            if not all(math.isfinite(v) for v in logl[t]):
                ck.violation("replay:inf-stored", f"-inf log-likelihood stored in batch {t+1} for a={seq}", {"a": list(seq), "batch": t + 1})
            fr = [Fraction(a, N) for a in seq[: t + 1]]
            lo, hi = math.log(min(fr)), math.log(max(fr))
            if not (lo - 1e-12 <= logz[t] <= hi + 1e-12):
                ck.violation("replay:logz-outside-hull",
                             f"recorded logz[{t+1}]={logz[t]!r} outside [{lo!r},{hi!r}] for finite counts a={list(seq)} of N={N}",
                             {"a": list(seq), "N": N, "logz": logz})
                break
        ck.sample({"a": list(seq), "N": N, "recorded_logz": logz}, limit=3)
        # the replacement of zero-likelihood draws is a function of WHICH draws are dead, not of the likelihood VALUES of the
        # survivors (the stored batch stays a sample of the prior restricted to the support): same seed, same dead pattern, other
        # finite values -> the same stored positions
        if mode == "ess" and any(0 < a < N for a in seq):
            import numpy as _np

            _, _, ua = replay(seq, N, mode, values=0, want_u=True)
            _, _, ub = replay(seq, N, mode, values=1, want_u=True)
            donors_checked += 1
            if len(ua) != len(ub) or any(x.shape != y.shape or not _np.array_equal(x, y) for x, y in zip(ua, ub)):
                ck.violation("replay:refill-depends-on-likelihood-values",
                             f"stored prior batches differ between two runs with the same seed and the same zero-likelihood pattern a={list(seq)} "
                             f"but other finite likelihood values: the replacement of dead draws depends on the survivors' likelihood",
                             {"a": list(seq), "N": N, "u_a": [x.ravel().tolist() for x in ua], "u_b": [x.ravel().tolist() for x in ub]})
    # ---- known-finding probe: a prior batch in which every draw has zero likelihood
    logz, logl = replay((0, N), N)
    if logl and not all(math.isfinite(v) for v in logl[0]):
        ck.violation("all-inf-prior-batch", "a prior batch with no finite-likelihood draw is committed with -inf records", {"a": [0, N], "logz": logz})
    # ---- PSRun model + recorded runs
    cov = sysrun.model_part(ck, "C11", variants=["keepinf"], tier=ck.tier)
    factors = {"support": [1.0, 0.5, 0.375], "ess_ratio": [1.0, 2.0, 3.0, 4.0, 6.0], "n_particles": [16, 32], "evaluation": ["scalar", "vector", "blobs", "vector_reuse"],
               "metric": [{}, {}, {"volume_variation": 0.5}, {"volume_variation": 0.05}]}
    jobs = sysrun.product_jobs(factors, {"clustering": False}, ck.seed + 11, limit=36 if ck.tier == "quick" else None, n_total=32)
    for j in jobs:
        if j["conf"]["support"] == 1.0:
            j["conf"]["support"] = None

    def nontrivial(t):
        k = sum(1 for e in t["events"] if e["ev"] == "MutatePrior" and e["nInf"] > 0)
        return (t["meta"]["label"], t["meta"]["seed"]) if k >= 2 else None

    # plateau likelihoods (all supported points tie) and resumes from checkpoints written during the prior phase
    jobs += sysrun.product_jobs({"ess_ratio": [2.0, 4.0], "evaluation": ["scalar", "vector"]}, {"clustering": False, "target": "tophat", "n_particles": 16},
                                ck.seed + 111, n_total=24)
    sc, traces = sysrun.system_part(ck, "C11", jobs, nontrivial)
    from vlib import procs, psrun

    rj = [dict(conf=dict(clustering=False, support=0.5, ess_ratio=6.0, n_particles=16, **extra), seed=115 + i + 100 * ck.seed, label=f"c11resume#{i}",
               n_total=24, save_every=1, max_ckpt=None, vary_n_total=False) for i, extra in enumerate([{}, {"volume_variation": 0.5}])]
    rres = procs.run(sysrun.resume_job, rj, procs=len(rj), timeout=600)
    rtr = []
    for st_, r_ in rres:
        if st_ != "ok":
            raise RuntimeError("resume worker failed: " + str(r_)[:300])
        rtr += [t for t in r_ if sysrun.all_inf_batch(t) is None]
    rfails, _ = psrun.validate(rtr)
    sysrun.attribute(ck, "C11", rtr, rfails)
    cov["resumed_prior_phase_runs"] = sum(1 for t in rtr if t["meta"].get("resumed") and any(e["ev"] == "MutatePrior" for e in t["events"]))
    cov.update(sc)
    cov["states"] += states
    cov["transitions"] += trans
    cov.update({
        "priorphase_sequences_replayed": replayed,
        "refill_independent_of_likelihood_values_pairs": donors_checked,
        "traces_validated_against_impl": replayed + sc["system_runs"],
        "evaluations": replayed + sc["system_events_validated"],
        "distinct_nontrivial": nontriv + sc["system_nontrivial"],
        "rule": "PriorPhase.tla enumerates every sequence of finite counts (a_1..a_T), 1<=a_t<=N; non-trivial = some batch has a zero-likelihood draw (replays) / at least two warm-up batches with zero-likelihood draws (recorded runs)",
        "exhaustive": True,
        "priorphase_constants": {"N": N, "T": T},
    })
    ck.assumptions += ["'converges to the integral over the supported region' is a statistical clause and is not claimed beyond the bookkeeping"]
    ck.finish(cov)


core.main_guard(main)
