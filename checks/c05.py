#!/venv/bin/python
"""C05 - temperature schedule is monotone, bounded and ESS-controlled.

COMPONENT LAYER (this file, `component_part`):

 1. specs/Reweight.tla models `Reweighter.run` as control flow - one action per evaluation of
    `_compute_metric_and_weights` - over an ARBITRARY oracle for the ESS and the volume-variation metric on
    a dyadic temperature grid (classes relative to the target: below / just below (inside the 1% band) /
    exactly at / just above / above / non-finite; no monotonicity assumed).  TLC checks the C05 invariants
    for every oracle, every beta_prev on the coarse grid, both metric modes, and must refute seeded wrong
    variants of the spec (non-vacuity of the invariants).
 2. Binding B (stub family): every behaviour TLC enumerated is replayed into the real `Reweighter.run()`
    with BETA_TOLERANCE = Tol/2^F, a one-batch history in a real StateManager, and
    `_compute_metric_and_weights` / `state.compute_logw_and_logz` replaced (instance attributes) by stubs
    answering from the oracle and returning weights / ESS / evidence TAGGED with the temperature they were
    asked for.  Compared exactly: the sequence of temperatures queried, the (beta, ess, logz, iter) written
    to the state, the temperature the evidence was requested at, the tag on the returned normalised weights.
 3. Real-history family (no stubs): synthetic StateManager histories (tempered Gaussian batches, skewed
    random batches, batches recorded at the wrong temperature; unequal batch sizes) driven through the real
    `Reweighter.run()` call after call; on the real doubles: beta starts at 0, never decreases, never exceeds 1;
    on an advance in ESS mode the ESS recomputed with the code's own compute_logw_and_logz +
    effective_sample_size at the recorded beta is >= target; in volume mode beta <= the returned ESS limit
    and ESS(limit) >= target when limit > beta_prev; recorded ess / logz equal the recomputation bit for bit
    and the returned weights equal the normalised weights at the recorded beta.

SYSTEM LAYER (`system_part`, recorded whole-run traces validated against PSRun.tla): built separately,
plugged in at the marked place in `main()`.
"""
import math
import os
import sys
import time
from concurrent.futures import ThreadPoolExecutor

sys.path.insert(0, os.path.dirname(os.path.dirname(os.path.abspath(__file__))))
from vlib import core, fastdump, tlc  # noqa: E402

PROPERTY_INVARIANTS = [
    "TypeOK", "OnGrid", "Bounded", "UpperHasESS", "UpperTight", "AdvanceHasESS", "VVWithinLimit",
    "SameTag", "Terminates", "EssBisectionDegenerate", "EssModeNoNewPoints",
]

CFG = """INIT Init
NEXT {next}
CONSTANTS
  F = {F}
  BPs = {bps}
  Tol = {tol}
  K = {K}
  Modes = {modes}
  EssC = {essc}
  VvC = {vvc}
  Mut = "{mut}"
{invs}
CHECK_DEADLOCK {deadlock}
"""

C3 = ["below", "at", "above"]
C6 = ["below", "below_in", "at", "above_in", "above", "nan"]
C8 = C6 + ["pinf", "ninf"]

# concrete numbers of the stub family (all dyadic: every product / sum below is exact in binary64)
NP, RATIO = 64, 2.0          # ESS target = 128.0
T_ESS = RATIO * NP
T_VV = 8.0                   # volume-variation target (not 1: relative and absolute tolerance differ)
ESS_TOL = 0.01


def tla_set(xs):
    return "{" + ", ".join(f'"{x}"' if isinstance(x, str) else str(x) for x in xs) + "}"


def model(name, D, mode, essc, vvc, bps=None, tol_mult=1, mut="none", invs=None, simulate=None, extraF=3):
    """One TLC job.  Coarse grid 2^D for beta_prev, BETA_TOLERANCE = tol_mult/2^D, fine grid 2^F."""
    F = 3 * D + extraF
    c = 2 ** (F - D)
    K = D
    while 2 ** F > (2 ** K) * tol_mult * c:
        K += 1
    return dict(name=name, D=D, F=F, mode=mode, essc=essc, vvc=vvc, tol=tol_mult * c, K=K,
                bps=[k * c for k in (range(2 ** D + 1) if bps is None else bps)],
                mut=mut, invs=PROPERTY_INVARIANTS if invs is None else invs, simulate=simulate)


def run_model(m, workers, seed):
    cfg = CFG.format(
        next="Step" if m["simulate"] else "Next", F=m["F"], bps=tla_set(m["bps"]), tol=m["tol"], K=m["K"],
        modes=tla_set([m["mode"]]), essc=tla_set(m["essc"]), vvc=tla_set(m["vvc"]), mut=m["mut"],
        invs="\n".join("INVARIANT " + i for i in m["invs"]),
        deadlock="FALSE" if m["simulate"] else "TRUE",
    )
    for attempt in (1, 2):  # a TLC machinery failure (never a verdict) is retried once, then exits 2
        try:
            if m["simulate"]:
                return tlc.run_tlc("Reweight", cfg, workers=workers, simulate=m["simulate"], depth=80, seed=seed + 5)
            return tlc.run_tlc("Reweight", cfg, workers=workers, dump=(m["mut"] == "none"), coverage=(m["mut"] == "none"))
        except tlc.TLCFailure as ex:
            if attempt == 2:
                raise
            print(f"[C05] TLC machinery failure on model {m['name']}, retrying once: {str(ex)[:300]}", file=sys.stderr, flush=True)


# --------------------------------------------------------------------------------------------------
# stub family: values of a class at grid point g (injective in g inside a class -> the value is a tag)
def class_value(cls, g, F, T):
    x = g / 2.0 ** F
    if cls == "below":
        return T * (0.5 - x / 4)
    if cls == "below_in":
        return T * (1 - 2.0 ** -9 - x * 2.0 ** -10)
    if cls == "at":
        return T
    if cls == "above_in":
        return T * (1 + 2.0 ** -9 + x * 2.0 ** -10)
    if cls == "above":
        return T * (1.5 + x / 4)
    if cls == "nan":
        return float("nan")
    if cls == "pinf":
        return float("inf")
    if cls == "ninf":
        return float("-inf")
    raise ValueError(cls)


GE_CLASSES = ("at", "above_in", "above", "pinf")


class OffGrid(AssertionError):
    pass


class PoisonUsed(AssertionError):
    pass


class StubBypassed(AssertionError):
    pass


class LogwSentinel:
    """What the stubbed evidence function returns in place of the log-weights: the pinned code never looks at them there (it takes
    weights, ESS and metric from _compute_metric_and_weights, which the replay scripts).  Code that DOES use them is organised
    differently - the scripted oracle is bypassed, the replay cannot drive it: binding lost, not a violation."""

    def _boom(self, *a, **k):
        raise StubBypassed("the code derives weights / ESS from compute_logw_and_logz directly: the scripted metric is bypassed")

    __lt__ = __le__ = __gt__ = __ge__ = __float__ = __sub__ = __rsub__ = __abs__ = __add__ = __radd__ = __mul__ = __rmul__ = __neg__ = _boom
    __array__ = __len__ = __iter__ = __getitem__ = _boom


class Poison:
    """Returned as the volume metric at temperatures where the specification says the code does not look
    at it: any use raises."""

    def _boom(self, *a, **k):
        raise PoisonUsed("code inspected the volume metric at a temperature where the specification does not")

    __lt__ = __le__ = __gt__ = __ge__ = __eq__ = __ne__ = __float__ = __sub__ = __rsub__ = __abs__ = _boom
    __array__ = __bool__ = __add__ = __radd__ = __mul__ = __rmul__ = __neg__ = _boom
    __hash__ = None


POISON = Poison()


def same_float(a, b):
    if isinstance(a, float) and isinstance(b, float) and math.isnan(a) and math.isnan(b):
        return True
    return a == b


class StubBinding:
    """Replays one specification behaviour (a state with pc = "done") into the real Reweighter.run()."""

    def __init__(self, np, Reweighter, StateManager, seed):
        self.np = np
        self.Reweighter = Reweighter
        self.seed = seed
        sm = StateManager(n_dim=1)
        sm.update_current({"u": np.array([[0.25], [0.75]]), "x": np.array([[0.25], [0.75]]),
                           "logl": np.array([-1.0, -2.0]), "beta": 0.0, "logz": 0.0, "iter": 1, "calls": 2})
        sm.commit_current_to_history()  # one batch: get_history_length() == 1
        assert sm.get_history_length() == 1
        self.sm = sm
        self.zlog = []
        sm.compute_logw_and_logz = self._stub_logz  # instance attribute, for the lifetime of this object

    # evidence stub: tagged with the temperature (injective, dyadic)
    def _stub_logz(self, beta_final=1.0, normalize=True):
        self.zlog.append(beta_final)
        return LogwSentinel(), -7.0 * beta_final - 1.0

    def tagged_weights(self, beta):
        # unnormalised; after w / sum(w) the content still identifies beta
        return self.np.array([1.0 + beta, 2.0 - beta, 0.5]) * 4.0

    def default_ess_class(self, g):
        # ESS class at temperatures where the specification never branches on the ESS
        return ("above", "below")[((g * 2654435761 + self.seed) >> 5) & 1]

    def oracle(self, st, F, extended):
        """(ess class, vv class) of any temperature g (in grid units, possibly fractional).  On the grid points the specification's
        behaviour fixed (its memos) the classes are those; elsewhere: `extended` = FALSE -> an arbitrary (seeded) class, as for the
        exact replay; TRUE -> the monotone extension (ESS >= target strictly below the first memo point below target, volume metric
        as at the nearest memo point to the left), which gives every temperature a meaning for ANY search strategy."""
        essM = {g: c for g, c in st["essM"]}
        vvM = {g: c for g, c in st["vvM"]}
        below = sorted(g for g, c in essM.items() if c not in GE_CLASSES and c != "nan")
        first_below = below[0] if below else None

        def classes(g):
            gi = int(math.floor(g))
            on_grid = gi == g
            if on_grid and gi in essM:
                ec = essM[gi]
            elif not extended:
                ec = self.default_ess_class(gi)
            else:
                ec = "above" if (first_below is None or g < first_below) else "below"
            if on_grid and gi in vvM:
                vc = vvM[gi]
            elif not extended:
                vc = None
            else:
                left = [h for h in vvM if h <= g]
                vc = vvM[max(left)] if left else "below"
            return ec, vc
        return classes, first_below

    def observe(self, st, F, extended=False):
        """Run the real code for the (oracle, beta_prev, mode) of behaviour `st`; return the observation."""
        np = self.np
        one = 2 ** F
        mode = st["mode"]
        classes, _ = self.oracle(st, F, extended)
        qlog = []
        self.zlog = []

        def stub_metric(beta):
            g = beta * one
            if not (0 <= g <= one):
                raise AssertionError(f"temperature {beta!r} queried outside [0, 1]")
            gi = int(g) if int(g) == g else float(g)
            if not extended and gi != int(g):
                raise OffGrid(f"temperature {beta!r} queried off the dyadic grid 2^-{F}")
            qlog.append(gi)
            ec, vc = classes(g)
            ess = class_value(ec, g, F, T_ESS)
            if mode == "vv":
                metric = class_value(vc, g, F, T_VV) if vc is not None else POISON
            else:
                metric = ess
            return self.tagged_weights(beta), ess, metric

        self.sm.update_current({"beta": st["bp"] / one, "iter": 7, "logz": 123.0, "ess": -1.0})
        rw = self.Reweighter(self.sm, None, n_particles=NP, ess_ratio=RATIO,
                             volume_variation=(T_VV if mode == "vv" else None),
                             ESS_TOLERANCE=ESS_TOL, BETA_TOLERANCE=st["_tol"] / one)
        rw._compute_metric_and_weights = stub_metric
        try:
            w = rw.run()
        except StubBypassed as ex:
            return {"raised": None, "lost": repr(ex), "qlog": []}
        except AttributeError as ex:
            if "'tuple' object has no attribute" in str(ex):
                # the code reads the stubbed method's result by field name: the library's own method returns a richer tuple type
                # than the scripted stand-in; the replay cannot drive this organisation of the code (binding lost, not a violation)
                return {"raised": None, "lost": repr(ex), "qlog": []}
            return {"raised": repr(ex), "qlog": qlog}
        except (OffGrid, PoisonUsed) as ex:  # the code searches differently from the specification: judged by judge() on the extended oracle
            return {"raised": None, "path": repr(ex), "qlog": qlog}
        except Exception as ex:  # an exception is an outcome no specification behaviour has
            return {"raised": repr(ex), "qlog": qlog}
        cur = self.sm.get_current()
        return {"raised": None, "qlog": qlog, "zlog": list(self.zlog), "beta": cur["beta"], "ess": cur["ess"],
                "logz": cur["logz"], "iter": cur["iter"], "weights": w}

    def judge(self, st, F, obs):
        """Property-level verdict on an observation made with the EXTENDED oracle, for code whose search path differs from the
        specification's.  Only what C05 states: the temperature does not decrease and stays <= 1; once it advances the ESS there is
        at least the target (ESS mode) / it is not beyond the ESS-limited temperature (volume mode); beta, evidence, ESS and the
        returned weights refer to one temperature.  -> (key, message) | None"""
        np = self.np
        one = 2 ** F
        classes, first_below = self.oracle(st, F, True)
        if obs["raised"]:
            return "raised", f"Reweighter.run raised {obs['raised']} after querying {obs['qlog']}"
        b, bp = float(obs["beta"]), st["bp"] / one
        if not (bp <= b <= 1.0):
            return "monotone", f"beta written {b!r} with previous beta {bp!r}"
        ec, _ = classes(b * one)
        if b > bp and ec not in GE_CLASSES:
            what = "ESS there is below the target" if st["mode"] == "ess" else "that is beyond the ESS-limited temperature"
            return "advance-ess", f"advanced from {bp!r} to {b!r}: {what} (oracle class {ec}; first grid point below target {first_below})"
        if not obs["zlog"] or obs["zlog"][-1] != b or not same_float(float(obs["logz"]), -7.0 * b - 1.0):
            return "written-logz", f"logz written {obs['logz']!r} (evidence requested at {obs['zlog']}) is not the evidence at the recorded beta {b!r}"
        if not same_float(float(obs["ess"]), float(class_value(ec, b * one, F, T_ESS))):
            return "written-ess", f"ess written {obs['ess']!r} is not the ESS at the recorded beta {b!r}"
        w = self.tagged_weights(b)
        w = w / np.sum(w)
        if getattr(obs["weights"], "shape", None) != w.shape or not np.allclose(obs["weights"], w, rtol=1e-12, atol=0):
            return "weights-tag", f"returned weights {obs['weights']!r} are not the normalised weights of the recorded beta {b!r}"
        return None

    def expected(self, st, F):
        one = 2 ** F
        res = st["wbeta"] / one
        eg = st["wess"]
        essM = {g: c for g, c in st["essM"]}
        w = self.tagged_weights(st["rwt"] / one)
        return {"qlog": list(st["qlog"]), "zlog": [st["ztag"] / one], "beta": res,
                "ess": class_value(essM.get(eg) or self.default_ess_class(eg), eg, F, T_ESS),
                "logz": -7.0 * (st["wlogz"] / one) - 1.0, "iter": 8, "weights": w / self.np.sum(w)}

    def compare(self, obs, exp):
        """-> (key suffix, message) of the first discrepancy, or None."""
        if obs["raised"]:
            return "raised", f"Reweighter.run raised {obs['raised']} after querying {obs['qlog']}"
        if obs.get("path"):
            return "queries", f"search left the specification's path: {obs['path']}"
        if obs["qlog"] != exp["qlog"]:
            return "queries", f"temperatures evaluated {obs['qlog']} but the specification evaluates {exp['qlog']}"
        if obs["beta"] != exp["beta"]:
            return "written-beta", f"beta written {obs['beta']!r}, specification {exp['beta']!r}"
        if obs["zlog"] != exp["zlog"]:
            return "logz-temperature", f"evidence requested at {obs['zlog']}, specification {exp['zlog']}"
        if not same_float(float(obs["logz"]), exp["logz"]):
            return "written-logz", f"logz written {obs['logz']!r} is not the evidence at the recorded beta ({exp['logz']!r})"
        if not same_float(float(obs["ess"]), float(exp["ess"])):
            return "written-ess", f"ess written {obs['ess']!r} is not the ESS at the recorded beta ({exp['ess']!r})"
        if obs["iter"] != exp["iter"]:
            return "iter", f"iter written {obs['iter']!r}, expected {exp['iter']!r}"
        w = obs["weights"]
        if getattr(w, "shape", None) != exp["weights"].shape or not self.np.array_equal(w, exp["weights"]):
            return "weights-tag", f"returned weights {w!r} are not the normalised weights of the recorded beta {exp['weights']!r}"
        return None


def monotone_memo(essM):
    """ESS memo consistent with an ESS curve that crosses the target once, downwards (>= target, then < target)."""
    seen_below = False
    for g, c in sorted(essM):
        ge = c in ("at", "above_in", "above", "pinf")
        if not ge:
            seen_below = True
        elif seen_below:
            return False
    return True


def stub_family(ck, np, Reweighter, StateManager, cov):
    quick = ck.tier == "quick"
    if quick:
        models = [
            model("ess-D3-6cls", 3, "ess", C6, ["at"]),
            model("vv-D3-small", 3, "vv", ["below", "above"], ["below", "at", "above", "nan"]),
            model("vv-D2-6cls", 2, "vv", C3, C6),
        ]
        pool, workers = 3, 5
    else:
        models = [
            model("ess-D4-6cls", 4, "ess", C6, ["at"]),
            model("ess-D3-8cls-tol2", 3, "ess", C8, ["at"], tol_mult=2),
            model("vv-D3-6cls", 3, "vv", C3, C6),
            model("vv-D2-8cls", 2, "vv", C3, C8),
            model("vv-D3-small-tol2", 3, "vv", ["below", "above"], ["below", "below_in", "above", "ninf"], tol_mult=2),
            model("sim-ess-D5", 5, "ess", C8, ["at"], simulate="num=4000"),
            model("sim-vv-D4", 4, "vv", C6, C8, simulate="num=6000"),
            model("sim-vv-D5", 5, "vv", C3, C8, simulate="num=6000"),
        ]
        pool, workers = 2, 8
    # seeded wrong variants of the specification: TLC must refute the named invariant (non-vacuity)
    mutants = [
        (model("mut-ul_swap", 2, "ess", C3, ["at"], mut="ul_swap", invs=["UpperHasESS"]), "UpperHasESS"),
        (model("mut-ess_gt", 2, "ess", C6, ["at"], mut="ess_gt", invs=["AdvanceHasESS"]), "AdvanceHasESS"),
        (model("mut-bis_tag", 2, "vv", ["below", "above"], C3, mut="bis_tag", invs=["SameTag"]), "SameTag"),
    ]

    with ThreadPoolExecutor(max_workers=pool) as ex:
        futs = [(m, ex.submit(run_model, m, workers, ck.seed)) for m in models]
        mfuts = [(m, want, ex.submit(run_model, m, 2, ck.seed)) for m, want in mutants]
        results = [(m, f.result()) for m, f in futs]
        mresults = [(m, want, f.result()) for m, want, f in mfuts]

    refuted = 0
    for m, want, res in mresults:
        if res.status == "violation" and res.violated == want:
            refuted += 1
        else:
            res.cleanup()
            raise RuntimeError(f"vacuity: TLC did not refute {want} on seeded wrong variant {m['mut']} "
                               f"(status {res.status} {res.violated})")
        res.cleanup()
    cov["spec_mutants_refuted"] = refuted

    binding = StubBinding(np, Reweighter, StateManager, ck.seed)
    tlc_cov = {}
    advance_keys = set()
    per_model = {}
    corrupt_rejected = corrupt_tried = 0
    for m, res in results:
        F = m["F"]
        info = {"distinct_states": res.distinct, "generated": res.generated, "tlc_wall_s": round(res.wall_s, 1),
                "exhaustive": not m["simulate"], "D": m["D"], "F": F, "tol_grid_units": m["tol"],
                "ess_classes": m["essc"], "vv_classes": m["vvc"], "beta_prev_values": len(m["bps"])}
        if res.status != "ok":
            if res.violated == "OnGrid":
                res.cleanup()
                raise RuntimeError(f"grid depth F={F} too small for model {m['name']}")
            ck.violation("spec:" + res.violated,
                         f"TLC: {res.violated} violated on the code-shaped Reweight.tla ({m['name']})",
                         {"model": {k: v for k, v in m.items() if k != 'invs'}, "trace": res.error_trace})
            per_model[m["name"]] = info
            res.cleanup()
            continue
        for k, v in res.coverage.items():
            o = tlc_cov.get(k, (0, 0))
            tlc_cov[k] = (o[0] + v[0], o[1] + v[1])
        cov["states"] += res.distinct
        cov["transitions"] += res.generated
        if m["simulate"]:
            states = fastdump.last_states_of_sim(os.path.join(res.workdir, "sim"))
        else:
            states = fastdump.iter_dump(res.dump_path, keep='/\\ pc = "done"')
        n = 0
        seen = set()
        t_replay = time.time()
        for st in states:
            if st["pc"] != "done":
                continue
            if m["simulate"]:
                sig = (st["bp"], tuple(map(tuple, st["essM"])), tuple(map(tuple, st["vvM"])))
                if sig in seen:
                    continue
                seen.add(sig)
            st["_tol"] = m["tol"]
            n += 1
            obs = binding.observe(st, F)
            exp = binding.expected(st, F)
            bad = binding.compare(obs, exp)
            conforming = bad is None
            cov["evaluations"] += len(obs["qlog"])
            if bad and not obs["qlog"]:
                # the code never asked the stubbed metric: it is organised differently from the specification; this family cannot
                # drive it (the real-history family and the recorded runs below do not depend on it)
                cov["stub_binding_lost"] += 1
                bad = None
            elif bad and bad[0] != "raised":
                # not the specification's behaviour.  C05 does not prescribe the search: second opinion at property level, on the
                # monotone extension of the same oracle (any temperature has a meaning there).  Oracles that are not monotone give
                # an alternative search no defined ESS-limited temperature: no verdict.
                if monotone_memo(st["essM"]) and not any(c == "nan" for _, c in st["essM"]):
                    obs2 = binding.observe(st, F, extended=True)
                    if not obs2["qlog"]:
                        cov["stub_binding_lost"] += 1
                        bad = None
                    else:
                        bad2 = binding.judge(st, F, obs2)
                        cov["stub_search_path_deviations_judged_at_property_level"] += 1
                        bad = ("property:" + bad2[0], bad2[1] + f"  [exact replay differed: {bad[1][:200]}]") if bad2 else None
                else:
                    cov["stub_search_path_deviations_without_verdict"] += 1
                    bad = None
            if bad:
                ck.violation(f"stub:{st['mode']}:{bad[0]}", f"[{m['name']}] " + bad[1],
                             {"family": "stub", "F": F, "state": st})
            # evidence bookkeeping (projection only)
            adv = st["res"] > st["bp"]
            cov["behaviours_" + st["mode"]] += 1
            if adv:
                advance_keys.add((m["name"], st["bp"], tuple(map(tuple, st["essM"])), tuple(map(tuple, st["vvM"]))))
                cov["advances_" + st["mode"]] += 1
            if st["nBis"] > 0:
                cov["behaviours_entering_metric_bisection_" + st["mode"]] += 1
            if st["mode"] == "ess":
                cov["ess_memos_monotone" if monotone_memo(st["essM"]) else "ess_memos_non_monotone"] += 1
            # binding self-test: a corrupted expectation of a conforming observation must be rejected
            if n <= 60 and conforming:
                for field, f in (("qlog", lambda v: v[:-1]), ("beta", lambda v: v + 2.0 ** -F),
                                 ("logz", lambda v: v - 2.0 ** -F), ("weights", lambda v: v[::-1].copy())):
                    e2 = dict(exp)
                    e2[field] = f(exp[field])
                    corrupt_tried += 1
                    if binding.compare(obs, e2) is not None:
                        corrupt_rejected += 1
            if adv and st["nBis"] > 0 and len(ck.samples) < 3:
                ck.sample({"family": "stub", "model": m["name"], "mode": st["mode"], "beta_prev": st["bp"] / 2 ** F,
                           "queried": [g / 2 ** F for g in st["qlog"]], "ess_oracle": st["essM"], "vv_oracle": st["vvM"],
                           "limit": st["upper"] / 2 ** F, "result": st["res"] / 2 ** F})
        info["behaviours_replayed"] = n
        info["replay_wall_s"] = round(time.time() - t_replay, 1)
        per_model[m["name"]] = info
        cov["traces_validated_against_impl"] += n
        res.cleanup()
    if corrupt_rejected != corrupt_tried:
        raise RuntimeError(f"binding self-test: only {corrupt_rejected}/{corrupt_tried} corrupted expectations rejected")
    cov["binding_corruptions_rejected"] = corrupt_rejected
    cov["distinct_nontrivial"] += len(advance_keys)
    cov["tlc_coverage"] = {k: list(v) for k, v in tlc_cov.items()}
    cov["models"] = per_model
    # vacuity: every action of the specification fired in some model
    actions = ["UL_Current", "UL_One", "UL_Step", "UL_Exit", "E_Prev", "E_Upper", "V_Same", "V_Prev", "V_Upper",
               "V_Recompute", "Bis_Step", "Logz", "Finalize", "Done"]
    if ck.violations == 0:
        dead = [a for a in actions if max(tlc_cov.get(a, (0, 0))) == 0]
        if dead:
            raise RuntimeError(f"vacuous: specification actions never taken: {dead}")
        for k in ("advances_ess", "advances_vv", "behaviours_entering_metric_bisection_vv"):
            if cov[k] == 0:
                raise RuntimeError(f"vacuous: {k} = 0")


# --------------------------------------------------------------------------------------------------
# real histories, no stubs
def real_history_family(ck, np, Reweighter, StateManager, ess_fn, cov):
    n_runs = 48 if ck.tier == "quick" else 300

    def report(key, what, ctx):
        ck.violation(key, what, ctx)

    for r in range(n_runs):
        real_history_run(np, Reweighter, StateManager, ess_fn, ck.seed, r, ck.tier, cov, report, ck)


def real_history_run(np, Reweighter, StateManager, ess_fn, seed, r, tier, cov, report, ck=None):
    """One synthetic history driven call after call through the real Reweighter.run (regenerable from
    (seed, r, tier): this is what --replay re-executes for real-history cases)."""
    from scipy.special import ndtr  # u = Phi(x): the unit-cube image of a standard normal prior

    quick = tier == "quick"
    max_calls = 22 if quick else 40
    styles = ("tempered", "skewed", "wrong-temperature")
    rng = np.random.RandomState((seed * 1000003 + 7919 * r + 5) % (2 ** 31))
    d = int(rng.choice([1, 2, 3]))
    npart = int(rng.choice([8, 16, 32] if quick else [8, 16, 32, 64]))
    ratio = float(rng.choice([0.5, 1.0, 2.0, 3.25]))
    mode = "ess" if r % 2 == 0 else "vv"
    vtarget = float(rng.choice([0.05, 0.1, 0.25, 0.5, 1.0])) if mode == "vv" else None
    btol = float(rng.choice([1e-4, 1e-4, 1e-2, 2.0 ** -6]))
    style = styles[(r // 2) % 3]
    unequal = bool(rng.randint(2))
    scale = float(rng.choice([4.0, 25.0, 400.0]))
    mu = rng.uniform(-1, 1, d)
    params = dict(run=r, d=d, n_particles=npart, ess_ratio=ratio, mode=mode, volume_variation=vtarget,
                  BETA_TOLERANCE=btol, style=style, unequal=unequal, scale=scale, seed=seed, tier=tier)
    target = ratio * npart
    kmax = max(0, math.ceil(math.log2(1.0 / btol)))
    sm = StateManager(n_dim=d)
    sm.set_current("iter", 0)
    sm.set_current("calls", 0)
    sm.set_current("beta", 0.0)
    sm.set_current("logz", 0.0)
    seen = {"upper": None, "evals": []}

    def make_rw(np_):
        rw_ = Reweighter(sm, None, n_particles=np_, ess_ratio=ratio, volume_variation=vtarget,
                         ESS_TOLERANCE=ESS_TOL, BETA_TOLERANCE=btol)
        orig_ul, orig_metric, orig_bis = rw_._find_beta_upper_limit, rw_._compute_metric_and_weights, rw_._find_beta_bisection

        def bis(*a, _o=orig_bis, **k):
            cov["real_metric_bisections_" + mode] += 1
            return _o(*a, **k)

        rw_._find_beta_bisection = bis

        def ul(b, e, _o=orig_ul, _s=seen):  # observers, not stubs: they call the real methods
            _s["upper"] = _o(b, e)
            return _s["upper"]

        def metric(b, _o=orig_metric, _s=seen):
            _s["evals"].append(b)
            return _o(b)

        rw_._find_beta_upper_limit = ul
        rw_._compute_metric_and_weights = metric
        return rw_

    rw = make_rw(npart)
    grown = False
    at_one = 0
    for call in range(max_calls):
        empty = sm.get_history_length() == 0
        beta_prev = sm.get_current("beta")
        if r % 4 == 1 and not grown and beta_prev is not None and 0.0 < beta_prev < 1.0:
            # the history is continued by a sampler configured with 8 times as many particles (resume into a larger sampler):
            # the pool is now SMALLER than the ESS target although the temperature is positive
            grown = True
            npart = 8 * npart
            target = ratio * npart
            params["n_particles_after_growth"] = npart
            rw = make_rw(npart)
            cov["real_runs_continued_with_more_particles"] += 1
        iter_prev = sm.get_current("iter")
        seen["upper"], seen["evals"] = None, []
        ctx = dict(params, call=call, beta_prev=beta_prev)

        def bad(key, what, **more):
            report(f"real:{mode}:{key}", what, dict(ctx, family="real-history", **more))

        try:
            w = rw.run()
        except Exception as ex:
            bad("raised", f"Reweighter.run raised {ex!r}")
            break
        cov["real_calls"] += 1
        cur = sm.get_current()
        beta = cur["beta"]
        if cur["iter"] != iter_prev + 1:
            bad("iter", f"iter {iter_prev} -> {cur['iter']}")
        if empty:
            cov["real_first_calls"] += 1
            if not (beta == 0.0 and cur["logz"] == 0.0 and w.shape == (npart,) and np.all(w == 1.0 / npart)):
                bad("first", f"first call on an empty history: beta={beta!r} logz={cur['logz']!r}")
        else:
            if not (beta >= beta_prev):
                bad("decrease", f"beta decreased {beta_prev!r} -> {beta!r}")
            if not (beta <= 1.0):
                bad("above-one", f"beta = {beta!r} > 1")
            # recomputation with the code's own functions on the (unchanged) pre-step history
            logw, logz_r = sm.compute_logw_and_logz(beta)
            wts = np.exp(logw - np.max(logw))
            ess_r = ess_fn(wts)
            wn = wts / np.sum(wts)
            # "refer to that same temperature": equal up to the rounding of another (equally accurate) way of computing them; the
            # recorded temperatures of consecutive search points differ by >= BETA_TOLERANCE, i.e. by far more in these quantities
            def close(a, b):
                return same_float(float(a), float(b)) or bool(np.isclose(float(a), float(b), rtol=1e-11, atol=1e-11))

            if not close(cur["logz"], logz_r):
                bad("logz-mismatch", f"recorded logz {cur['logz']!r} != evidence at the recorded beta {logz_r!r}")
            if not close(cur["ess"], ess_r):
                bad("ess-mismatch", f"recorded ess {cur['ess']!r} != ESS at the recorded beta {ess_r!r}")
            if w.shape != wn.shape or not np.allclose(w, wn, rtol=1e-11, atol=1e-300):
                bad("weights-mismatch", "returned weights are not the normalised weights at the recorded beta",
                    max_abs_diff=float(np.max(np.abs(w - wn))) if w.shape == wn.shape else None)
            nev = len(seen["evals"])
            cov["evaluations"] += nev
            # how the search proceeds (number of evaluations, where it looks) is the specification's business, not C05's
            if nev > 2 * (kmax + 2) + 3:
                cov["real_spec_deviation_more_evaluations_than_bisection"] += 1
            if any(not (beta_prev <= b <= 1.0) for b in seen["evals"]):
                cov["real_spec_deviation_evaluated_outside_bracket"] += 1
            upper = seen["upper"]
            if upper is None:
                # the code did not go through _find_beta_upper_limit (organised differently): the ESS-limited temperature is not
                # observable; property-level form of "not beyond it": wherever the temperature advanced, the ESS there is >= target
                cov["real_limit_not_observable"] += 1
                if mode == "vv" and beta > beta_prev and not (ess_r >= target * (1 - ESS_TOL)):
                    bad("beyond-limit", f"advanced to beta {beta!r} where the pool ESS {ess_r!r} is below the target {target!r} (beyond the ESS-limited temperature)")
            elif not (beta_prev <= upper <= 1.0):
                bad("limit-range", f"ESS limit {upper!r} outside [beta_prev, 1]")
            else:
                if upper > beta_prev:
                    lw, _ = sm.compute_logw_and_logz(upper)
                    ess_u = ess_fn(np.exp(lw - np.max(lw)))
                    cov["real_limits_beyond_prev"] += 1
                    if not (ess_u >= target):
                        bad("limit-ess", f"ESS at the returned limit {upper!r} is {ess_u!r} < target {target!r}")
                if mode == "vv" and not (beta <= upper):
                    bad("beyond-limit", f"beta {beta!r} beyond the ESS-limited temperature {upper!r}")
            if beta > beta_prev:
                cov["real_advances_" + mode] += 1
                cov["distinct_nontrivial"] += 1
                if mode == "ess":
                    margin = (ess_r - target) / target
                    cov["_margins"].append(margin)
                    if ess_r >= target:
                        if margin < ESS_TOL:
                            cov["real_ess_advances_within_1pct_above_target"] += 1
                    elif ess_r >= target * (1 - ESS_TOL):
                        # "at least the target up to the routine's stated tolerance": reported, not an alarm
                        cov["real_ess_advances_below_target_within_tolerance"] += 1
                    else:
                        bad("ess-floor", f"advanced {beta_prev!r} -> {beta!r} where ESS = {ess_r!r} < target {target!r}")
                if ck is not None and len(ck.samples) < 6 and call % 3 == 0:
                    ck.sample({"family": "real-history", "mode": mode, "style": style, "beta_prev": beta_prev,
                               "beta": beta, "ess": float(ess_r), "target": target, "limit": upper,
                               "pool": int(len(logw)), "evaluations": nev})
            else:
                cov["real_stays_" + mode] += 1
        # commit a fresh batch "sampled" at the recorded temperature
        nb = int(rng.randint(max(d + 2, npart // 2), 2 * npart + 1)) if unequal else npart
        if style == "tempered":
            b_s = beta
        elif style == "wrong-temperature":
            b_s = float(rng.uniform(0, 1)) ** 2
        else:
            b_s = None
        if b_s is not None:
            prec = 1.0 + b_s * scale
            x = (b_s * scale * mu / prec) + rng.standard_normal((nb, d)) / math.sqrt(prec)
            logl = -0.5 * scale * np.sum((x - mu) ** 2, axis=1)
        else:
            x = rng.standard_normal((nb, d))
            logl = -rng.gamma(0.7, scale, nb) * (1 + 10 * (rng.uniform(size=nb) < 0.1))
        sm.update_current({"u": ndtr(x), "x": x, "logl": logl, "calls": int(cur["calls"] or 0) + nb})
        sm.commit_current_to_history()
        if beta == 1.0:
            at_one += 1
            if at_one >= 3:
                break
    cov["real_runs"] += 1
    cov["real_runs_reaching_one"] += int(sm.get_current("beta") == 1.0)


# --------------------------------------------------------------------------------------------------
def component_part(ck):
    """Component layer of C05.  Returns coverage numbers (dict); violations are reported through ck."""
    import collections

    core.import_repo()
    import numpy as np
    from tempest.state_manager import StateManager
    from tempest.steps.reweight import Reweighter
    from tempest.tools import effective_sample_size

    cov = collections.defaultdict(int)
    cov["_margins"] = []
    stub_family(ck, np, Reweighter, StateManager, cov)
    with np.errstate(all="ignore"):
        real_history_family(ck, np, Reweighter, StateManager, effective_sample_size, cov)
    margins = cov.pop("_margins")
    cov = dict(cov)
    cov["traces_validated_against_impl"] += cov.get("real_calls", 0)
    if margins:
        cov["real_ess_margin_min_rel"] = min(margins)
        cov["real_ess_margin_median_rel"] = sorted(margins)[len(margins) // 2]
    if cov.get("real_limit_not_observable"):
        cov.setdefault("real_limits_beyond_prev", 1)   # not observable for this organisation of the code (counted above)
    for k in ("real_advances_ess", "real_advances_vv", "real_first_calls", "real_limits_beyond_prev"):
        if ck.violations == 0 and cov.get(k, 0) == 0:
            raise RuntimeError(f"vacuous: {k} = 0")
    for k in ("real_ess_advances_below_target_within_tolerance", "real_ess_advances_within_1pct_above_target",
              "real_metric_bisections_ess", "real_metric_bisections_vv"):
        cov.setdefault(k, 0)
    return cov


def replay(ck, path):
    """./check C05 --replay <file>: re-run one recorded case (stub family: the behaviour; real-history family:
    the whole synthetic run regenerated from its seed) and print the verdict."""
    import json

    core.import_repo()
    import numpy as np
    from tempest.state_manager import StateManager
    from tempest.steps.reweight import Reweighter

    with open(path) as f:
        rec = json.load(f)["replay"]
    if rec.get("family") != "stub":
        import collections
        from tempest.tools import effective_sample_size

        hits = []

        def report(key, what, ctx):
            hits.append(key)
            print(f"  key={key} call={ctx.get('call')} beta_prev={ctx.get('beta_prev')!r}: {what}")

        with np.errstate(all="ignore"):
            real_history_run(np, Reweighter, StateManager, effective_sample_size, rec["seed"], rec["run"],
                             rec.get("tier", "quick"), collections.defaultdict(int, _margins=[]), report)
        print("verdict  :", sorted(set(hits)) or "conforms")
        sys.exit(1 if hits else 0)
    b = StubBinding(np, Reweighter, StateManager, ck.seed)
    obs, exp = b.observe(rec["state"], rec["F"]), b.expected(rec["state"], rec["F"])
    print("observed :", obs)
    print("expected :", exp)
    bad = b.compare(obs, exp)
    print("verdict  :", bad or "conforms")
    sys.exit(1 if bad else 0)


SUMMED = ("states", "transitions", "traces_validated_against_impl", "evaluations", "distinct_nontrivial")


def merge_coverage(cov, extra, label):
    """Fold the numbers of another layer into `cov`: the headline counters are summed, the rest is kept under `label`."""
    extra = dict(extra)
    for k in SUMMED:
        cov[k] = cov.get(k, 0) + extra.pop(k, 0)
    cov[label] = extra
    return cov


def system_part(ck):
    """SYSTEM LAYER: recorded whole runs validated by TLC against PSRunTrace.tla (clauses IF_Zero, RW_FirstZero,
    RW_Monotone, RW_Bounded, RW_AdvanceESS, RW_Limit, RW_SameBeta) + the bounded PSRun model (HistBetaMonotone,
    BetaBounded, BetaMonotoneStep)."""
    from vlib import sysrun

    cov = sysrun.model_part(ck, "C05", variants=["runagain"], tier=ck.tier,
                            configs=[dict(clustering="TRUE", every=2, metric="ess", cap=0), dict(clustering="FALSE", every=1, metric="vv", cap=0)])
    factors = {"metric": [{}, {"volume_variation": 0.2}, {"volume_variation": 1.0}, {"volume_variation": 5.0}], "ess_ratio": [1.0, 2.0, 3.5, 2.3],
               "n_particles": [8, 16, 9], "sample": ["tpcn", "rwm"], "clustering": [True, False], "target": ["gauss", "bimodal", "edge"]}
    jobs = sysrun.product_jobs(factors, {}, ck.seed + 5, limit=40 if ck.tier == "quick" else 288, n_total=40)

    # synthetic histories whose ESS-limited temperature falls inside (1 - 1e-4, 1)
    for i, c in enumerate([dict(clustering=False), dict(clustering=True, sample="rwm"), dict(volume_variation=5.0, clustering=False)]):
        jobs.append({"conf": dict(c, n_particles=8), "seed": 550 + i + ck.seed, "label": f"late-crossing#{i}", "n_total": 24, "oracle": "late_crossing"})

    def nontrivial(t):
        adv = sum(1 for a, b in zip([e for e in t["events"] if e["ev"] == "Reweight"][:-1], [e for e in t["events"] if e["ev"] == "Reweight"][1:]) if b["beta"] > a["beta"])
        return (t["meta"]["label"], t["meta"]["seed"]) if adv >= 2 else None

    sc, traces = sysrun.system_part(ck, "C05", jobs, nontrivial)
    cov.update(sc)
    cov.update(sysrun.selftest(traces[0]))
    cov["traces_validated_against_impl"] = sc["system_runs"]
    cov["evaluations"] = sc["system_event_counts"].get("Reweight", 0)
    cov["distinct_nontrivial"] = sc["system_nontrivial"]
    return cov


def main():
    ck = core.Check("C05", "model_checking")
    if ck.args.replay:
        replay(ck, ck.args.replay)
    cov = component_part(ck)
    merge_coverage(cov, system_part(ck), "system")
    ck.assumptions += [
        "binary64 arithmetic: sums and halves of dyadic temperatures k/2^F (F <= 18) are exact",
        "the metric is a deterministic function of (history, beta): re-evaluation at a temperature returns the same value (the memo of the specification)",
        "stub family: ESS_TOLERANCE = 0.01; classes 'below'/'above' are >= 50% away from the target, '*_in' classes within 0.3%",
        "that compute_logw_and_logz / effective_sample_size compute the right formula is decided by C04 / C20, not here",
    ]
    cov["notes"] = [
        "ESS mode: TLC invariant EssBisectionDegenerate - _find_beta_bisection is entered in ESS mode only when ESS(beta_prev) is NaN "
        "(bracket [beta_prev, beta_prev], returns beta_prev at once); for every oracle without NaN the three-way decision always "
        "takes 'stay' or 'use the ESS limit', so the 1% metric band and the beta-tolerance stop of the bisection never decide an "
        "ESS-mode advance and 'ESS >= target after an advance' holds strictly, for monotone and non-monotone oracles alike",
        "real-history family: real_metric_bisections_ess counts calls of _find_beta_bisection in ESS mode on real histories",
    ]
    cov.update({
        "rule": "a behaviour = (mode, beta_prev, oracle memo) enumerated by TLC (lazy oracle: every distinct run of the search "
                "exactly once) and replayed into Reweighter.run; non-trivial = the chosen temperature is > beta_prev (distinct "
                "advancing behaviours) plus every advancing call of the real-history family",
        "exhaustive": ck.tier == "quick" or "exhaustive models + simulation (sim-* models)",
    })
    ck.finish(cov)


if __name__ == "__main__":
    core.main_guard(main)
