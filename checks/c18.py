#!/venv/bin/python
"""C18 - invalid configurations are rejected up front; valid ones always run.

Config.tla: abstract option lattice, Valid(c) transcribed from the documented constraints, expected
outcome per configuration.  The harness builds a covering array of the valid product (pairwise in the quick
tier, 3-wise in the thorough tier; strength MEASURED, and pairwise coverage is re-checked by TLC against the
spec's own Domain) plus every one-factor-at-a-time invalid value, runs the real Sampler on each, and TLC
validates (a) the observed outcome against Valid (Config.tla: CF_ValidRuns, CF_InvalidReject, CF_RejectEarly)
and (b) the full recorded trace of every valid run against PSRunTrace.tla (NoRaise and the run postconditions
TM_* are attributed to this property).
"""
import itertools
import json
import os
import random
import shutil
import sys
import tempfile

sys.path.insert(0, os.path.dirname(os.path.dirname(os.path.abspath(__file__))))
from vlib import core, psrun, sysrun, tla, tlc  # noqa: E402

DOMAIN = {
    "kernel": ["tpcn", "rwm"], "resampler": ["mult", "syst"], "clustering": ["on", "off"], "normalize": ["on", "off"],
    "clusterEvery": ["1", "2", "3"], "cap": ["none", "1", "2"], "split": ["half", "one", "two"],
    "metric": ["ess1", "ess2", "vvsmall", "vvbig"], "nSteps": ["none", "1", "3"], "nMaxSteps": ["none", "2", "40"],
    "evaluation": ["scalar", "vector", "blobs"], "bounds": ["none", "periodic", "reflective", "both", "emptylists"],
    "pool": ["none", "one", "two", "like"], "saveEvery": ["none", "1", "3"], "nParticles": ["small", "default"],
    "nDim": ["two", "three"],
}
INVALID = {
    "kernel": ["unknown", "fragment", "empty"], "resampler": ["unknown", "fragment", "empty"], "metric": ["ess0", "essneg", "vv0", "vvneg", "ess0vv", "essnegvv"],
    "evaluation": ["vectorblobs"], "bounds": ["overlap", "outofrange", "negative", "nonint"],
    "nParticles": ["zero", "neg", "float"], "nDim": ["zero", "neg", "float"],
}
# values the property's list does not classify (an integral-valued float, a numpy integer): either outcome is conforming -
# rejected at construction, or accepted and then the run completes; accepted-then-fails-later is not
UNSPECIFIED = {"kernel": ["upper"], "resampler": ["upper"], "nParticles": ["intfloat", "npint"], "nDim": ["intfloat", "npint"]}
DEFAULT = {"kernel": "tpcn", "resampler": "mult", "clustering": "on", "normalize": "on", "clusterEvery": "1", "cap": "none",
           "split": "one", "metric": "ess2", "nSteps": "none", "nMaxSteps": "none", "evaluation": "scalar", "bounds": "none",
           "pool": "none", "saveEvery": "none", "nParticles": "small", "nDim": "two"}


def concretize(c):
    import numpy as _np

    n_dim = {"two": 2, "three": 3, "zero": 0, "neg": -1, "float": 2.5, "intfloat": 2.0, "npint": _np.int64(2)}[c["nDim"]]
    nd = n_dim if isinstance(n_dim, int) and n_dim > 0 else 2
    conf = dict(
        n_dim=n_dim,
        sample={"tpcn": "tpcn", "rwm": "rwm", "unknown": "hmc", "fragment": "rw", "empty": "", "upper": "TPCN"}[c["kernel"]],
        resample={"mult": "mult", "syst": "syst", "unknown": "strat", "fragment": "sys", "empty": "", "upper": "SYST"}[c["resampler"]],
        clustering=c["clustering"] == "on", normalize=c["normalize"] == "on", cluster_every=int(c["clusterEvery"]),
        n_max_clusters=None if c["cap"] == "none" else int(c["cap"]),
        split_threshold={"half": 0.5, "one": 1.0, "two": 2.0}[c["split"]],
        n_steps=None if c["nSteps"] == "none" else int(c["nSteps"]),
        n_max_steps=None if c["nMaxSteps"] == "none" else int(c["nMaxSteps"]),
        n_particles={"small": 8, "default": None, "zero": 0, "neg": -4, "float": 8.5, "intfloat": 8.0, "npint": _np.int64(8)}[c["nParticles"]],
    )
    conf.update({"ess1": dict(ess_ratio=1.0), "ess2": dict(ess_ratio=2.0), "vvsmall": dict(volume_variation=0.2), "vvbig": dict(volume_variation=5.0),
                 "ess0": dict(ess_ratio=0.0), "essneg": dict(ess_ratio=-1.0), "vv0": dict(volume_variation=0.0), "vvneg": dict(volume_variation=-0.5),
                 "ess0vv": dict(ess_ratio=0.0, volume_variation=0.25), "essnegvv": dict(ess_ratio=-1.0, volume_variation=0.25)}[c["metric"]])
    conf["evaluation"] = c["evaluation"]
    conf.update({"none": {}, "periodic": dict(periodic=[0]), "reflective": dict(reflective=[1]), "both": dict(periodic=[0], reflective=[1]), "emptylists": dict(periodic=[], reflective=[]),
                 "overlap": dict(periodic=[0], reflective=[0]), "outofrange": dict(periodic=[nd]), "negative": dict(reflective=[-1]),
                 "nonint": dict(periodic=[0.5])}[c["bounds"]])
    conf["pool"] = {"none": None, "one": 1, "two": 2, "like": "perm"}[c["pool"]]
    save_every = None if c["saveEvery"] == "none" else int(c["saveEvery"])
    return conf, save_every


def covering_array(strength, seed, exclude=None):
    """Greedy t-wise covering array of the valid product. Returns rows (dicts)."""
    rnd = random.Random(seed)
    fs = sorted(DOMAIN)
    dom = {f: [v for v in DOMAIN[f] if not (exclude and (f, v) in exclude)] for f in fs}
    need = set()
    for combo in itertools.combinations(fs, strength):
        for vals in itertools.product(*[dom[f] for f in combo]):
            need.add(tuple(zip(combo, vals)))
    total = len(need)
    rows = []
    while need:
        best, best_gain = None, -1
        seedt = rnd.choice(sorted(need))
        for _ in range(40):
            row = {f: rnd.choice(dom[f]) for f in fs}
            row.update(dict(seedt))
            gain = sum(1 for combo in itertools.combinations(fs, strength) if tuple((f, row[f]) for f in combo) in need)
            if gain > best_gain:
                best, best_gain = row, gain
        rows.append(best)
        for combo in itertools.combinations(fs, strength):
            need.discard(tuple((f, best[f]) for f in combo))
    return rows, total


def _run_one(job):
    core.import_repo()
    import warnings

    warnings.filterwarnings("ignore")
    import numpy as np
    from vlib import drivers, psrun as ps

    c = job["cfg"]
    conf, save_every = concretize(c)
    out_dir = tempfile.mkdtemp(prefix="c18_", dir=job["scratch"])
    valid_shape = isinstance(conf["n_dim"], int) and conf["n_dim"] > 0
    rec = ps.Recorder(conf["n_dim"] if valid_shape else 2, have_blobs=(conf["evaluation"] == "blobs"), label=job["label"])
    real_pool = isinstance(conf["pool"], int) and conf["pool"] > 1
    np.random.seed(job["seed"])
    res = {"cfg": c, "evals": 0, "outcome": None, "trace": None, "error": None}
    try:
        if conf["evaluation"] == "vectorblobs":
            from tempest import Sampler

            tgt = drivers.Target(2)
            s = Sampler(prior_transform=rec.wrap_prior(tgt.prior_transform), log_likelihood=rec.wrap_like(tgt.logl_vector, vectorize=True),
                        n_dim=2, n_particles=8, vectorize=True, blobs_dtype="float")
        else:
            cc = dict(conf)
            if not valid_shape:
                # the Target needs a usable dimension to exist at all; the Sampler gets the invalid one
                from tempest import Sampler

                tgt = drivers.Target(2)
                s = Sampler(prior_transform=rec.wrap_prior(tgt.prior_transform), log_likelihood=rec.wrap_like(tgt.logl_scalar), n_dim=conf["n_dim"], n_particles=conf["n_particles"])
            else:
                s, _ = drivers.build_sampler(cc, None if real_pool else rec, out_dir=out_dir)
    except Exception as ex:
        res["outcome"] = "rejected"
        res["error"] = repr(ex)[:200]
        res["evals"] = rec.evals
        shutil.rmtree(out_dir, ignore_errors=True)
        return res
    valid = all(c[f] in DOMAIN[f] for f in DOMAIN)
    if any(c[f] in UNSPECIFIED.get(f, ()) for f in DOMAIN):
        # accepted at construction: it must then run (no trace: the abstract option value is outside the system spec's lattice)
        try:
            s.run(n_total=job["n_total"], progress=False)
            res["outcome"] = "done"
        except Exception as ex:
            res["outcome"] = "raised"
            res["error"] = repr(ex)[:200]
        res["evals"] = rec.evals
        shutil.rmtree(out_dir, ignore_errors=True)
        return res
    if not valid:
        res["outcome"] = "constructed"
        res["evals"] = rec.evals
        shutil.rmtree(out_dir, ignore_errors=True)
        return res
    rec.attach(s)
    _, _, tr = drivers.record_run(conf, n_total=job["n_total"], seed=job["seed"], label=job["label"], save_every=save_every,
                                  out_dir=out_dir, rec=rec, sampler=s)
    raised = [e for e in tr["events"] if e["ev"] == "Raised"]
    res["outcome"] = "raised" if raised else "done"
    res["error"] = raised[0]["what"] if raised else None
    tr["meta"]["untracked"] = bool(real_pool)
    res["trace"] = tr
    res["evals"] = rec.evals
    shutil.rmtree(out_dir, ignore_errors=True)
    return res


OBS_CFG = "INIT Init\nNEXT Next\nINVARIANT TypeOK\nINVARIANT CoverageOK\nCHECK_DEADLOCK FALSE\n"


def main():
    ck = core.Check("C18", "model_checking")
    if ck.args.replay:
        from vlib import sysrun as _sr

        _sr.replay(ck, "C18", ck.args.replay)
    import concurrent.futures as cf
    import multiprocessing as mp

    strength = 2 if ck.tier == "quick" else 3
    # real multiprocess pools are slow to spawn: in the quick tier pool="two" appears only in the pairwise rows it is needed for
    rows, total_tuples = covering_array(strength, ck.seed + 18)
    jobs = []
    scratch = tempfile.mkdtemp(prefix="c18scratch_")
    for i, r in enumerate(rows):
        jobs.append({"cfg": r, "seed": 1800 + i + 1000 * ck.seed, "label": "valid#%d" % i, "n_total": 24, "scratch": scratch})
    rnd = random.Random(ck.seed + 181)
    for f, vals in list(INVALID.items()) + list(UNSPECIFIED.items()):
        for v in vals:
            # the invalid value with every other option at its default, and substituted into a few rows of the valid array
            # (an invalid value must be rejected whatever the other, valid, options are)
            for base in [DEFAULT] + rnd.sample(rows, min(3 if ck.tier == "quick" else 12, len(rows))):
                c = dict(base)
                c[f] = v
                if v in UNSPECIFIED.get(f, ()) and base is not DEFAULT:
                    continue
                jobs.append({"cfg": c, "seed": 1, "label": f"invalid:{f}={v}", "n_total": 24, "scratch": scratch})
    results = [None] * len(jobs)
    with cf.ProcessPoolExecutor(max_workers=sysrun.PROCS, mp_context=mp.get_context("fork")) as ex:
        futs = {ex.submit(_run_one, j): i for i, j in enumerate(jobs)}
        for fu in cf.as_completed(futs):
            results[futs[fu]] = fu.result()
    shutil.rmtree(scratch, ignore_errors=True)
    # measured covering strength
    covered = set()
    fs = sorted(DOMAIN)
    for r in results:
        c = r["cfg"]
        if all(c[f] in DOMAIN[f] for f in DOMAIN):
            for combo in itertools.combinations(fs, strength):
                covered.add(tuple((f, c[f]) for f in combo))
    # (a) observed outcomes vs Valid, and coverage obligations, decided by TLC on Config.tla
    work = tlc.scratch_dir("vcfg_")
    path = os.path.join(work, "obs.json")
    with open(path, "w") as f:
        json.dump([{"cfg": r["cfg"], "outcome": r["outcome"], "evals": int(r["evals"])} for r in results], f)
    try:
        res = tlc.run_tlc("Config", OBS_CFG, workers=1, env={"TRACE_FILE": path})
    finally:
        shutil.rmtree(work, ignore_errors=True)
    if res.status != "ok":
        raise tlc.TLCFailure("Config.tla: " + res.violated + " (coverage obligation not met by the generated array?)\n" + res.stdout[-1500:])
    if res.distinct != len(results) + 1:
        raise tlc.TLCFailure("Config.tla consumed %d of %d observations" % (res.distinct - 1, len(results)))
    for ln in res.stdout.splitlines():
        if ln.startswith('<<"FAIL"'):
            v = tla.parse_value(ln)
            r = results[v[1] - 1]
            for cl in sorted(v[2]):
                bad = [f"{f}={r['cfg'][f]}" for f in DOMAIN if r["cfg"][f] not in DOMAIN[f]]
                key = f"config:{cl}:" + (",".join(bad) if bad else "valid")
                ck.violation(key, f"{cl}: configuration {r['cfg']} -> outcome {r['outcome']} (error {r['error']}, evals {r['evals']})",
                             {"cfg": r["cfg"], "concrete": repr(concretize(r["cfg"])), "outcome": r["outcome"], "error": r["error"], "evals": r["evals"]})
    cfg_states = res.distinct
    res.cleanup()
    # (b) full traces of the valid runs
    traces = [r["trace"] for r in results if r["trace"] is not None]
    # deterministic probe of the recorded finding "degenerate cluster -> singular scale matrix in the Student-t fit" (a VALID
    # configuration that does not run to completion; see known_findings.json): the same run C14 uses
    probe = sysrun.run_jobs([{"conf": dict(sample="rwm", clustering=True, n_particles=16, target="edge", support=0.5), "seed": 1001, "n_total": 32,
                              "label": "probe: degenerate cluster (known finding)"}])
    traces += probe
    fails, st = psrun.validate(traces)
    cnt = sysrun.attribute(ck, "C18", traces, fails)
    ck.sample({"valid_row": rows[0], "concrete": repr(concretize(rows[0]))})
    ck.sample({"invalid_outcomes": [{"cfg_delta": r["error"], "outcome": r["outcome"]} for r in results[len(rows): len(rows) + 4]]})
    n_invalid = len(results) - len(rows)
    ck.finish({
        "states": cfg_states + st["states"],
        "transitions": cfg_states + st["generated"],
        "traces_validated_against_impl": len(results),
        "evaluations": len(results),
        "distinct_nontrivial": len(rows),
        "rule": f"{strength}-wise covering array of the valid option product (distinct valid configurations actually run = non-trivial) plus every one-factor-at-a-time invalid value of the property's list",
        "covering_strength": strength,
        "covering_tuples_total": total_tuples,
        "covering_tuples_covered": len(covered),
        "covering_complete": len(covered) == total_tuples,
        "invalid_configurations": n_invalid,
        "valid_configurations": len(rows),
        "system_events_validated": sum(len(t["events"]) for t in traces),
        "exhaustive": False,
        **{"system_" + k: v for k, v in cnt.items()},
    })


core.main_guard(main)
