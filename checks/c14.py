#!/venv/bin/python
"""C14 - cluster labels and proposal modes stay coherent for every history and cadence.

PSRun.tla: variables clus = [fitted, K] and modes (label each mode was fitted from); clauses
TR_PredictFitted, TR_ModesOK, TR_ModesExist, RS_LabelRange, MB_Labels, MB_ModesOK, RZ_UnfittedPredict
(+ invariant LabelsCoherent on the bounded model; code-shaped variants `rankmodes` and `unfitted` refuted).
Binding A: real runs on 1-3-modal targets over cadence x cap x normalize x kernels.  The label a mode was
fitted from is OBSERVED (rows handed to fit_mvstud are looked up in the labels the clusterer predicted).
"""
import os, sys
sys.path.insert(0, os.path.dirname(os.path.dirname(os.path.abspath(__file__))))
from vlib import core, sysrun  # noqa: E402

FACTORS = {
    "cluster_every": [1, 2, 3, 5],
    "n_max_clusters": [None, 1, 2, 3],
    "normalize": [True, False],
    "sample": ["tpcn", "rwm"],
    "target": ["gauss", "bimodal", "narrow"],
    "resample": ["mult", "syst"],
}


def nontrivial(t):
    for e in t["events"]:
        if e["ev"] == "MutateBegin" and len(e["modes"]) >= 2:
            return (t["meta"]["label"], t["meta"]["seed"])
    return None


def make_scripted(K, ltrim, n_particles, small=0, slots="all"):
    """Scripted clusterer (binding B): K clusters; the trimmed training pool is labelled into `ltrim` only
    (a fitted cluster may attract no trimmed point; with `small` = m the LAST label of ltrim gets exactly m training
    points - a cluster that keeps only a few trimmed particles); resampled particles get labels by `slots`:
    "all" every label of 0..K-1 occurs, "top" every particle in cluster K-1 (lower clusters hold no active particle),
    "gap" only clusters 0 and K-1 occur.
    A SUBCLASS of the real HierarchicalGaussianMixture (every attribute the library may consult exists: min_points, labels_,
    cluster weights, ...); which labelling a predict() call gets is decided by WHO calls (the resampling step or anything else),
    not by counting calls."""
    import sys as _sys

    import numpy as np
    from tempest.cluster import HierarchicalGaussianMixture

    class Scripted(HierarchicalGaussianMixture):
        def __init__(self):
            super().__init__()
            self.K, self.ltrim, self.np_, self.small, self.slots = K, list(ltrim), n_particles, small, slots
            self.n_clusters_ = 0
            self.calls = 0

        def _train_labels(self, X):
            # a function of the point (duplicates get the same label), balanced over ltrim
            rows = [np.ascontiguousarray(x, dtype=float).tobytes() for x in X]
            uniq = sorted(set(rows))
            rank = {r: k for k, r in enumerate(uniq)}
            if self.small and len(self.ltrim) >= 2:
                # the last label gets exactly `small` distinct points, the others share the rest
                rest = self.ltrim[:-1]
                lab = {r: (self.ltrim[-1] if k < self.small else rest[k % len(rest)]) for r, k in rank.items()}
                return np.array([lab[r] for r in rows])
            return np.array([self.ltrim[rank[r] % len(self.ltrim)] for r in rows])

        def fit(self, X, w=None, *a, **k):
            self.n_clusters_ = self.K
            self.labels_ = self._train_labels(np.asarray(X))
            self.cluster_weights_ = [1.0 / self.K] * self.K
            return self

        def predict(self, X):
            self.calls += 1
            n = len(X)
            caller = _sys._getframe(1).f_globals.get("__name__", "")
            if caller.endswith("resample"):  # the Resampler's call
                if self.slots == "top":
                    return np.full(n, self.K - 1)
                if self.slots == "gap":
                    return np.where(np.arange(n) % 2 == 0, 0, self.K - 1)
                return np.arange(n) % self.K
            return self._train_labels(np.asarray(X))

    return Scripted()


def _scripted_job(job):
    core.import_repo()
    import warnings

    warnings.filterwarnings("ignore")
    import numpy as np
    from vlib import drivers, psrun

    K, ltrim, every = job["K"], job["ltrim"], job["every"]
    conf = dict(clustering=True, n_particles=12, cluster_every=every, target="bimodal", sample=job["kernel"])
    rec = psrun.Recorder(2, label=job["label"])
    rec.check_labels_from_model = False   # the scripted clusterer deliberately labels the Resampler's call differently
    np.random.seed(job["seed"])
    s, c = drivers.build_sampler(conf, rec)
    fake = make_scripted(K, ltrim, 12, small=job.get("small", 0), slots=job.get("slots", "all"))
    s._core.trainer.clusterer = fake
    s._core.resampler.clusterer = fake
    rec.attach(s)
    _, _, tr = drivers.record_run(conf, n_total=24, seed=job["seed"], label=job["label"], rec=rec, sampler=s)
    tr["meta"]["scripted"] = dict(K=K, ltrim=list(ltrim), every=every, small=job.get("small", 0), slots=job.get("slots", "all"))
    return tr


def scripted_part(ck):
    """TLC's label scenarios (K, Ltrim) of MC_PSRun's `rankmodes` variant replayed through the real Trainer.run /
    Resampler.run / Mutator.run with a scripted clusterer."""
    import concurrent.futures as cf
    import itertools
    import multiprocessing as mp
    from vlib import psrun

    jobs = []
    for K in (2, 3):
        for r in range(1, K + 1):
            for ltrim in itertools.combinations(range(K), r):
                for every, kern in ((1, "tpcn"), (2, "rwm")):
                    jobs.append(dict(K=K, ltrim=ltrim, every=every, kernel=kern, seed=140 + len(jobs) + 1000 * ck.seed,
                                     label=f"scripted K={K} Ltrim={list(ltrim)} every={every} {kern}"))
    # clusters that keep only a few trimmed training particles (2d-1 = 3 distinct points) and active sets whose labels have gaps
    for K, ltrim, small, slots in ((2, (0, 1), 3, "all"), (3, (0, 1, 2), 3, "all"), (2, (0, 1), 0, "top"), (3, (0, 1, 2), 0, "gap"), (3, (0, 2), 0, "gap"), (3, (0, 1, 2), 3, "top")):
        for every, kern in ((1, "tpcn"), (2, "rwm")):
            jobs.append(dict(K=K, ltrim=ltrim, every=every, kernel=kern, small=small, slots=slots, seed=190 + len(jobs) + 1000 * ck.seed,
                             label=f"scripted K={K} Ltrim={list(ltrim)} small={small} slots={slots} every={every} {kern}"))
    with cf.ProcessPoolExecutor(max_workers=sysrun.PROCS, mp_context=mp.get_context("fork")) as ex:
        traces = list(ex.map(_scripted_job, jobs))
    fails, st = psrun.validate(traces)
    inconclusive = []
    for f in fails:
        tr = traces[f["tid"] - 1]
        for cl in f["clauses"]:
            if psrun.CLAUSE_PROPERTY.get(cl) == "C14" or cl in ("NoRaise", "MB_SameSlots"):
                sc = tr["meta"]["scripted"]
                ev = tr["events"][f["l"] - 1]
                if cl == "NoRaise" and sc.get("small") and "LinAlgError" in str(ev.get("what")):
                    # the scripted 3-point cluster was resampled (by weight, with replacement) into fewer than d+1 distinct
                    # points: an exactly singular scale matrix. The scenario's antecedent (a fittable tiny cluster) failed;
                    # inconclusive, counted, not a verdict (see DESIGN.md section 8.6)
                    inconclusive.append(tr["meta"]["label"])
                    continue
                unpop = len(sc["ltrim"]) < sc["K"]
                ck.violation(f"scripted:{cl}:" + ("unpopulated-label" if unpop else "all-populated"),
                             f"{cl} fails at event {f['l']} ({f['ev']}) with a scripted clusterer: K={sc['K']}, trimmed pool predicted into {sc['ltrim']} only, resampled particles into all labels",
                             {"scenario": sc, "event": tr["events"][f["l"] - 1], "label": tr["meta"]["label"]})
    nontriv = sum(1 for t in traces if len(t["meta"]["scripted"]["ltrim"]) < t["meta"]["scripted"]["K"])
    begins = sum(1 for t in traces for e in t["events"] if e["ev"] == "MutateBegin")
    if begins == 0 and not ck.violations:
        raise RuntimeError("vacuous scripted scenarios: kernel never reached")
    ck.sample({"scripted": traces[1]["meta"]["scripted"], "MutateBegin": next((e for e in traces[1]["events"] if e["ev"] == "MutateBegin"), None)})
    return {"scripted_scenarios": len(traces), "scripted_unpopulated_label_scenarios": nontriv, "scripted_mutate_begins": begins, "scripted_states": st["states"],
            "scripted_inconclusive_singular_tiny_cluster": len(inconclusive)}


def _big_batch_job(job):
    """More than 4096 particles (and a trimmed training pool of more than 10^4 points): the label the clusterer gives a particle is a
    function of the PARTICLE - not of the batch it is predicted in, its position in it, or the batch's length.  Every predict() call
    the library makes during a real run is re-asked in reversed order and in pieces of 1000 rows (the same fitted model, the same
    rows): a particle labelled differently there carries a label that is not the cluster it belongs to."""
    core.import_repo()
    import warnings

    warnings.filterwarnings("ignore")
    import numpy as np
    from vlib import drivers
    try:
        from tempest.cluster import HierarchicalGaussianMixture as HGM
        orig = HGM.predict
    except Exception as ex:
        return {"skipped": "binding lost: " + repr(ex), "bad": [], "calls": 0, "multi": 0}
    out = {"skipped": None, "bad": [], "calls": 0, "multi": 0, "busy": False}

    def checked(self, X):
        L = np.asarray(orig(self, X))
        if out["busy"]:
            return L
        out["busy"] = True
        try:
            X_ = np.asarray(X)
            n = len(X_)
            out["calls"] += 1
            if n > 1 and len(set(L.tolist())) >= 2:
                out["multi"] += 1
            if n > 1:
                rev = np.asarray(orig(self, X_[::-1].copy()))[::-1]
                pcs = np.concatenate([np.asarray(orig(self, X_[j:j + 1000].copy())) for j in range(0, n, 1000)])
                for how, other in (("reversed batch", rev), ("pieces of 1000 rows", pcs)):
                    d = np.nonzero(other != L)[0]
                    if len(d) and len(out["bad"]) < 4:
                        out["bad"].append(f"predict() on a batch of {n} rows: {len(d)} particles (first at row {int(d[0])}) get another label when the same rows are predicted as {how}")
        finally:
            out["busy"] = False
        return L

    HGM.predict = checked
    try:
        np.random.seed(job["seed"])
        s, _ = drivers.build_sampler(dict(clustering=True, n_particles=job["n_particles"], target="bimodal", sample=job["kernel"], evaluation="vector", n_steps=2, n_max_steps=2), None)
        s.run(n_total=job["n_total"], progress=False)
    except Exception as ex:
        out["raised"] = repr(ex)
    finally:
        HGM.predict = orig
    del out["busy"]
    return out


def big_batch_part(ck):
    from vlib import procs

    jobs = [dict(n_particles=4200 + 37 * i, n_total=3 * 4200, kernel=k, seed=1490 + i + 10 * ck.seed) for i, k in enumerate(["rwm", "tpcn"][: (1 if ck.tier == "quick" else 2)])]
    res = procs.run(_big_batch_job, jobs, procs=len(jobs), timeout=900)
    calls = multi = 0
    for j, (st, r) in zip(jobs, res):
        if st != "ok":
            raise RuntimeError("big-batch worker failed: " + str(r)[:400])
        calls += r["calls"]
        multi += r["multi"]
        for b in r["bad"][:1]:
            ck.violation("big-batch:label-is-a-function-of-the-particle", f"{b} ({j})", {"job": j, "all": r["bad"]})
    return {"big_batch_predict_calls_checked": calls, "big_batch_predict_calls_with_two_or_more_labels": multi}


def main():
    ck = core.Check("C14", "model_checking")
    if ck.args.replay:
        from vlib import sysrun as _sr

        _sr.replay(ck, "C14", ck.args.replay)
    cfgs = [dict(clustering="TRUE", every=2, metric="ess", cap=0), dict(clustering="TRUE", every=3, metric="ess", cap=2)]
    cov = sysrun.model_part(ck, "C14", variants=["rankmodes", "unfitted"], tier=ck.tier, configs=cfgs)
    limit = 30 if ck.tier == "quick" else 256
    jobs = sysrun.product_jobs(FACTORS, {"n_particles": 16, "clustering": True}, ck.seed + 14, limit=limit, n_total=48)
    # deterministic probe of the known finding "degenerate cluster -> singular scale matrix" (see known_findings.json)
    jobs.append({"conf": dict(sample="rwm", clustering=True, n_particles=16, target="edge", support=0.5), "seed": 1001, "n_total": 32,
                 "label": "probe: degenerate cluster (known finding)"})
    # adjacent clusters (a curved ridge cut into neighbouring pieces) with many particles near the cuts, several cadences
    for i, (every, npart, kern) in enumerate([(5, 128, "tpcn"), (3, 96, "rwm")] + ([] if ck.tier == "quick" else [(2, 128, "tpcn"), (7, 192, "tpcn"), (4, 96, "rwm")])):
        jobs.append({"conf": dict(sample=kern, clustering=True, n_particles=npart, target="banana", cluster_every=every), "seed": 1400 + i + ck.seed,
                     "n_total": 2 * npart, "label": f"banana every={every} n={npart} {kern}"})
    # blobs together with clustering (several labels alive): the labels travel with the records through resampling
    for i, kern in enumerate(("tpcn", "rwm")):
        jobs.append({"conf": dict(sample=kern, clustering=True, n_particles=16, target="bimodal", evaluation="blobs", cluster_every=1 + i), "seed": 1450 + i + ck.seed,
                     "n_total": 48, "label": f"blobs + clustering {kern}"})
    sc, traces = sysrun.system_part(ck, "C14", jobs, nontrivial)
    cov.update(sc)
    cov.update(sysrun.selftest(traces[0]))
    sp = scripted_part(ck)
    cov.update(sp)
    cov.update(big_batch_part(ck))
    # "... and after resuming from a checkpoint": runs with save_every, every (<= 4) checkpoint resumed in a fresh sampler
    # (whose clusterer is unfitted), whole resumed traces validated
    from vlib import procs, psrun

    rj = [dict(conf=c, seed=145 + i + 100 * ck.seed, label=f"c14resume#{i}", n_total=40, save_every=1, max_ckpt=5, vary_n_total=False)
          for i, c in enumerate([dict(clustering=True, cluster_every=3, target="bimodal", n_particles=16), dict(clustering=True, cluster_every=2, normalize=False, n_particles=16),
                                 dict(clustering=True, cluster_every=5, n_max_clusters=2, target="narrow", n_particles=16, sample="rwm")])]
    rres = procs.run(sysrun.resume_job, rj, procs=len(rj), timeout=600)
    rtraces = []
    for st_, r_ in rres:
        if st_ != "ok":
            raise RuntimeError("resume worker failed: " + str(r_)[:300])
        rtraces += r_
    rfails, rst = psrun.validate(rtraces)
    sysrun.attribute(ck, "C14", rtraces, rfails)
    cov["resumed_runs_validated"] = sum(1 for t in rtraces if t["meta"].get("resumed"))
    cov.update({
        "traces_validated_against_impl": sc["system_runs"] + sp["scripted_scenarios"],
        "evaluations": sc["system_events_validated"] + sp["scripted_states"],
        "distinct_nontrivial": sc["system_nontrivial"] + sp["scripted_unpopulated_label_scenarios"],
        "rule": "recorded runs: non-trivial when the kernel received at least two proposal modes in some iteration; scripted scenarios (K, Ltrim): non-trivial when a fitted cluster attracts no trimmed training point; every Train / Resample / MutateBegin event validated by TLC",
        "exhaustive": False,
    })
    ck.finish(cov)


core.main_guard(main)
