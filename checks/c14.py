#!/venv/bin/python
"""C14 - cluster labels and proposal modes stay coherent for every history and cadence.

PSRun.tla: variables clus = [fitted, K] and modes (label each mode was fitted from); clauses
TR_PredictFitted, TR_ModesOK, TR_ModesExist, RS_LabelRange, MB_Labels, MB_ModesOK, RZ_UnfittedPredict
(+ invariant LabelsCoherent on the bounded model; code-shaped variants `rankmodes` and `unfitted` refuted).
Binding A: real runs on 1-3-modal targets over cadence x cap x normalize x kernels.  The label a mode was
fitted from is OBSERVED (rows handed to fit_mvstud are looked up in the labels the clusterer predicted).
"""
import os, sys
sys.path.insert(0, os.path.dirname(os.path.dirname(os.path.abspath(__file__))))
from vlib import core, sysrun  # noqa: E402

FACTORS = {
    "cluster_every": [1, 2, 3, 5],
    "n_max_clusters": [None, 1, 2, 3],
    "normalize": [True, False],
    "sample": ["tpcn", "rwm"],
    "target": ["gauss", "bimodal"],
    "resample": ["mult", "syst"],
}


def nontrivial(t):
    for e in t["events"]:
        if e["ev"] == "MutateBegin" and len(e["modes"]) >= 2:
            return (t["meta"]["label"], t["meta"]["seed"])
    return None


def main():
    ck = core.Check("C14", "model_checking")
    cfgs = [dict(clustering="TRUE", every=2, metric="ess", cap=0), dict(clustering="TRUE", every=3, metric="ess", cap=2)]
    cov = sysrun.model_part(ck, "C14", variants=["rankmodes", "unfitted"], tier=ck.tier, configs=cfgs)
    limit = 40 if ck.tier == "quick" else 256
    jobs = sysrun.product_jobs(FACTORS, {"n_particles": 16, "clustering": True}, ck.seed + 14, limit=limit, n_total=48)
    sc, traces = sysrun.system_part(ck, "C14", jobs, nontrivial)
    cov.update(sc)
    cov.update(sysrun.selftest(traces[0]))
    cov.update({
        "traces_validated_against_impl": sc["system_runs"],
        "evaluations": sc["system_events_validated"],
        "distinct_nontrivial": sc["system_nontrivial"],
        "rule": "a run is non-trivial when the kernel received at least two proposal modes in some iteration; every Train / Resample / MutateBegin event validated by TLC",
        "exhaustive": False,
    })
    ck.finish(cov)


core.main_guard(main)
