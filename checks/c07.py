#!/venv/bin/python
"""C07 - every stored or returned particle is a coherent (u, x, logL, blob) record.

PSRun.tla: particles are records of provenance ids; clauses RS_WholeCopies, MP_Coherent, MB_SameSlots,
SW_PropCoherent, SW_Update, ME_Slots, CM_Coherent (+ invariants HistCoherent / CurCoherent on the bounded
model, code-shaped variant `maskfields` refuted).  Binding A: real runs over the option lattice with the
user's prior_transform / log_likelihood wrapped to register provenance; every event of every run is
validated by TLC against PSRunTrace.tla.
"""
import os, sys
sys.path.insert(0, os.path.dirname(os.path.dirname(os.path.abspath(__file__))))
from vlib import core, sysrun  # noqa: E402

FACTORS = {
    "sample": ["tpcn", "rwm"],
    "resample": ["mult", "syst"],
    "clustering": [True, False],
    "evaluation": ["scalar", "vector", "blobs", "vector_reuse", "blobs_nodtype", "blobs2"],
    "bounds": [{}, {"periodic": [0]}, {"reflective": [1]}, {"periodic": [1], "reflective": [0]}],
    "metric": [{}, {"volume_variation": 0.5}],
}


def nontrivial(t):
    for e in t["events"]:
        if e["ev"] == "Sweep" and 0 < sum(e["mask"]) < len(e["mask"]):
            return (t["meta"]["label"], t["meta"]["seed"])
    return None


def main():
    ck = core.Check("C07", "model_checking")
    if ck.args.replay:
        from vlib import sysrun as _sr

        _sr.replay(ck, "C07", ck.args.replay)
    cov = sysrun.model_part(ck, "C07", variants=["maskfields", "keepinf"], tier=ck.tier)
    limit = 48 if ck.tier == "quick" else None
    jobs = sysrun.product_jobs(FACTORS, {"n_particles": 8}, ck.seed + 7, limit=limit, flags=[(True, True, True, True), (False, True, True, False)])
    # zero-likelihood region + blobs: the joint replacement of -inf prior draws
    jobs += sysrun.product_jobs({"evaluation": ["blobs", "scalar", "vector"], "sample": ["tpcn", "rwm"]}, {"n_particles": 16, "support": 0.5, "ess_ratio": 3.0, "clustering": False},
                                ck.seed + 70, flags=[(True, True, True, True)])
    if ck.tier == "thorough":
        jobs += sysrun.product_jobs(FACTORS, {"n_particles": 6, "n_dim": 3, "target": "bimodal"}, ck.seed + 77, limit=96, n_total=48)
        jobs += sysrun.product_jobs(FACTORS, {"n_particles": 8, "support": 0.5, "ess_ratio": 3.0}, ck.seed + 777, limit=96)
    for k, j in enumerate(jobs):
        if k % 4 == 0:
            j["manual_iters"] = 2   # the caller continues with sample() after run() returned
    # run() called a second time on the same sampler (PSRun!RunAgain): every record stored or returned afterwards is coherent too
    for i, c in enumerate([dict(evaluation="blobs", clustering=False), dict(evaluation="blobs", clustering=True, sample="rwm"), dict(evaluation="vector", support=0.5, ess_ratio=3.0, n_particles=16)]):
        jobs.append({"conf": dict({"n_particles": 8}, **c), "seed": 770 + i + ck.seed, "label": f"run-again#{i}", "n_total": 24, "rerun": 40,
                     "flags": [(True, True, True, True), (False, True, True, False)]})
    sc, traces = sysrun.system_part(ck, "C07", jobs, nontrivial)
    cov.update(sc)
    cov.update(sysrun.selftest(next(t for t in traces if nontrivial(t))))
    cov.update({
        "traces_validated_against_impl": sc["system_runs"],
        "evaluations": sc["system_events_validated"],
        "distinct_nontrivial": sc["system_nontrivial"],
        "rule": "one evaluation = one recorded event validated by TLC; a run is non-trivial when some MCMC sweep accepted a proper non-empty subset of the walkers (the joint masked update is exercised); runs drawn from the product kernel x resampler x clustering x {scalar,vector,blobs} x boundary types x metric mode",
        "exhaustive": ck.tier == "thorough",
    })
    ck.assumptions += ["test likelihoods are injective on the points drawn (distinct points have distinct log-likelihood / blob values), so a value identifies the call that produced it",
                       "hooks in /repo (TEMPEST_VERIF=1) are placed after the state change they report"]
    ck.finish(cov)


core.main_guard(main)
