#!/venv/bin/python
"""C17 - accessors never alias internal state; committed history is append-only.

component_part (binding B, StateManager level)
    specs/StateHeap.tla models StateManager as an object heap (array cells with identity + content, list
    cells, the cached results dict) with one action per public method, in the intended semantics
    (Impl = FALSE) and in the code-shaped semantics (Impl = TRUE).  TLC
      * checks NoAlias / CacheCoherent / Stable / AppendOnly / OnePerCommit exhaustively on the intended
        semantics (must hold) and on the code-shaped semantics (yields the shortest counterexamples);
      * enumerates every operation sequence up to a bound (history variable `path`) and random deeper
        behaviours (-simulate); every one of them is executed on a real StateManager.  After every step the
        observed sharing relation (identity / numpy.shares_memory between everything ever handed out or in
        and everything reachable from _current, _history, _results_dict) is compared with the relation the
        intended semantics predicts (only copy=False opt-in arrays are shared), the observed content view
        is compared with the spec's View, everything the accessors returned is overwritten and the
        accessors are read again.
system_part (binding A, Sampler level: scribbling between the iterations of real runs) is built
    separately and plugs into main() below.
"""
import contextlib
import io
import multiprocessing as mp
import os
import re
import shutil
import sys
import tempfile
import threading

sys.path.insert(0, os.path.dirname(os.path.dirname(os.path.abspath(__file__))))
from vlib import core, tla, tlc  # noqa: E402

CFG = """INIT Init
NEXT Next
CONSTANTS
  Impl = {impl}
  SeededStrict = {seeded}
  SeededRagged = {seeded_ragged}
  MaxC = 22
  MaxL = 6
  MaxCommits = 2
  Tags = {tags}
  MaxOps = {maxops}
  Record = {record}
  Getters = {getters}
  Labels = {labels}
  Populated = {populated}
{props}
CHECK_DEADLOCK FALSE
"""
ALL_PROPS = ["INVARIANT TypeOK", "INVARIANT NoAlias", "INVARIANT CacheCoherent", "PROPERTY Stable",
             "PROPERTY AppendOnly", "PROPERTY OnePerCommit", "INVARIANT AlignedHistory", "PROPERTY RejectedAppendsNothing"]
ACTIONS = ["GetCurrent", "GetHistory", "GetHistoryRagged", "UpdateCurrentResized", "GetHistoryIdx", "GetLastHistory", "GetHistoryLength", "ComputeLogw",
           "SetCurrent", "SetCurrentHeld", "SetCurrentBeta", "UpdateCurrent", "Commit", "CommitStrict",
           "CommitStrictRejected", "UnsetCurrent", "ComputeResults",
           "ToDict", "MakeDict", "UpdateFromDict", "FromDict", "SaveState", "LoadState",
           "CallerScribble", "CallerScribbleList", "CallerScribbleResDict"]


def B(x):
    return "TRUE" if x else "FALSE"


def cfg(impl, maxops, record, getters, labels, populated=True, tags="{1}", props=None, seeded=False, seeded_ragged=False):
    return CFG.format(impl=B(impl), seeded=B(seeded), seeded_ragged=B(seeded_ragged), tags=tags, maxops=maxops, record=B(record), getters=B(getters),
                      labels=B(labels), populated=B(populated), props="\n".join(ALL_PROPS if props is None else props))


# --------------------------------------------------------------------------- TLC output helpers
_COVL = re.compile(r"^<(\w+) line (\d+), col \d+ to line \d+, col \d+ of module StateHeap(?: \((\d+) \d+ \d+ \d+\))?>: (\d+):(\d+)")


def action_coverage(res):
    """TLC attributes an action whose body is `\\E .. : Step(..)` to Step with the location of the call in
    parentheses; map those back to the enclosing definition by line number."""
    defs = []
    stdout = res.stdout
    with open(os.path.join(res.workdir, "StateHeap.tla")) as f:   # the copy TLC actually ran on
        for n, ln in enumerate(f, 1):
            m = re.match(r"^(\w+)\s*==", ln)
            if m:
                defs.append((n, m.group(1)))
    cov = {}
    for ln in stdout.splitlines():
        m = _COVL.match(ln.strip())
        if not m:
            continue
        name, line = m.group(1), int(m.group(3) or m.group(2))
        if name == "Step" or name not in ACTIONS:
            name = [d for n, d in defs if n <= line][-1]
        d, t = int(m.group(4)), int(m.group(5))
        od, ot = cov.get(name, (0, 0))
        cov[name] = (od + d, ot + t)
    return cov


_LREC = re.compile(r"\[\s*l \|->")


def iter_paths(dump_path, want_len=None, raw=False):
    """Light reader of a TLC dump: yields only the `path` variable (the states are large), parsed, or as
    text when raw (the replay workers parse their own share)."""
    buf = None
    with open(dump_path) as f:
        for ln in f:
            if ln.startswith("/\\ path = "):
                buf = [ln[len("/\\ path = "):].rstrip("\n")]
            elif buf is not None and not ln.startswith((" ", "\t")):
                txt = " ".join(buf)
                buf = None
                if want_len is None or len(_LREC.findall(txt)) == want_len:
                    yield txt if raw else tla.parse_value(txt)
            elif buf is not None:
                buf.append(ln.strip())
        if buf is not None:
            txt = " ".join(buf)
            if want_len is None or len(_LREC.findall(txt)) == want_len:
                yield txt if raw else tla.parse_value(txt)


def sim_paths(res):
    """The `path` of the last state of every behaviour file written by -simulate."""
    d = os.path.join(res.workdir, "sim")
    out = []
    for fn in sorted(os.listdir(d)):
        last = None
        for p in iter_paths(os.path.join(d, fn)):
            last = p
        if last:
            out.append(last)
    return out


# --------------------------------------------------------------------------- replay engine (binding B)
AK = ("x", "logl")
SHAPE = {"x": (3, 2), "logl": (3,)}
SENT = -777.0           # what the caller scribbles
NONE = (-2,)
RAGGED = (-3,)
IMPORT_OPS = ("update_from_dict", "from_dict", "load_state")
SCRIBBLE_OPS = ("scribble", "scribble_list", "scribble_resdict")


class Diverged(Exception):
    """the real object left the intended behaviour: (key, what)"""

    def __init__(self, key, what):
        super().__init__(key)
        self.key, self.what = key, what


class Inconclusive(Exception):
    pass


def rows_of(t):
    return 2 + t        # shape class t of the specification = a batch of 2 + t rows


def decode(a):
    """content of a batch array in the spec's terms: <<t>> (filled with t), <<-10*t>> (a batch of shape
    class t overwritten by the caller), None -> <<-2>>"""
    import numpy as np

    if a is None:
        return NONE
    a = np.asarray(a)
    if a.size == 0:
        return ()
    if a.dtype == object:
        return (-96,)
    v = a.flat[0]
    if not (a == v).all():
        return (-99,)  # partially overwritten: matches nothing in the spec
    if v == SENT:
        return (-10 * (a.shape[0] - 2),)
    return (int(v),) if float(v).is_integer() else (-98,)


def decode_stack(a, key):
    """content of a stacked history image (regular ndarray, or a container of batches): the sequence of
    batch contents"""
    import numpy as np

    if a is None:
        return NONE
    if not (isinstance(a, np.ndarray) and a.dtype == object):
        a = np.asarray(a)
    if a.size == 0:
        return ()
    if key == "beta":
        return tuple(int(v) if v != SENT else -10 for v in a.ravel())   # (-10: overwritten; beta = 1 in every such trace)
    return tuple(c for b in a for c in decode(b))


def walk(obj, out, np):
    """every mutable object reachable from something handed out: ndarrays, lists, dicts - looking INSIDE
    containers recursively (lists, tuples, dicts, object-dtype ndarrays)"""
    if isinstance(obj, np.ndarray):
        out.append(obj)
        if obj.dtype == object:
            for v in obj.ravel():
                walk(v, out, np)
    elif isinstance(obj, dict):
        out.append(obj)
        for v in obj.values():
            walk(v, out, np)
    elif isinstance(obj, (list, tuple)):
        if isinstance(obj, list):
            out.append(obj)
        for v in obj:
            walk(v, out, np)
    return out


def same_stack(st, bats, np):
    """the stacked image (regular or container) holds exactly the per-index batches"""
    try:
        return len(st) == len(bats) and all(np.array_equal(np.asarray(st[i], dtype=float), b) for i, b in enumerate(bats))
    except Exception:
        return False


class Replayer:
    """Executes one spec behaviour (a `path`: sequence of [l, v, sh]) on a real StateManager."""

    def __init__(self, SM, np, tmpdir, impl_mode=False, muted=()):
        self.SM, self.np, self.tmp = SM, np, tmpdir
        self.muted = set(muted)      # accessors already reported: what they return is not overwritten by the observer
        self.impl_mode = impl_mode   # True: only drive + compare views with the code-shaped spec (no verdicts)
        self.sm = None
        self.d = None                # the export dict the caller holds
        self.res = None              # the results dict the caller holds
        self.optin = {}              # key -> the caller's array stored with copy=False
        self.held = []               # [obj, site, optin?] every object handed out or in that is still of interest
        self.alias = []              # (key, what) alias violations, in order
        self.flagged = {}            # id(obj) -> site at which it was first seen to be internal
        self.keep = []               # flagged objects are kept alive so that their id() is never reused
        self.steps = 0
        self.light = 0               # steps of an already verified prefix (driven only)
        self.at = 0
        self.scribbles = 0
        self.nontrivial = False
        self.raises = {}             # accessor -> times it raised ValueError for a ragged history (allowed)
        self.returned_ragged = {}    # accessor -> times it returned something for a ragged history

    # ---- internal object graph
    def internals(self):
        np, sm = self.np, self.sm
        arrs, conts = [], [sm._current, sm._history]
        for v in sm._current.values():
            if isinstance(v, np.ndarray):
                arrs.append(v)
        for lst in sm._history.values():
            conts.append(lst)
            if isinstance(lst, np.ndarray):
                arrs.append(lst)
                continue
            for v in lst:
                if isinstance(v, np.ndarray):
                    arrs.append(v)
        if sm._results_dict is not None:
            conts.append(sm._results_dict)
            for v in sm._results_dict.values():
                if isinstance(v, np.ndarray):
                    arrs.append(v)
        return arrs, conts

    def is_internal(self, obj, arrs, conts):
        np = self.np
        if isinstance(obj, np.ndarray):
            if obj.size == 0:
                return any(obj is a for a in arrs)
            return any(obj is a or (np.may_share_memory(obj, a) and np.shares_memory(obj, a)) for a in arrs)
        if isinstance(obj, (list, dict)):
            return any(obj is c for c in conts)
        return False

    def flatten(self, obj, out):
        return walk(obj, out, self.np)

    def check_alias(self, objs, site, now_op):
        """objs: objects handed out by accessor `site` (or handed in through a copying entry point)."""
        arrs, conts = self.internals()
        for o in objs:
            if id(o) in self.flagged:
                continue
            if self.is_internal(o, arrs, conts):
                self.flagged[id(o)] = site
                self.keep.append(o)
                kind = type(o).__name__
                self.alias.append(("alias:" + site, f"{kind} handed out/in by {site} is reachable from internal state after {now_op}", self.at))

    def recheck_held(self, now_op):
        arrs, conts = self.internals()
        for o, site, optin in self.held:
            if optin or id(o) in self.flagged:
                continue
            if self.is_internal(o, arrs, conts):
                # became internal through a later operation: the operation that took it in is the site
                s = now_op if now_op in IMPORT_OPS else "set_current" if now_op == "set_current_held" else site
                self.flagged[id(o)] = s
                self.keep.append(o)
                self.alias.append(("alias:" + s, f"{type(o).__name__} from {site} is reachable from internal state after {now_op}", self.at))

    # ---- observation through the public getters
    def observe(self, now_op="observe"):
        """-> (view in the spec's terms, [(accessor, returned object)]).  Side-effect free: if the results
        cache did not exist before, it is dropped again afterwards (so the real object stays in the state the
        specification is in); the sharing check of what the getters returned is made before that."""
        np, sm = self.np, self.sm
        got = []
        cache_before = sm._results_dict

        def g(name, v):
            got.append((name, v))
            return v

        allc = g("get_current", sm.get_current())
        cur = {}
        for k in AK:
            v = g("get_current", sm.get_current(k))
            cur[k] = decode(v)
            if decode(allc[k]) != cur[k]:
                raise Diverged("conform:get_current", f"get_current()[{k}] != get_current({k})")
        b = sm.get_current("beta")
        beta = 0 if b is None else int(b)
        hist, ragged = {}, {}
        for k in AK:
            bats = []
            while len(bats) < 16:
                try:
                    bats.append(g("get_history", sm.get_history(k, index=len(bats))))
                except IndexError:
                    break
            n = len(bats)
            hk = tuple(decode(b) for b in bats)
            hist[k] = hk
            ragged[k] = len({np.shape(b) for b in bats}) > 1
            try:
                st = g("get_history", sm.get_history(k))
            except ValueError:
                if not ragged[k]:
                    raise
                self.raises["get_history"] = self.raises.get("get_history", 0) + 1   # undefined for a ragged history
                st = None
            if st is not None:
                if ragged[k]:
                    self.returned_ragged["get_history"] = self.returned_ragged.get("get_history", 0) + 1
                if not same_stack(st, bats, np):
                    raise Diverged("conform:get_history", f"stacked history of {k} differs from per-index history")
            if n:
                fl = g("get_history", sm.get_history(k, flat=True))
                if not (fl.shape == np.concatenate(bats).shape and np.array_equal(fl, np.concatenate(bats))):
                    raise Diverged("conform:get_history", f"flat history of {k} differs from per-index history")
            la = g("get_last_history", sm.get_last_history(k))
            if decode(la) != (hk[-1] if n else NONE):
                raise Diverged("conform:get_last_history", f"get_last_history({k}) is not the last batch")
        bh = g("get_history", sm.get_history("beta"))
        bhist = tuple(int(v) for v in bh)
        if sm.get_history_length() != len(bhist):
            raise Diverged("conform:get_history_length", "length differs from the beta history")
        consistent = all(len(hist[k]) == len(bhist) for k in AK)
        anyragged = any(ragged.values())
        raw = None
        if consistent:
            try:
                r = g("compute_results", sm.compute_results())
            except ValueError:
                if not anyragged:
                    raise
                self.raises["compute_results"] = self.raises.get("compute_results", 0) + 1
                r = None
            lw, _ = g("compute_logw_and_logz", sm.compute_logw_and_logz(1.0))
            if r is None:
                res = {k: RAGGED for k in ("x", "logl", "beta", "logw")}
            else:
                res = {k: decode_stack(r[k], k) for k in ("x", "logl", "beta")}
                if r["logw"] is None:
                    res["logw"] = NONE
                else:
                    same = r["logw"].shape == lw.shape and np.array_equal(r["logw"], lw, equal_nan=True)
                    res["logw"] = tuple(c for h in hist["logl"] for c in h) if same else (-97,)
                if anyragged:
                    # defined by the implementation although the specification leaves it open: the value is
                    # not compared with the spec (RAGGED), but it must be stable under caller overwrites
                    self.returned_ragged["compute_results"] = self.returned_ragged.get("compute_results", 0) + 1
                    raw, res = res, {k: RAGGED for k in ("x", "logl", "beta", "logw")}
        else:
            res = {k: NONE for k in ("x", "logl", "beta", "logw")}
        view = {"cur": cur, "beta": beta, "hist": hist, "bhist": bhist, "res": res, "raw": raw}
        if not self.impl_mode:
            self.check_alias_named(got, now_op)
        if cache_before is None:
            sm._results_dict = None
        return view, got

    def scribble_objs(self, objs):
        np = self.np
        for o in objs:
            if isinstance(o, np.ndarray):
                if o.flags.writeable:
                    o.fill(SENT)
                elif isinstance(o.base, np.ndarray) and o.base.flags.writeable:
                    o.base.fill(SENT)   # a read-only view the caller made of its own buffer
            elif isinstance(o, list):
                del o[:]
            elif isinstance(o, dict):
                o.clear()
            self.scribbles += 1

    def snapshot(self):
        """per-key history lengths, content tags of every batch, get_history_length(), the cache - every real key"""
        np, sm = self.np, self.sm
        c = sm._results_dict
        return {
            "lengths": {kk: len(v) for kk, v in sm._history.items()},
            "tags": {kk: tuple(hash(np.asarray(b).tobytes()) for b in v) for kk, v in sm._history.items()},
            "length": sm.get_history_length(),
            "cache": None if c is None else (id(c), tuple(sorted((kk, hash(np.asarray(v).tobytes())) for kk, v in c.items()))),
        }

    # ---- caller-side construction
    def new(self, k, t):
        a = self.np.full((rows_of(t),) + SHAPE[k][1:], float(t))
        self._newcount = getattr(self, "_newcount", 0) + 1
        if self._newcount % 3 == 0:
            # every third array the caller hands over is a READ-ONLY view of a buffer the caller keeps (and overwrites later,
            # see scribble_objs): "frozen" says nothing about who owns the memory
            v = a.view()
            v.flags.writeable = False
            return v
        return a

    def locate(self, w, k2, i, view=False):
        if w == "cur":
            return self.optin[k2]
        if w == "dcur":
            return self.d["_current"][k2]
        if w == "dhist":
            h = self.d["_history"][k2]
            if isinstance(h, self.np.ndarray) and view:
                return h[i - 1]   # the caller overwrites this batch INSIDE its stacked array
            if isinstance(h, self.np.ndarray):   # a batch taken out of the caller's stacked array: its own array (not a view of the stack)
                if not hasattr(self, "_unstacked"):
                    self._unstacked = {}
                key = (id(h), k2, i)
                if key not in self._unstacked:
                    self._unstacked[key] = self.np.array(h[i - 1])
                return self._unstacked[key]
            return h[i - 1]
        if w == "res":
            return self.res[k2]
        raise core_failure(f"cannot locate {w} {k2} {i}")

    def hold(self, obj, site, optin=False):
        for o in self.flatten(obj, []):
            self.held.append([o, site, optin])

    # ---- one operation; returns (objects returned by an accessor or passed through a copying entry point
    #      that the caller may overwrite right away, accessor name)
    def do(self, l):
        np, sm = self.np, self.sm
        op, k, t, i, cp = l["op"], l["k"], l["t"], l["i"], l["cp"]
        free = []
        if op in ("init", "init_populated"):
            self.sm = sm = self.SM(2)
            # scalars the model does not track but every commit records (a batch per recorded quantity, also for these)
            sm.update_current({"iter": 0, "calls": 0, "ess": 1.0, "acceptance": 0.5, "steps": 1})
            if op == "init_populated":
                sm.update_current({"x": self.new("x", 1), "logl": self.new("logl", 1), "beta": 1.0, "logz": 0.0}, copy=True)
                sm.commit_current_to_history()
        elif op == "get_current":
            free = [sm.get_current(None if k == "ALL" else k)]
        elif op == "get_history":
            free = [sm.get_history(k) if i == 0 else sm.get_history(k, flat=True) if i < 0 else sm.get_history(k, index=i - 1)]
        elif op == "get_history_ragged":
            try:
                free = [sm.get_history(k)]
                self.returned_ragged["get_history"] = self.returned_ragged.get("get_history", 0) + 1
            except ValueError:
                self.raises["get_history"] = self.raises.get("get_history", 0) + 1
        elif op == "get_last_history":
            free = [sm.get_last_history(k)]
        elif op == "get_history_length":
            sm.get_history_length()
        elif op == "compute_logw_and_logz":
            free = [sm.compute_logw_and_logz(1.0)[0]]
        elif op == "set_current" and k == "beta":
            sm.set_current("beta", float(t))
            sm.set_current("logz", 0.0)
        elif op == "set_current":
            a = self.new(k, t)
            sm.set_current(k, a, copy=cp)
            if cp:
                self.optin.pop(k, None)
                free = [a]
            else:
                self.optin[k] = a
                self.hold(a, "set_current(copy=False)", optin=True)
        elif op == "set_current_held":
            a = self.locate(l["w"], l["k2"], i)
            sm.set_current(k, a, copy=cp)
            if cp:
                self.optin.pop(k, None)
            else:
                self.optin[k] = a
                for h in self.held:
                    if h[0] is a:
                        h[2] = True
                self.hold(a, "set_current(copy=False)", optin=True)
        elif op == "update_current":
            dd = {"x": self.new("x", t), "logl": self.new("logl", t), "beta": 1.0, "logz": 0.0}
            if cp and getattr(self, "_newcount", 0) % 2 == 1:
                # scalars held as 0-d numpy arrays (what np.asarray(0.25) or an array reduction gives): arrays like any other -
                # the caller keeps them and overwrites them below
                dd["beta"], dd["logz"] = np.asarray(1.0), np.asarray(0.0)
            sm.update_current(dd, copy=cp)
            for kk in AK:
                if cp:
                    self.optin.pop(kk, None)
                else:
                    self.optin[kk] = dd[kk]
                    self.hold(dd[kk], "update_current(copy=False)", optin=True)
            if cp:
                free = [dd["x"], dd["logl"]] + [v for v in (dd["beta"], dd["logz"]) if isinstance(v, np.ndarray)]
        elif op == "unset_current":
            sm.set_current(k, None)
            if k == "beta":
                sm.set_current("logz", None)
            self.optin.pop(k, None)
        elif op == "commit_strict_rejected":
            # required key None: must raise ValueError and leave histories, their contents and the cache untouched
            snap = self.snapshot()
            try:
                sm.commit_current_to_history(strict=True)
            except ValueError:
                pass
            else:
                raise Diverged("strict:not-rejected", "commit_current_to_history(strict=True) with beta or logl None did not raise ValueError")
            if not self.impl_mode:
                after = self.snapshot()
                for part, key in (("lengths", "appended"), ("tags", "appended"), ("length", "length"), ("cache", "cache")):
                    if snap[part] != after[part]:
                        raise Diverged("rejected-commit:" + key,
                                       f"a rejected strict commit changed {part}: {_short(snap[part])} -> {_short(after[part])}")
        elif op in ("commit", "commit_strict"):
            before = {kk: len(v) for kk, v in sm._history.items()}
            expect = {kk: before[kk] + (1 if sm._current.get(kk) is not None else 0) for kk in before}
            if op == "commit":
                sm.commit_current_to_history()
            else:
                sm.commit_current_to_history(strict=True)
            got_len = {kk: len(v) for kk, v in sm._history.items()}
            if got_len != expect and not self.impl_mode:
                bad = {kk: (before[kk], got_len[kk], expect[kk]) for kk in expect if got_len[kk] != expect[kk]}
                raise Diverged("oneper:commit-count", f"{op} must append exactly one batch per non-None key: (before, after, expected) {bad}")
            for kk, v in sm._history.items():
                if len(v) > before[kk] and isinstance(v[-1], np.ndarray) and isinstance(sm._current.get(kk), np.ndarray) \
                        and np.shares_memory(v[-1], sm._current[kk]):
                    raise Diverged("oneper:commit-shares-current", f"the batch appended for {kk} shares memory with the current array")
        elif op == "compute_results":
            self.res = sm.compute_results()
            free = [self.res]
        elif op == "to_dict":
            self.d = sm.to_dict()
            self.held = [h for h in self.held if h[2]]
            self.hold(self.d, "to_dict")
        elif op == "make_dict":
            n = i
            cur = {kk: None for kk in sm._current}
            cur.update({"x": self.new("x", t), "logl": self.new("logl", t), "beta": 1.0, "logz": 0.0})
            self.d = {"_current": cur, "n_dim": 2,
                      "_history": {"x": [self.new("x", t) for _ in range(n)], "logl": [self.new("logl", t) for _ in range(n)],
                                   "beta": [1.0] * n, "logz": [0.0] * n}}
            self._dictcount = getattr(self, "_dictcount", 0) + 1
            if n >= 1 and self._dictcount % 2 == 0 and getattr(self, "_allow_stack", False):
                # histories handed over as ONE stacked array per quantity (what results() / get_history(key) return) instead of a
                # list of batches: the caller keeps (and later overwrites) those arrays
                self.d["_history"]["x"] = np.stack([np.array(b) for b in self.d["_history"]["x"]])
                self.d["_history"]["logl"] = np.stack([np.array(b) for b in self.d["_history"]["logl"]])
            self.held = [h for h in self.held if h[2]]
            self.hold(self.d, "caller")
        elif op == "update_from_dict":
            sm.update_from_dict(self.d)
            sm.update_current({"iter": 0, "calls": 0, "ess": 1.0, "acceptance": 0.5, "steps": 1})
            self.optin = {}
        elif op == "from_dict":
            self.sm = self.SM.from_dict(self.d)
            self.sm.update_current({"iter": 0, "calls": 0, "ess": 1.0, "acceptance": 0.5, "steps": 1})
            self.optin = {}
        elif op == "save_state":
            with contextlib.redirect_stdout(io.StringIO()):
                sm.save_state(os.path.join(self.tmp, "state.pkl"))
                # a second export that leaves quantities out of the FILE (exclude=...) leaves the object as it is
                snap = self.snapshot()
                cur_before = {kk: (None if v is None else np.array(v, copy=True)) for kk, v in sm._current.items()}
                sm.save_state(os.path.join(self.tmp, "state_partial.pkl"), exclude=["pbar", "pool", "distribute", "blobs", "x", "ess"])
                after = self.snapshot()
                cur_after = sm._current
                same_cur = set(cur_before) == set(cur_after) and all(
                    (cur_before[kk] is None and cur_after[kk] is None) or (cur_before[kk] is not None and cur_after[kk] is not None and np.array_equal(cur_before[kk], np.asarray(cur_after[kk])))
                    for kk in cur_before)
                if not self.impl_mode and (snap["lengths"] != after["lengths"] or snap["tags"] != after["tags"] or not same_cur):
                    raise Diverged("save-exclude:state-changed", f"save_state(exclude=[... 'blobs', 'x', 'ess']) changed the object: history lengths {_short(snap['lengths'])} -> {_short(after['lengths'])}, "
                                   f"current keys {sorted(set(cur_before) ^ set(cur_after))}")
        elif op == "load_state":
            sm.load_state(os.path.join(self.tmp, "state.pkl"))
            self.optin = {}
        elif op == "scribble":
            tgt = self.locate(l["w"], l["k2"], i, view=True)
            if isinstance(tgt, np.ndarray) and not tgt.flags.writeable and isinstance(tgt.base, np.ndarray) and tgt.base.flags.writeable:
                tgt = tgt.base   # the caller's own buffer behind the read-only view it handed over
            tgt.fill(SENT)
            self.scribbles += 1
            self.nontrivial = True
        elif op == "scribble_list":
            if isinstance(self.d["_history"][k], np.ndarray):
                self.d["_history"][k].fill(SENT)   # the caller's stacked array: overwritten in place
            else:
                del self.d["_history"][k][:]
            self.scribbles += 1
            self.nontrivial = True
        elif op == "scribble_resdict":
            self.res[k] = None
            self.scribbles += 1
        else:
            raise RuntimeError(f"unknown op {op}")
        if op == "get_history_ragged":
            op = "get_history"
        site = {"compute_logw_and_logz": "compute_logw_and_logz", "update_current": "update_current", "set_current": "set_current"}.get(op, op)
        return self.flatten(free, []), site

    def site_of_scribbled(self, l):
        """which accessor/entry point made the overwritten object internal"""
        if l["op"] == "scribble":
            o = self.locate(l["w"], l["k2"], l["i"])
            return self.flagged.get(id(o), "unknown")
        if l["op"] == "scribble_list":
            return self.flagged.get(id(self.d["_history"][l["k"]]), "unknown")
        return self.flagged.get(id(self.res), "compute_results")

    def run(self, path, verified=None):
        """verified: set of operation-sequence prefixes that were already executed with every check on and
        found clean (no sharing, no divergence).  Such a prefix is only driven (the checks on it would repeat
        verbatim what was done for the sibling behaviour); every step beyond it gets the full treatment."""
        prev = None
        pkey = ()
        # histories handed over as stacked arrays (make_dict variant) only in behaviours in which the caller does not go on to
        # edit single batches / the list structure of that dictionary (the model describes those edits for LISTS of batches)
        self._allow_stack = not any(e_["l"]["op"] in ("scribble", "scribble_list", "set_current_held") for e_ in path)
        for n, e in enumerate(path):
            self.at = n
            l, want, sh = e["l"], e["v"], e["sh"]
            op = l["op"]
            pkey = pkey + (lkey(l),)
            if verified is not None and not self.impl_mode and n < len(path) - 1 and pkey in verified:
                self.do(l)
                self.steps += 1
                self.light += 1
                prev = want
                continue
            try:
                site_pre = self.site_of_scribbled(l) if op in SCRIBBLE_OPS else None
                free, site = self.do(l)
            except Diverged:
                raise
            except Exception as ex:  # an exception is an outcome no spec action matches
                if self.impl_mode:
                    raise
                raise Diverged("raised:" + op, f"{op} raised {ex!r}")
            self.steps += 1
            if self.impl_mode:
                view, _ = self.observe()
                if norm_view(spec_view(view)) != norm_view(want):
                    raise Diverged("impl-mismatch", f"step {n} {op}: observed {view} / code-shaped spec {want}")
                continue
            # (1) sharing relation: observed vs predicted by the intended semantics
            self.check_alias(free, site, op)
            self.recheck_held(op)
            for k in AK:
                shared = k in self.optin and self.sm._current.get(k) is self.optin[k]
                if (k in sh) and not shared:
                    raise Inconclusive(f"copy=False did not store the caller's array for {k}")
            # (2) the view
            try:
                view, got = self.observe(op)
            except Diverged:
                raise
            except Exception as ex:
                if op in SCRIBBLE_OPS and not l["cp"]:
                    raise Diverged("stable:" + site_pre, f"a getter raised {ex!r} after the caller overwrote an object obtained via {site_pre}")
                raise Diverged("raised:getter-after-" + op, f"a getter raised {ex!r} after {op}")
            if norm_view(spec_view(view)) != norm_view(want):
                what = f"step {n} ({fmt(l)}): accessors return {diff(view, want)}"
                if op in SCRIBBLE_OPS and not l["cp"]:
                    raise Diverged("stable:" + site_pre, what + f" after the caller overwrote an object obtained via {site_pre}")
                self.append_only(prev, view, op, n, l)
                raise Diverged("conform:" + op, what)
            # (3) history is append-only (contents), import / load excepted
            self.append_only(prev, view, op, n, l)
            prev = view
            # (4) overwrite everything the accessors just returned, read again
            objs = self.flatten([o for name, o in got if name not in self.muted], [])
            objs_all = self.flatten([o for _, o in got], [])
            self.scribble_objs(free + objs)
            try:
                view2, got2 = self.observe(op)
            except Diverged:
                raise
            except Exception as ex:
                raise Diverged("stable:" + self.blame(free + objs_all), f"a getter raised {ex!r} after the caller overwrote what the accessors returned after {op}")
            self.scribble_objs(self.flatten([o for name, o in got2 if name not in self.muted], []))
            if norm_view(view2) != norm_view(view):
                raise Diverged("stable:" + self.blame(free + objs_all),
                               f"step {n} ({fmt(l)}): after overwriting the returned objects the accessors return {diff(view2, view)}")
            if verified is not None and not self.alias:
                verified.add(pkey)
        return True

    def append_only(self, prev, view, op, n, l):
        if prev is None or op in IMPORT_OPS:
            return
        for k in AK:
            if view["hist"][k][: len(prev["hist"][k])] != prev["hist"][k]:
                raise Diverged("appendonly:" + op, f"step {n} ({fmt(l)}) altered earlier batches of {k}: {prev['hist'][k]} -> {view['hist'][k]}")
        if view["bhist"][: len(prev["bhist"])] != prev["bhist"]:
            raise Diverged("appendonly:" + op, f"step {n} ({fmt(l)}) altered earlier beta history: {prev['bhist']} -> {view['bhist']}")

    def check_alias_named(self, got, now_op):
        arrs, conts = self.internals()
        for name, o in got:
            for x in self.flatten(o, []):
                if id(x) not in self.flagged and self.is_internal(x, arrs, conts):
                    self.flagged[id(x)] = name
                    self.keep.append(x)
                    self.alias.append(("alias:" + name, f"{type(x).__name__} returned by {name} is reachable from internal state after {now_op}", self.at))

    def blame(self, objs):
        """objs: the objects that were overwritten (flattened BEFORE overwriting - a cleared dict has no members)"""
        names = [self.flagged[id(x)] for x in objs if id(x) in self.flagged]
        return sorted(set(names))[0] if names else "unknown"


def _short(x):
    if isinstance(x, dict):
        return {k: (len(v) if isinstance(v, tuple) else v) for k, v in x.items() if v not in (0, ())}
    return x


def lkey(l):
    return (l["op"], l["k"], l["t"], l["i"], l["cp"], l["w"], l["k2"])


def core_failure(msg):
    return RuntimeError(msg)


def spec_view(view):
    return {k: v for k, v in view.items() if k != "raw"}


def norm_view(v):
    def t(x):
        if isinstance(x, dict):
            return tuple(sorted((k, t(y)) for k, y in x.items()))
        if isinstance(x, (list, tuple)):
            return tuple(t(y) for y in x)
        return x

    return t(v)


def diff(a, b):
    out = []
    for k in ("cur", "hist", "res"):
        for kk in a[k]:
            if norm_view(a[k][kk]) != norm_view(b[k][kk]):
                out.append(f"{k}[{kk}]={a[k][kk]} (expected {b[k][kk]})")
    for k in ("beta", "bhist"):
        if norm_view(a[k]) != norm_view(b[k]):
            out.append(f"{k}={a[k]} (expected {b[k]})")
    if norm_view(a.get("raw")) != norm_view(b.get("raw", a.get("raw"))):
        out.append(f"results of the ragged history={a.get('raw')} (expected {b.get('raw')})")
    return "; ".join(out)


def fmt(l):
    s = l["op"]
    a = [str(l[f]) for f in ("k", "w", "k2") if l[f]]
    if l["op"] in ("set_current", "set_current_held", "update_current"):
        a.append(f"copy={l['cp']}")
    if l["i"]:
        a.append(f"i={l['i']}")
    return s + "(" + ",".join(a) + ")"


OBSERVER_ACCESSORS = ("get_current", "get_history", "get_last_history", "compute_results", "compute_logw_and_logz")


def replay_chunk(paths):
    """worker: replay a list of behaviours on real StateManagers; returns aggregated findings"""
    core.import_repo()
    import numpy as np
    from tempest.state_manager import StateManager

    tmp = tempfile.mkdtemp(prefix="c17_", dir=os.environ.get("VERIF_SCRATCH") or None)
    out = {"viol": {}, "count": {}, "behaviours": 0, "steps": 0, "scribbles": 0, "nontrivial": 0, "inconclusive": 0, "explained_by_alias": 0, "light": 0, "raises": {}, "returned_ragged": {}}

    seen_here = set()
    verified = set()

    def note(key, what, path):
        if key not in seen_here:      # count behaviours, not objects
            seen_here.add(key)
            out["count"][key] = out["count"].get(key, 0) + 1
        ops = [fmt(e["l"]) for e in path]
        if key not in out["viol"] or len(ops) < len(out["viol"][key][1]):
            out["viol"][key] = (what, ops)

    try:
        for path in paths:
            if isinstance(path, str):
                path = tla.parse_value(path)
            seen_here.clear()
            muted = set()
            for _attempt in range(len(OBSERVER_ACCESSORS) + 1):
                rp = Replayer(StateManager, np, tmp, muted=muted)
                again = False
                try:
                    rp.run(path, verified if not muted else None)
                except Inconclusive:
                    out["inconclusive"] += 1
                except Diverged as dv:
                    persistent = [h for h in rp.held if not h[2] and id(h[0]) in rp.flagged]
                    if dv.key.split(":")[0] in ("conform", "raised", "appendonly", "oneper") and persistent:
                        # the real object already shares a caller-held object (reported as alias:<site>); a later
                        # difference from the intended behaviour without a caller overwrite is a consequence of it
                        out["explained_by_alias"] += 1
                    else:
                        note(dv.key, dv.what, path[: rp.at + 1])
                    acc = dv.key.split(":", 1)[1]
                    if dv.key.startswith("stable:") and acc in OBSERVER_ACCESSORS and acc not in muted:
                        muted.add(acc)   # keep going: do not let one aliasing accessor hide the others
                        again = True
                for key, what, at in rp.alias:
                    note(key, what, path[: at + 1])
                if not again:
                    break
            out["behaviours"] += 1
            out["steps"] += rp.steps - rp.light
            out["light"] += rp.light
            for name in ("raises", "returned_ragged"):
                for a, c in getattr(rp, name).items():
                    out[name][a] = out[name].get(a, 0) + c
            out["scribbles"] += rp.scribbles
            out["nontrivial"] += 1 if rp.nontrivial else 0
    finally:
        shutil.rmtree(tmp, ignore_errors=True)
    return out


def replay_all(paths, procs=8):
    paths = list(paths)
    if not paths:
        return {"viol": {}, "count": {}, "behaviours": 0, "steps": 0, "scribbles": 0, "nontrivial": 0, "inconclusive": 0, "explained_by_alias": 0, "light": 0, "raises": {}, "returned_ragged": {}}
    # contiguous chunks of the lexicographically sorted behaviours: siblings (shared prefixes) go to one worker
    # (raw texts of behaviours with a common prefix start with the same characters)
    paths.sort(key=lambda p: p if isinstance(p, str) else repr([lkey(e["l"]) for e in p]))
    nchunk = max(1, min(len(paths), procs * 4))
    size = -(-len(paths) // nchunk)
    chunks = [paths[i:i + size] for i in range(0, len(paths), size)]
    if procs <= 1 or len(paths) < 64:
        parts = [replay_chunk(c) for c in chunks]
    else:
        with mp.get_context("fork").Pool(procs) as pool:
            parts = pool.map(replay_chunk, chunks)
    tot = {"viol": {}, "count": {}, "behaviours": 0, "steps": 0, "scribbles": 0, "nontrivial": 0, "inconclusive": 0, "explained_by_alias": 0, "light": 0, "raises": {}, "returned_ragged": {}}
    for p in parts:
        for k in ("behaviours", "steps", "scribbles", "nontrivial", "inconclusive", "explained_by_alias", "light"):
            tot[k] += p[k]
        for k, n in p["count"].items():
            tot["count"][k] = tot["count"].get(k, 0) + n
        for name in ("raises", "returned_ragged"):
            for a, c in p[name].items():
                tot[name][a] = tot[name].get(a, 0) + c
        for k, (what, ops) in p["viol"].items():
            if k not in tot["viol"] or (len(ops), ops) < (len(tot["viol"][k][1]), tot["viol"][k][1]):
                tot["viol"][k] = (what, ops)
    return tot


def facade_results(ck, cex_path):
    """Sampler.results() is the public face of compute_results(): drive the spec's shortest Stable
    counterexample of the code-shaped semantics (batches committed; results; overwrite; results) through it,
    for a regular history and for a ragged one (batches of 3 and 4 particles)."""
    import numpy as np
    from tempest import Sampler

    out = {}
    for name, rows in (("regular", (3, 3)), ("ragged", (3, 4))):
        s = Sampler(lambda u: u, lambda x: -0.5 * float(np.sum(x ** 2)), n_dim=2, n_particles=8, random_state=0)
        for i, n in enumerate(rows):
            s.state.update_current({"x": np.full((n, 2), 1.0 + i), "logl": np.full((n,), 1.0 + i), "beta": 1.0, "logz": 0.0})
            s.state.commit_current_to_history()
        ops = [f"state.update_current({n} rows); state.commit_current_to_history()" for n in rows]

        def batches():
            return {k: [np.array(s.state.get_history(k, index=i), copy=True) for i in range(len(rows))] for k in ("x", "logl")}

        before = batches()
        try:
            r = s.results()
        except ValueError:
            if name != "ragged":
                raise
            out[name] = "raises ValueError (stacked image of a ragged history is undefined; not a violation)"
            continue
        found = walk(r, [], np)
        arrays = [a for a in found if isinstance(a, np.ndarray)]
        tags = {k: np.array(v, copy=True) for k, v in r.items() if isinstance(v, np.ndarray) and v.dtype != object}
        internal = walk(s.state._results_dict, [], np) + walk(s.state._history, [], np) + walk(s.state._current, [], np)
        internal = [a for a in internal if isinstance(a, np.ndarray) and a.size]
        shared = r is s.state._results_dict or any(a.size and any(a is b or np.shares_memory(a, b) for b in internal) for a in arrays)
        if shared:
            ck.violation("alias:Sampler.results", f"the dictionary / arrays (containers looked into) returned by Sampler.results() are reachable "
                         f"from the sampler's internal state ({name} history)", {"ops": ops + ["Sampler.results()"], "spec_counterexample": cex_path})
        for a in arrays:
            if a.flags.writeable and a.dtype != object:
                a.fill(SENT)
        r.clear()
        changed = sorted(k for k, v in batches().items() if any(not np.array_equal(p, q) for p, q in zip(before[k], v)))
        try:
            r2 = s.results()
            changed += sorted(k for k, v in tags.items() if k not in r2 or not np.array_equal(r2[k], v, equal_nan=True))
        except Exception as ex:
            changed.append(repr(ex))
        if changed:
            ck.violation("stable:Sampler.results", f"after the caller overwrote what Sampler.results() returned ({name} history), committed batches / results() differ in {changed}",
                         {"ops": ops + ["r = Sampler.results()", "overwrite every array found in r", "re-read history and Sampler.results()"], "spec_counterexample": cex_path})
        out[name] = {"shared": bool(shared), "changed": changed}
    return out


# --------------------------------------------------------------------------- the component part
def component_part(ck) -> dict:
    core.import_repo()
    import numpy as np
    from tempest.state_manager import StateManager

    quick = ck.tier == "quick"
    depth_full = 3 if quick else 5            # exhaustive, all actions incl. getters
    depth_deep = 4 if quick else 6            # exhaustive, getters left out (heap no-ops), coarse labels
    enum_len = 3 if quick else 4              # every operation sequence up to this length is replayed
    nsim, sim_depth = (300, 8) if quick else (1000, 10)   # per simulation worker (2 workers)
    runs, errs = {}, []
    import time
    phase, t0 = {}, time.time()

    def job(name, **kw):
        try:
            runs[name] = tlc.run_tlc("StateHeap", kw.pop("cfg"), **kw)
        except BaseException as ex:  # re-raised in the main thread
            errs.append((name, ex))

    jobs = {
        "intended_full": dict(cfg=cfg(False, depth_full, False, True, True), coverage=True, workers=6),
        "intended_deep": dict(cfg=cfg(False, depth_deep, False, False, False), workers=6),
        "impl_reach": dict(cfg=cfg(True, 3, False, False, True, props=["INVARIANT TypeOK"]), coverage=True, workers=2),
        "enum": dict(cfg=cfg(False, enum_len, True, False, True, props=["INVARIANT TypeOK"]), dump=True, workers=4),
        "sim": dict(cfg=cfg(False, sim_depth, True, True, True, props=["INVARIANT TypeOK", "INVARIANT NoAlias"]),
                    simulate=f"num={nsim}", depth=sim_depth + 2, seed=ck.seed + 17, workers=2),
    }
    for prop in ("INVARIANT NoAlias", "PROPERTY Stable", "PROPERTY AppendOnly", "INVARIANT CacheCoherent"):
        jobs["impl_" + prop.split()[1]] = dict(cfg=cfg(True, 6, True, False, True, props=[prop]), workers=2)
    for prop in ("INVARIANT AlignedHistory", "PROPERTY RejectedAppendsNothing"):
        jobs["seeded_" + prop.split()[1]] = dict(cfg=cfg(False, 6, True, False, True, props=[prop], seeded=True), workers=2)
    jobs["seeded_ragged_NoAlias"] = dict(cfg=cfg(False, 6, True, False, True, props=["INVARIANT NoAlias"], seeded_ragged=True), workers=2)
    ths = [threading.Thread(target=job, args=(n,), kwargs=kw) for n, kw in jobs.items()]
    for t in ths:
        t.start()
    for t in ths:
        t.join()
    phase["tlc"] = round(time.time() - t0, 1)
    try:
        if errs:
            raise errs[0][1]
        # ---- TLC verdicts on the specification
        for name in ("intended_full", "intended_deep", "enum", "sim", "impl_reach"):
            r = runs[name]
            if r.status != "ok":
                raise RuntimeError(f"StateHeap.tla: {r.violated} violated in run {name} (the intended semantics must satisfy "
                                   f"its own properties): {[fmt(s['last']) for _, s in r.error_trace if 'last' in s]}")
        cov = action_coverage(runs["intended_full"])
        cov_impl = action_coverage(runs["impl_reach"])
        never = [a for a in ACTIONS if cov.get(a, (0, 0))[1] == 0 and cov_impl.get(a, (0, 0))[1] == 0]
        if never:
            raise RuntimeError(f"vacuous model: actions never taken: {never}")
        # ---- code-shaped semantics: shortest counterexamples, and whether the real code follows them
        cex = {}
        tmp = tempfile.mkdtemp(prefix="c17_", dir=os.environ.get("VERIF_SCRATCH") or None)
        for prop in ("NoAlias", "Stable", "AppendOnly", "CacheCoherent"):
            r = runs["impl_" + prop]
            if r.status != "violation" or r.violated != prop:
                raise RuntimeError(f"code-shaped semantics does not violate {prop} (status {r.status} {r.violated})")
            path = r.error_trace[-1][1]["path"]
            try:
                Replayer(StateManager, np, tmp, impl_mode=True).run(path)
                follows = True
            except Exception:
                follows = False
            cex[prop] = {"trace": [fmt(e["l"]) for e in path], "real_code_follows_code_shaped_spec": follows}
        # seeded variant of the strict commit (partial append before raising): TLC must refute it
        for prop in ("AlignedHistory", "RejectedAppendsNothing"):
            r = runs["seeded_" + prop]
            if r.status != "violation" or r.violated != prop:
                raise RuntimeError(f"seeded strict-commit variant does not violate {prop} (status {r.status} {r.violated})")
            path = r.error_trace[-1][1]["path"]
            try:
                Replayer(StateManager, np, tmp, impl_mode=True).run(path)
                follows = True
            except Exception:
                follows = False
            cex["SeededStrict:" + prop] = {"trace": [fmt(e["l"]) for e in path], "real_code_follows_seeded_spec": follows}
        r = runs["seeded_ragged_NoAlias"]
        if r.status != "violation" or r.violated != "NoAlias":
            raise RuntimeError(f"seeded ragged-history variant does not violate NoAlias (status {r.status} {r.violated})")
        cex["SeededRagged:NoAlias"] = {"trace": [fmt(e["l"]) for e in r.error_trace[-1][1]["path"]]}
        shutil.rmtree(tmp, ignore_errors=True)
        # ---- binding B: every enumerated / simulated behaviour on the real StateManager
        phase["counterexamples"] = round(time.time() - t0, 1)
        paths = list(iter_paths(runs["enum"].dump_path, want_len=enum_len + 1, raw=True))
        n_enum = len(paths)
        simp = sim_paths(runs["sim"])
        paths += simp
        phase["parse"] = round(time.time() - t0, 1)
        tot = replay_all(paths, procs=8 if quick else 12)
        phase["replay"] = round(time.time() - t0, 1)
    finally:
        for r in runs.values():
            r.cleanup()
    for key in sorted(tot["viol"], key=lambda k: (len(tot["viol"][k][1]), k)):
        what, ops = tot["viol"][key]
        ck.violation(key, f"{what} [{tot['count'][key]} behaviours]", {"ops": ops, "how": "execute ops on a fresh StateManager (checks/c17.py Replayer)"})
    facade = facade_results(ck, cex["Stable"]["trace"])
    for p in paths[:: max(1, len(paths) // 4)][:4]:
        p = tla.parse_value(p) if isinstance(p, str) else p
        ck.sample({"ops": [fmt(e["l"]) for e in p], "final_view": p[-1]["v"]})
    fullr, deepr = runs["intended_full"], runs["intended_deep"]
    return {
        "states": fullr.distinct + deepr.distinct,
        "transitions": fullr.generated + deepr.generated,
        "tlc_runs": {n: {"status": r.status, "violated": r.violated, "distinct": r.distinct, "generated": r.generated,
                         "depth": r.depth, "wall_s": round(r.wall_s, 1)} for n, r in runs.items()},
        "traces_validated_against_impl": tot["behaviours"],
        "enumerated_sequences": n_enum,
        "simulated_behaviours": len(simp),
        "evaluations": tot["steps"],
        "steps_of_verified_prefixes_driven_only": tot["light"],
        "ragged_history_accessor_raised_ValueError": tot["raises"],
        "ragged_history_accessor_returned": tot["returned_ragged"],
        "ragged_note": "for a history whose batches have different sizes the stacked image is undefined: get_history(key) / "
                       "compute_results() / Sampler.results() raising ValueError (the pinned behaviour) is recorded, NOT a violation; "
                       "an accessor that returns instead is checked for sharing inside the containers it returns and for stability",
        "caller_overwrites": tot["scribbles"],
        "distinct_nontrivial": tot["nontrivial"],
        "inconclusive_optin_not_honoured": tot["inconclusive"],
        "violating_behaviours_by_key": tot["count"],
        "divergences_explained_by_reported_alias": tot["explained_by_alias"],
        "rule": "non-trivial = the behaviour contains a spec-level CallerScribble of an object the caller still holds "
                "(export dict entry, opt-in array, list); in addition every object returned by every accessor is overwritten "
                "after every step of every behaviour (caller_overwrites counts objects)",
        "exhaustive": True,
        "bounds": {"array_keys": 2, "scalar_keys": 1, "max_commits": 2, "depth_all_actions": depth_full,
                   "depth_without_getters": depth_deep, "enumerated_sequence_length": enum_len,
                   "simulation": [len(simp), sim_depth]},
        "tlc_coverage": {a: list(cov.get(a, (0, 0))) for a in ACTIONS},
        "tlc_coverage_code_shaped": {a: list(cov_impl.get(a, (0, 0))) for a in ACTIONS},
        "phase_wall_s_cumulative": phase,
        "code_shaped_counterexamples": cex,
        "sampler_results_facade": facade,
    }


def system_part(ck) -> dict:
    """Binding A (Sampler level): real runs whose driver overwrites, between iterations, everything returned by
    sample() / results() / posterior() / state.to_dict() / the getters, pair-validated against an unscribbled
    twin.  Built separately (checks/c17_system.py); returns its evidence dict and reports through ck.violation."""
    sys.path.insert(0, os.path.dirname(os.path.abspath(__file__)))
    import c17_system

    return c17_system.system_part(ck)


def main():
    ck = core.Check("C17", "model_checking")
    ev = component_part(ck)
    sysev = system_part(ck)
    if sysev:
        ev["system"] = sysev
    ck.assumptions += [
        "numpy.shares_memory is exact for the arrays involved; identity (`is`) decides sharing of lists and dicts",
        "scalars and None are immutable and cannot alias",
        "copy=False in set_current/update_current is the documented opt-in: the caller's array is internal by the caller's choice",
    ]
    ck.finish(ev)


if __name__ == "__main__":
    core.main_guard(main)
