#!/venv/bin/python
"""C13 - likelihood evaluation strategy is transparent; calls are counted exactly.

Dispatch.tla: every completion order of a pool is explored by TLC (Positional, CallsExact, EachOnce); every
distinct completion order is replayed through the real SamplerCore._log_like with a pool-like object that
evaluates in that order (with and without blobs).  PSRun.tla: MP_Calls, ME_Calls, CallsExact on recorded
runs over the evaluation strategies.  Pair.tla: runs under one seed with scalar / vectorised / blobs /
pool-like evaluation of a pointwise identical likelihood must be bit-identical (histories, weights, evidence).
"""
import os, sys
sys.path.insert(0, os.path.dirname(os.path.dirname(os.path.abspath(__file__))))
from vlib import core, sysrun, tlc, pairs  # noqa: E402

DCFG = 'INIT Init\nNEXT Next\nCONSTANTS\n P = {P}\n W = {W}\n Strategies = {{"vector", "seq", "pool"}}\nINVARIANT Positional\nINVARIANT CallsExact\nINVARIANT EachOnce\nCHECK_DEADLOCK FALSE\n'


class OrderPool:
    def __init__(self, order):
        self.order = order

    def map(self, f, xs):
        xs = list(xs)
        out = [None] * len(xs)
        for i in self.order:
            out[i - 1] = f(xs[i - 1])
        return out


class DelayExecutor:
    """Executor-like pool (has map AND submit, like concurrent.futures executors): tasks COMPLETE in the scripted
    order (the k-th point of `order` finishes k-th), map() returns results in input order as its contract says."""

    def __init__(self, order):
        import concurrent.futures as cf

        self.order = list(order)
        self.ex = cf.ThreadPoolExecutor(max_workers=max(2, len(order)))
        self.n = 0

    def _delayed(self, f, x, idx):
        import time

        rank = self.order.index(idx + 1) if (idx + 1) in self.order else idx
        time.sleep(0.004 * (rank + 1))
        return f(x)

    def submit(self, f, *a, **k):
        idx = self.n
        self.n += 1
        return self.ex.submit(self._delayed, f, a[0], idx)

    def map(self, f, xs, *a, **k):
        xs = list(xs)
        futs = [self.ex.submit(self._delayed, f, x, i) for i, x in enumerate(xs)]
        return [fu.result() for fu in futs]

    def imap_unordered(self, f, xs, *a, **k):
        import concurrent.futures as cf

        xs = list(xs)
        futs = [self.ex.submit(self._delayed, f, x, i) for i, x in enumerate(xs)]
        for fu in cf.as_completed(futs):
            yield fu.result()

    def imap(self, f, xs, *a, **k):
        return iter(self.map(f, xs))

    def shutdown(self):
        self.ex.shutdown(wait=True)


def dispatch_part(ck):
    import numpy as np
    from tempest import Sampler

    P, W = (4, 2) if ck.tier == "quick" else (5, 3)
    res = tlc.run_tlc("Dispatch", DCFG.format(P=P, W=W), dump=True, coverage=True)
    if res.status != "ok":
        ck.violation("spec:Dispatch:" + res.violated, "Dispatch model violates " + res.violated, {"trace": res.error_trace})
    orders = set()
    for st in res.states():
        if st["pc"] == "done":
            orders.add((st["strategy"], tuple(st["order"])))
    states, trans = res.distinct, res.generated
    for a in ("Submit", "SeqEval", "WorkerTake", "WorkerDone", "Assemble"):
        if res.coverage.get(a, (0, 0))[1] == 0:
            raise tlc.TLCFailure("Dispatch: action never taken: " + a)
    res.cleanup()
    pts = np.array([[0.5 + i, -1.0 * i] for i in range(1, P + 1)])
    replayed = 0
    for strategy, order in sorted(orders):
        for blobs in (False, True):
            if strategy == "vector" and blobs:
                continue
            n = {"calls": 0}

            def f_scalar(x):
                n["calls"] += 1
                return float(x[0] * 3 + x[1])

            def f_blob(x):
                n["calls"] += 1
                return float(x[0] * 3 + x[1]), float(x[0] - 7 * x[1])

            def f_vec(X):
                n["calls"] += len(X)
                return X[:, 0] * 3 + X[:, 1]

            kw = dict(prior_transform=lambda u: u, n_dim=2, n_particles=P, clustering=False)
            if strategy == "vector":
                s = Sampler(log_likelihood=f_vec, vectorize=True, **kw)
            elif strategy == "seq":
                s = Sampler(log_likelihood=f_blob if blobs else f_scalar, blobs_dtype="float" if blobs else None, **kw)
            else:
                s = Sampler(log_likelihood=f_blob if blobs else f_scalar, blobs_dtype="float" if blobs else None, pool=OrderPool(order), **kw)
            variants = [s]
            if strategy == "pool" and (ck.tier == "thorough" or hash(order) % 3 == 0):
                # the same completion order on an executor-like pool (map + submit + imap_unordered available)
                variants.append(Sampler(log_likelihood=f_blob if blobs else f_scalar, blobs_dtype="float" if blobs else None, pool=DelayExecutor(order), **kw))
            for vi, s in enumerate(variants):
                n["calls"] = 0
                kind = strategy if vi == 0 else "executor"
                try:
                    logl, blob = s._core._log_like(pts)
                except Exception as ex:
                    ck.violation("dispatch:raised", f"_log_like raised {ex!r} for {kind} order {order}", {"strategy": kind, "order": list(order), "blobs": blobs})
                    continue
                finally:
                    if vi == 1:
                        s._core.config.pool.shutdown()
                replayed += 1
                want = pts[:, 0] * 3 + pts[:, 1]
                bad = None
                if not np.array_equal(np.asarray(logl, dtype=float), want):
                    bad = f"assembled logl {list(logl)} != positional {list(want)}"
                elif blobs and not np.array_equal(np.asarray(blob, dtype=float).reshape(-1), pts[:, 0] - 7 * pts[:, 1]):
                    bad = f"assembled blobs {blob!r} not positional"
                elif n["calls"] != P:
                    bad = f"user likelihood evaluated at {n['calls']} points for a batch of {P}"
                if bad:
                    ck.violation("dispatch:" + kind, bad, {"strategy": kind, "order": list(order), "blobs": blobs})
    ck.sample({"dispatch_orders": [list(o) for s_, o in sorted(orders)[:4]]})
    return {"states": states, "transitions": trans, "dispatch_orders_replayed": replayed, "dispatch_distinct_orders": len(orders), "dispatch_constants": {"P": P, "W": W}}


def pair_part(ck):
    kernels = ["tpcn", "rwm"]
    seeds = [ck.seed * 100 + k for k in range(2 if ck.tier == "quick" else 8)]
    groups = []
    jobs = []
    for sd in seeds:
        for kern in kernels:
            for cl in (False, True):
                base = dict(sample=kern, clustering=cl, n_particles=8, target="edge" if cl else "gauss", support=0.5 if (cl and kern == "rwm") else None)
                if base["support"]:
                    base["n_particles"] = 16
                variants = [dict(evaluation="scalar"), dict(evaluation="vector"), dict(evaluation="vector_reuse"), dict(evaluation="blobs"), dict(pool="perm", pool_seed=sd), dict(pool=1)]
                if ck.tier == "thorough" or (sd == seeds[0] and not cl):
                    # a real multiprocess pool whose tasks take different times (completion order != submission order)
                    variants.append(dict(pool=2, slow=0.002))
                g = []
                for v in variants:
                    g.append(len(jobs))
                    jobs.append(dict(conf=dict(base, **v), seed=1000 + sd, n_total=32, **({"timeout": 240.0} if isinstance(v.get("pool"), int) and v["pool"] > 1 else {})))
                groups.append(g)
                if not cl:
                    # the user's extra arguments (log_likelihood_kwargs / _args) reach the likelihood under every strategy
                    kb = dict(base, shift=2.5)
                    g2 = []
                    for v in [dict(via="kwargs"), dict(via="kwargs", pool="perm", pool_seed=sd), dict(via="kwargs", pool=1), dict(via="kwargs", evaluation="vector"),
                              dict(via="args"), dict(via="args", pool="perm", pool_seed=sd + 1), dict(via="kwargs", evaluation="blobs", pool="perm", pool_seed=sd)]:
                        g2.append(len(jobs))
                        jobs.append(dict(conf=dict(kb, **v), seed=1000 + sd, n_total=32))
                    groups.append(g2)
            # the TYPE in which a one-point likelihood hands back its number is no part of the algorithm either: single-precision numpy
            # scalars, python floats and a double-precision batch of the same values are the same pointwise likelihood
            if kern == "tpcn" or ck.tier == "thorough":
                g4 = []
                for v in [dict(evaluation="scalar_r32"), dict(evaluation="scalar_f32"), dict(evaluation="vector_r32"), dict(evaluation="scalar_f32", pool="perm", pool_seed=sd)]:
                    g4.append(len(jobs))
                    jobs.append(dict(conf=dict(sample=kern, clustering=False, n_particles=8, **v), seed=1000 + sd, n_total=32))
                groups.append(g4)
        if sd == seeds[0] or ck.tier == "thorough":
            # nothing about the configuration may depend on the pool: the default particle number under a real pool of a size that
            # does not divide it
            g3 = []
            for v in [dict(), dict(pool=3)]:
                g3.append(len(jobs))
                jobs.append(dict(conf=dict(sample="rwm", clustering=False, n_particles=None, n_dim=2, **v), seed=1000 + sd, n_total=16,
                                 **({"timeout": 240.0} if v else {})))
            groups.append(g3)
    R = pairs.run_many(jobs)
    # two fits with a real pool of the same size in ONE process, the data the (module-level) likelihood reads rebound in between: the
    # second fit must be the serial fit of the second data set (workers started for the first fit know nothing of the second)
    tj = [dict(a=dict(conf=dict(sample="rwm", clustering=False, n_particles=8, evaluation="global", pool=2, shift=0.0), seed=1000 + sd, n_total=16),
               b=dict(conf=dict(sample="rwm", clustering=False, n_particles=8, evaluation="global", pool=2, shift=3.0, target="edge"), seed=1001 + sd, n_total=16))
          for sd in (seeds[:1] if ck.tier == "quick" else seeds[:3])]
    TR = pairs.run_many(tj, func=pairs.run_pair_in_process, timeout=480.0)
    SR = pairs.run_many([dict(j["b"], conf=dict(j["b"]["conf"], pool=None)) for j in tj])
    for tr, sr in zip(TR, SR):
        if "b" not in tr:
            raise RuntimeError("two-fit worker failed: " + str(tr.get("raised"))[:300])
        groups.append([len(R), len(R) + 1])
        R += [sr, tr["b"]]
        jobs += [sr["job"], tr["b"]["job"]]
    P = []
    meta = []
    discarded = 0
    for g in groups:
        for k in g[1:]:
            if pairs.out_of_scope(R[g[0]]) and pairs.out_of_scope(R[k]):
                discarded += 1   # both runs died of the same defect recorded under another property
                continue
            for r in (R[g[0]], R[k]):
                if r["raised"] and not pairs.out_of_scope(r):
                    ck.violation("pair:raised", f"run raised {r['raised']} for {r['job']['conf']}", {"job": r["job"]})
            P.append(pairs.project_pair(R[g[0]], R[k], kind="same", exact=True))
            meta.append((R[g[0]]["job"], R[k]["job"]))
    fails, st = pairs.validate_pairs(P)
    seen = set()
    for f in fails:
        if f["pid"] in seen:
            continue
        seen.add(f["pid"])
        a, b = meta[f["pid"] - 1]
        ck.violation("pair:" + f["clauses"][0], f"runs differ at iteration {f['i']} ({f['clauses']}): {a['conf']} vs {b['conf']} seed {a['seed']}",
                     {"a": a, "b": b, "clauses": f["clauses"], "iteration": f["i"]})
    ck.sample({"pair": [meta[0][0]["conf"], meta[0][1]["conf"]], "iterations": len(P[0]["a"])})
    return {"pairs_validated": len(P), "pair_states": st["states"], "pair_runs": len(jobs), "pairs_discarded_known_finding_elsewhere": discarded}


def stepping_part(ck):
    """calls = evaluations also for the stepping API outside run(): a fresh sampler loads a checkpoint taken at a positive
    temperature and is stepped with sample() only (clause CallsExact of PSRun, evaluated on the counters of that history)."""
    core.import_repo()
    import glob
    import shutil
    import tempfile
    import warnings

    warnings.filterwarnings("ignore")
    import numpy as np
    from vlib import drivers, psrun

    done = 0
    for i, conf in enumerate([dict(clustering=False, n_particles=8), dict(clustering=True, sample="rwm", evaluation="blobs", n_particles=8), dict(clustering=False, evaluation="vector", n_particles=8)]):
        out_dir = tempfile.mkdtemp(prefix="c13step_")
        try:
            np.random.seed(1350 + i + ck.seed)
            a, _ = drivers.build_sampler(conf, None, out_dir=out_dir)
            a.run(n_total=24, progress=False, save_every=1)
            files = sorted(glob.glob(os.path.join(out_dir, "ps_[0-9]*.state")), key=lambda f: int(os.path.basename(f)[3:-6]))
            rec = psrun.Recorder(2, have_blobs=(conf.get("evaluation") == "blobs"), label="stepping")
            for f in files[len(files) // 2:][:2]:
                b, _ = drivers.build_sampler(conf, rec, out_dir=out_dir)
                b.load_state(f)
                if not (b.state.get_current("beta") or 0.0) > 0.0:
                    continue
                c0, e0 = int(b.state.get_current("calls")), rec.evals
                for _ in range(2):
                    b.sample()
                dc, de = int(b.state.get_current("calls")) - c0, rec.evals - e0
                done += 1
                if dc != de:
                    ck.violation("stepping:calls", f"load_state({os.path.basename(f)}) + 2 x sample() without run(): {de} likelihood evaluations, calls advanced by {dc} ({conf})",
                                 {"conf": conf, "checkpoint": os.path.basename(f), "evaluations": de, "calls_booked": dc})
        finally:
            shutil.rmtree(out_dir, ignore_errors=True)
    if done == 0 and not ck.violations:
        raise RuntimeError("stepping part vacuous: no checkpoint at a positive temperature")
    return {"stepping_sequences_load_then_sample": done}


def main():
    ck = core.Check("C13", "model_checking")
    if ck.args.replay:
        from vlib import sysrun as _sr

        _sr.replay(ck, "C13", ck.args.replay)
    core.import_repo()
    cov = dispatch_part(ck)
    mc = sysrun.model_part(ck, "C13", variants=["lostcalls"], tier=ck.tier)
    mc["states"] += cov["states"]
    mc["transitions"] += cov["transitions"]
    cov.update(mc)
    factors = {"evaluation": ["scalar", "vector", "vector_reuse", "blobs", {"pool": "perm"}, {"pool": 1}], "sample": ["tpcn", "rwm"], "clustering": [True, False], "resample": ["mult", "syst"],
               "target": ["gauss", "edge", "edge"]}   # "edge": posterior mass against a hard prior wall (proposals leave the cube)
    jobs = sysrun.product_jobs(factors, {"n_particles": 8}, ck.seed + 13, limit=24 if ck.tier == "quick" else None)
    for k, j in enumerate(jobs):
        if k % 3 == 0:
            j["manual_iters"] = 2
    # a pool that fails once part-way through a batch: the run may die of it, but if it goes on the count must stay exact
    for i, fm in enumerate((2, 5)):
        jobs.append({"conf": dict(n_particles=8, pool="faulty", fail_at_map=fm, clustering=False, sample=("rwm" if i else "tpcn")), "seed": 1330 + i + ck.seed,
                     "label": f"faulty pool (map #{fm} fails)", "n_total": 24})
    sc, traces = sysrun.system_part(ck, "C13", jobs, lambda t: (t["meta"]["label"], t["meta"]["seed"]) if any(e["ev"] == "MutateEnd" for e in t["events"]) else None)
    cov.update(sc)
    pc = pair_part(ck)
    cov.update(pc)
    cov.update(stepping_part(ck))
    # calls are counted exactly across save / resume too (evaluations made while resuming belong to the run)
    from vlib import procs, psrun

    rj = [dict(conf=c, seed=135 + i + 100 * ck.seed, label=f"c13resume#{i}", n_total=48, save_every=2, max_ckpt=2, vary_n_total=False)
          for i, c in enumerate([dict(clustering=False, evaluation="vector"), dict(clustering=True, sample="rwm", evaluation="blobs"), dict(clustering=False, pool="perm")])]
    rres = procs.run(sysrun.resume_job, rj, procs=len(rj), timeout=600)
    rtr = []
    for st_, r_ in rres:
        if st_ != "ok":
            raise RuntimeError("resume worker failed: " + str(r_)[:300])
        rtr += r_
    rfails, _rst = psrun.validate(rtr)
    sysrun.attribute(ck, "C13", rtr, rfails)
    cov["resumed_runs_validated"] = sum(1 for t in rtr if t["meta"].get("resumed"))
    cov.update({
        "traces_validated_against_impl": cov["dispatch_orders_replayed"] + sc["system_runs"] + pc["pairs_validated"],
        "evaluations": cov["dispatch_orders_replayed"] + sc["system_events_validated"] + pc["pair_states"],
        "distinct_nontrivial": cov["dispatch_distinct_orders"] + sc["system_nontrivial"] + pc["pairs_validated"],
        "rule": "every completion order enumerated by TLC is replayed into _log_like (non-trivial: all); recorded runs with at least one MCMC mutation; pairs of runs under one seed differing only in the evaluation strategy",
        "exhaustive": True,
    })
    ck.assumptions += ["pool-like objects honour the map contract (results in input order)", "pool=int>1 (real multiprocess) is exercised in the thorough tier only"]
    ck.finish(cov)


core.main_guard(main)
