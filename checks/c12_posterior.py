#!/venv/bin/python
"""C12, component layer (binding B) - the posterior() contract.

Specification: specs/Posterior.tla (+ PosteriorLink.tla, ResampleOps.tla, Trim.tla).

1. TLC explores Posterior.tla exhaustively: SamplerCore.compute_posterior as a state machine (Load, the
   while-loop of trim_weights, the index vector applied to u / x / logl / blobs / logw, the systematic comb
   at EVERY offset of the finite partition of [0,1), the return statement) over all histories of
   N <= MaxLen tagged records with non-negative integer weights of sum <= MaxSum (zeros anywhere), all 2^4 flag combinations,
   blobs configured / not configured, ess_trim in {1/2, 9/10, 99/100}, bins_trim in {2, 3, 10}.
   Invariants: equal lengths; row p of samples / logL / blobs / log-weights carries the id of the same
   record; weights >= 0 summing to exactly one, aligned with their record; uniform 1/n after resampling;
   the kept set is an upper set of the weights; arity as documented; without blobs configured
   return_blobs changes nothing.  PosteriorLink.tla: the trimming steps ARE steps of Trim.tla (C20).
2. The code-shaped variant "stale_logw" (the pinned tree before e071b95) must be refuted by TLC.
3. Binding B: every terminal state that the spec does not flag as floating-point ambiguous is loaded into a
   real StateManager behind a real Sampler through the public API (set_current / commit_current_to_history:
   one batch at beta = 0, logz = 0, logl = ln(w) so that the MIS weights at beta = 1 are w/S; zero weights:
   logl = -745), numpy.random.random scripted to the spec's comb offset, Sampler.posterior(...) called with
   the state's flags and the output compared row by row with the spec's id sequences (x rows, logl rows,
   blob rows exactly; log-weight rows and weights within 1e-12).
"""
import math
import multiprocessing as mp
import os
import sys
from collections import defaultdict

sys.path.insert(0, os.path.dirname(os.path.dirname(os.path.abspath(__file__))))
from vlib import core, fastdump, tlc  # noqa: E402

INVARIANTS = [
    "TypeOK", "PO_EqualLen", "PO_Rows", "PO_LogwRows", "PO_Weights", "PO_WeightsAligned", "PO_Uniform",
    "PO_UpperSet", "PO_EssRatio", "PO_TrimTerminates", "PO_NoResampleKeepsOrder", "PO_FromKept", "PO_Arity",
    "PO_BlobsOnlyIfAsked", "PO_NoBlobsNoChange", "ExactTieOnly",
]
LINK = ["INVARIANT LinkInit", "INVARIANT LinkOps", "INVARIANT LinkInvariants", "PROPERTY LinkStep"]
ACTIONS = ["Load", "TrimSkip", "TrimEnter", "TrimRetreat", "TrimAccept", "ResampleSkip", "ResampleDraw", "Return"]
AMB = ["thresh_tie", "thresh_close", "ratio_tie", "ratio_close", "comb_break"]

CFG = """INIT Init
NEXT Next
CONSTANTS
  MaxLen = {maxlen}
  MaxSum = {maxsum}
  Bins = {bins}
  EssPct = {ess}
  MarginInv = 1000000000
  Variant = "{variant}"
{props}
CHECK_DEADLOCK FALSE
"""

TOL = 1e-12
ZERO_LOGL = -745.0     # exp(-745) is the smallest positive double: a weight of (numerically) zero, finite logl
WORKERS = 16


def cfg(consts, variant, link):
    props = ["INVARIANT " + i for i in INVARIANTS] + (LINK if link else [])
    return CFG.format(variant=variant, props="\n".join(props), **consts)


# --------------------------------------------------------------------------- scripted offset
class Scripted:
    """numpy.random.{random,random_sample,rand} answer from the script for the duration of one call."""

    def __init__(self, np, u0):
        self.np, self.u0, self.calls, self.saved = np, u0, 0, {}

    def _draw(self, size=None):
        self.calls += 1
        v = self.u0 if self.calls == 1 else (self.u0 + 0.381966011250105 * (self.calls - 1)) % 1.0
        return v if size is None else self.np.full(size, v)

    def __enter__(self):
        r = self.np.random
        for nm in ("random", "random_sample", "rand"):
            self.saved[nm] = getattr(r, nm)
        r.random = self._draw
        r.random_sample = self._draw
        r.rand = lambda *shape: self._draw(shape if shape else None)
        return self

    def __exit__(self, *exc):
        for nm, f in self.saved.items():
            setattr(self.np.random, nm, f)
        return False


# --------------------------------------------------------------------------- loading a history
def tagged(np, w):
    """The tagged rows of the N records: u and x rows distinct from each other and between records."""
    ids = np.arange(1, len(w) + 1, dtype=float)
    return {
        "u": np.stack([ids / 8.0, 1.0 - ids / 16.0], axis=1),
        "x": np.stack([ids + 0.25, -ids], axis=1),
        "logl": np.array([math.log(v) if v > 0 else ZERO_LOGL for v in w], dtype=float),
        "blobs": 100.0 + ids,
    }


def build(np, Sampler, w, hb):
    """A real Sampler whose StateManager holds one committed batch with the tagged records (public API only)."""
    if hb:
        s = Sampler(prior_transform=lambda u: u, log_likelihood=lambda x: (0.0, 0.0), n_dim=2, n_particles=4,
                    clustering=False, blobs_dtype="float64")
    else:
        s = Sampler(prior_transform=lambda u: u, log_likelihood=lambda x: 0.0, n_dim=2, n_particles=4, clustering=False)
    t = tagged(np, w)
    st = s.state
    st.set_current("u", t["u"])
    st.set_current("x", t["x"])
    st.set_current("logl", t["logl"])
    if hb:
        st.set_current("blobs", t["blobs"])
    st.set_current("beta", 0.0)
    st.set_current("logz", 0.0)
    st.set_current("iter", 0)
    st.set_current("calls", len(w))
    st.commit_current_to_history()
    return s, t


def history_digest(np, st, hb):
    keys = ["u", "x", "logl", "beta", "logz"] + (["blobs"] if hb else [])
    return tuple(np.asarray(st.get_history(k)).tobytes() for k in keys) + (st.get_history_length(),)


def load_history(np, Sampler, w, hb):
    """-> (sampler, tagged rows, full-history log-weights, conclusive?)"""
    N, S = len(w), sum(w)
    s, t = build(np, Sampler, w, hb)
    logw_full = np.array(s.state.compute_logw_and_logz(1.0)[0], dtype=float)
    # binding precondition: the loaded history has the spec's weights (w/S) and equal integers are equal doubles
    wt = np.exp(logw_full - logw_full.max())
    wt /= wt.sum()
    ok = all(abs(wt[j] - w[j] / S) <= 1e-13 for j in range(N))
    ok = ok and all(wt[a] == wt[b] and logw_full[a] == logw_full[b] for a in range(N) for b in range(N) if w[a] == w[b])
    return s, t, logw_full, ok


def call_posterior(np, s, case):
    """One scripted call of the public entry point: -> (output | exception, raised?, uniform draws consumed)."""
    f = case["flags"]
    off = case["offset"]
    u0 = (off[0] / float(off[1])) if off else 0.5
    with Scripted(np, u0) as scr:
        try:
            got = s.posterior(resample=f["resample"], return_blobs=f["return_blobs"],
                              trim_importance_weights=f["trim_importance_weights"], return_logw=f["return_logw"],
                              ess_trim=case["ess_trim"], bins_trim=case["bins_trim"])
        except Exception as ex:  # an exception is an outcome no spec action matches
            return ex, True, scr.calls
    return got, False, scr.calls


def judge(np, w, t, logw_full, case, got, raised, calls):
    """Compare one observed outcome with the spec's terminal state: -> list of (key, what)."""
    N, S = len(w), sum(w)
    exp = case["expected"]
    out, xs, ls, bs, lws = exp["out"], exp["ids"], exp["logl_ids"], exp["blob_ids"], exp["logw_ids"]
    wn, wd = exp["weights"]
    n = len(xs)
    if raised:
        return [("replay:raised", f"posterior() raised {got!r}")]
    v = []
    want_calls = 1 if case["flags"]["resample"] else 0
    # The specification resamples with the systematic comb driven by ONE uniform (the scripted one).  If the code did not consume the
    # scripted uniform exactly once it resamples some other way: WHICH records come back is then not prescribed by C12 and cannot be
    # scripted; the outcome is judged on what C12 states (rows are whole stored records of positive weight, uniform weights, aligned
    # log-likelihoods / blobs / log-weights, the documented length).
    free = bool(case["flags"]["resample"] and calls != want_calls)
    if calls != want_calls and not free:
        v.append(("replay:rng-draws", f"{calls} uniform draws consumed by a call that does not resample"))
    if not isinstance(got, tuple) or len(got) != len(out):
        return v + [("replay:arity", f"returned {len(got) if isinstance(got, tuple) else type(got).__name__} values, documented {list(out)}")]
    if any(g is None for g in got):
        return v + [("replay:arity", f"returned None for one of {list(out)}")]
    res = {nm: np.asarray(g) for nm, g in zip(out, got)}
    lens = {nm: (len(g) if g.ndim else -1) for nm, g in res.items()}
    if any(x != n for x in lens.values()):
        return v + [("replay:length", f"returned lengths {lens}, expected {n} rows each")]
    # samples: decode record ids from the (distinct) x rows
    gx = res["x"]
    ids = []
    for p in range(n):
        hit = [j + 1 for j in range(N) if gx.shape == (n, 2) and np.array_equal(gx[p], t["x"][j])]
        ids.append(hit[0] if hit else 0)
    if 0 in ids:
        return v + [("replay:x-rows", f"a returned sample row is not the x row of any stored record: {gx.tolist()}")]
    if free:
        gw = res["weights"].astype(float)
        if any(w[r - 1] <= 0 for r in ids):
            v.append(("replay:x-rows", f"a record of zero weight was returned by posterior(resample=True): records {ids}"))
        if not all(abs(gw[p] - 1.0 / n) <= TOL for p in range(n)):
            v.append(("replay:weights", f"weights {gw.tolist()} after resampling, expected uniform 1/{n}"))
        if not all(res["logl"][p] == t["logl"][ids[p] - 1] for p in range(n)):
            v.append(("replay:logl-rows", f"logl rows {res['logl'].tolist()} are not those of the returned records {ids}"))
        if "blobs" in res and not all(res["blobs"][p] == t["blobs"][ids[p] - 1] for p in range(n)):
            v.append(("replay:blobs-rows", f"blob rows {res['blobs'].tolist()} are not those of the returned records {ids}"))
        if "logw" in res and not all(abs(float(res["logw"][p]) - logw_full[ids[p] - 1]) <= TOL for p in range(n)):
            v.append(("replay:logw-rows", f"log-weight rows are not those of the returned records {ids}"))
        return v
    if ids != list(xs):
        return v + [("replay:x-rows", f"returned samples are records {ids}, expected {list(xs)}")]
    gw = res["weights"].astype(float)
    if not all(abs(gw[p] - wn[p] / wd) <= TOL for p in range(n)) or np.any(gw < 0) or abs(float(gw.sum()) - 1.0) > TOL:
        v.append(("replay:weights", f"weights {gw.tolist()} expected {[f'{a}/{wd}' for a in wn]}"))
    if not all(res["logl"][p] == t["logl"][ls[p] - 1] for p in range(n)):
        v.append(("replay:logl-rows", f"logl rows {res['logl'].tolist()} are not those of records {list(ls)}"))
    if "blobs" in res and not all(res["blobs"][p] == t["blobs"][bs[p] - 1] for p in range(n)):
        v.append(("replay:blobs-rows", f"blob rows {res['blobs'].tolist()} are not those of records {list(bs)}"))
    if "logw" in res:
        glw = res["logw"].astype(float)
        if not all(abs(glw[p] - logw_full[lws[p] - 1]) <= TOL for p in range(n)):
            v.append(("replay:logw-rows", f"log-weight rows {glw.tolist()} are not the full-history log-weights of records {list(lws)}"))
        elif not all(abs(math.exp(glw[p]) - w[lws[p] - 1] / S) <= TOL for p in range(n)):
            v.append(("replay:logw-rows", f"exp(log-weight) rows differ from w/S of records {list(lws)}"))
    return v


def replay_group(job):
    """All terminal states of one (w, hb): -> (counters, violations, samples)."""
    import numpy as np
    from tempest import Sampler

    w, hb, cases = job
    N = len(w)
    cnt = defaultdict(int)
    viol = []
    samples = []

    def bad(key, what, case):
        viol.append((key, what, {"w": list(w), "blobs_configured": bool(hb), "case": case}))

    try:
        s, t, logw_full, ok = load_history(np, Sampler, w, hb)
    except Exception as ex:
        bad("replay:load-raised", f"loading the history through the public API raised {ex!r}", None)
        return dict(cnt), viol, samples
    if not ok:
        cnt["inconclusive_loading"] += len(cases)
        return dict(cnt), viol, samples
    digest = history_digest(np, s.state, hb)
    pair = {}
    for c in cases:
        (fl, essp, bins, k, cq, amb, out, mask, xs, ls, bs, lws, wn, wd) = c
        flagged = [AMB[p] for p in range(5) if amb[p]]
        if flagged:
            cnt["flagged_not_replayed"] += 1
            for f in flagged:
                cnt["flag_" + f] += 1
            continue
        resample, rb, trim, rl = (bool(x) for x in fl)
        case = {"flags": {"resample": resample, "return_blobs": rb, "trim_importance_weights": trim, "return_logw": rl},
                "ess_trim": essp / 100.0, "bins_trim": bins, "offset": [k, 2 * cq] if cq else None,
                "expected": {"out": list(out), "ids": list(xs), "logl_ids": list(ls), "blob_ids": list(bs), "logw_ids": list(lws),
                             "weights": [list(wn), wd]}}
        got, raised, calls = call_posterior(np, s, case)
        cnt["replays"] += 1
        cnt["replays_blobs_configured" if hb else "replays_blobs_not_configured"] += 1
        cnt["combo:" + "".join(str(int(x)) for x in fl) + str(int(hb))] += 1
        ident = list(xs) == list(range(1, N + 1))
        if not ident:
            cnt["nontrivial"] += 1
            if len(set(w)) == N:
                cnt["nontrivial_all_weights_distinct"] += 1
        if trim and any(w[j] > 0 and (j + 1) not in mask for j in range(N)):
            cnt["trim_dropped_positive_weight"] += 1
        elif trim and len(mask) < N:
            cnt["trim_dropped_zero_weight_only"] += 1
        if len(samples) < 2 and resample and trim and rl and len(mask) < N and len(set(xs)) < len(xs):
            samples.append({"w": list(w), "blobs_configured": bool(hb), "case": case})
        vs = judge(np, w, t, logw_full, case, got, raised, calls)
        for key, what in vs:
            bad(key, what, case)
        # without blobs configured return_blobs changes nothing: compare the two real outputs
        if not hb and not raised and isinstance(got, tuple):
            key = (resample, trim, rl, essp, bins, k, cq)
            other = pair.pop(key, None)
            if other is None:
                pair[key] = got
            else:
                cnt["noblobs_pairs_compared"] += 1
                same = len(other) == len(got) and all(np.array_equal(np.asarray(a), np.asarray(b)) for a, b in zip(other, got))
                if not same:
                    bad("replay:noblobs-differs", "without blobs configured the outputs for return_blobs=False/True differ", case)
        if history_digest(np, s.state, hb) != digest:
            bad("replay:state-modified", "posterior() modified the stored history", case)
            break
    return dict(cnt), viol, samples


def replay_file(path):
    """./check C12 --replay <path> for a replay file written by this module: re-run the case, print both sides."""
    import json

    core.import_repo()
    import numpy as np
    from tempest import Sampler

    with open(path) as f:
        doc = json.load(f)
    rp = doc["replay"]
    w, hb, case = tuple(rp["w"]), int(bool(rp["blobs_configured"])), rp["case"]
    s, t, logw_full, ok = load_history(np, Sampler, w, hb)
    got, raised, calls = call_posterior(np, s, case)
    print(f"history: integer weights {list(w)} (logl = ln w), blobs configured: {bool(hb)}; loading conclusive: {ok}")
    print(f"call: posterior({case['flags']}, ess_trim={case['ess_trim']}, bins_trim={case['bins_trim']}), numpy.random.random() -> {case['offset']}")
    print(f"expected (Posterior.tla): {case['expected']}")
    print(f"observed: {got!r}")
    vs = judge(np, w, t, logw_full, case, got, raised, calls)
    for key, what in vs:
        print(f"  key={key}: {what}")
    return 1 if vs else 0


# --------------------------------------------------------------------------- main part
def tier_constants(tier):
    if tier == "quick":
        return dict(maxlen=4, maxsum=4, bins="{2, 3, 10}", ess="{50, 90, 99}")
    return dict(maxlen=5, maxsum=6, bins="{2, 3, 10}", ess="{50, 90, 99}")


def component_part(ck) -> dict:
    """Model-check Posterior.tla, replay every un-flagged terminal state into the real Sampler.posterior.
    Violations are reported through ck.violation; returns measured coverage numbers."""
    core.import_repo()
    import warnings

    warnings.filterwarnings("ignore")
    consts = tier_constants(ck.tier)
    cov = {"states": 0, "transitions": 0, "replays": 0, "distinct_nontrivial": 0, "posterior_constants": consts}

    # ---- 2. the code-shaped variant of the pinned defect must be refuted (non-vacuity of the row clauses)
    small = dict(consts, maxlen=2, maxsum=3, bins="{2}", ess="{90}")
    rs = tlc.run_tlc("Posterior", cfg(small, "stale_logw", False))
    cov["states"] += rs.distinct
    cov["transitions"] += rs.generated
    cov["posterior_stale_logw_refuted_by"] = rs.violated
    rs.cleanup()
    if rs.status != "violation" or rs.violated not in ("PO_EqualLen", "PO_LogwRows"):
        raise tlc.TLCFailure(f"Posterior.tla variant stale_logw: expected PO_EqualLen/PO_LogwRows violated, got {rs.status} {rs.violated}")

    # ---- 1. the contract
    res = tlc.run_tlc("PosteriorLink", cfg(consts, "intended", True), dump=True, coverage=True)
    cov["states"] += res.distinct
    cov["transitions"] += res.generated
    cov["posterior_tlc_wall_s"] = round(res.wall_s, 1)
    if res.status != "ok":
        ck.violation("spec:Posterior:" + res.violated, f"TLC: {res.violated} violated on Posterior.tla", {"trace": res.error_trace})
        res.cleanup()
        return cov
    tcov = {a: list(res.coverage.get(a, (0, 0))) for a in ACTIONS}
    cov["posterior_tlc_coverage"] = tcov
    dead = [a for a, v in tcov.items() if v[1] == 0]
    if dead:
        res.cleanup()
        raise tlc.TLCFailure(f"vacuous: actions never taken in Posterior.tla: {dead}")

    # ---- 3. binding B
    groups = defaultdict(list)
    ndone = 0
    for st in fastdump.iter_dump(res.dump_path, keep='/\\ pc = "done"'):
        if st["pc"] != "done":
            continue
        ndone += 1
        groups[(tuple(st["w"]), st["hb"])].append(
            (tuple(st["flags"]), st["essp"], st["bins"], st["k"], st["cq"], tuple(st["amb"]), tuple(st["out"]),
             tuple(st["mask"]), tuple(st["xs"]), tuple(st["ls"]), tuple(st["bs"]), tuple(st["lws"]), tuple(st["wn"]), st["wd"]))
    res.cleanup()
    jobs = [(w, hb, cs) for (w, hb), cs in sorted(groups.items())]
    jobs.sort(key=lambda j: -len(j[2]))
    tot = defaultdict(int)
    nworkers = min(WORKERS, max(1, len(jobs)))
    with mp.get_context("fork").Pool(nworkers) as pool:
        for cnt, viol, samples in pool.imap_unordered(replay_group, jobs, chunksize=1):
            for k_, v in cnt.items():
                tot[k_] += v
            for key, what, rp in viol:
                ck.violation(key, what, rp)
            for s_ in samples:
                ck.sample(s_, limit=4)
    cov.update({
        "replays": tot["replays"],
        "distinct_nontrivial": tot["nontrivial"],
        "posterior_terminal_states": ndone,
        "posterior_histories_loaded": len(jobs),
        "posterior_replays_blobs_configured": tot["replays_blobs_configured"],
        "posterior_replays_blobs_not_configured": tot["replays_blobs_not_configured"],
        "posterior_nontrivial_all_weights_distinct": tot["nontrivial_all_weights_distinct"],
        "posterior_trim_dropped_positive_weight": tot["trim_dropped_positive_weight"],
        "posterior_trim_dropped_zero_weight_only": tot["trim_dropped_zero_weight_only"],
        "posterior_noblobs_pairs_compared": tot["noblobs_pairs_compared"],
        "posterior_flagged_not_replayed": tot["flagged_not_replayed"],
        "posterior_flags": {f: tot["flag_" + f] for f in AMB},
        "posterior_inconclusive_loading": tot["inconclusive_loading"],
        "posterior_rule": "TLC enumerates every (history of N tagged integer-weighted records, 4 flags, blobs configured?, "
                          "ess_trim, bins_trim, comb offset k/(2Q)); every terminal state without an ambiguity flag is "
                          "replayed into Sampler.posterior; non-trivial = the index vector applied is not the identity "
                          "(a record dropped by trimming, or dropped / duplicated by resampling)",
    })
    if tot["replays"] + tot["flagged_not_replayed"] + tot["inconclusive_loading"] != ndone and not ck.violations:
        raise RuntimeError(f"binding lost: {ndone} terminal states, {dict(tot)} accounted for")
    combos = sorted(k_ for k_ in tot if k_.startswith("combo:"))
    cov["posterior_flag_combinations_replayed"] = len(combos)   # 2^4 flags x blobs configured / not
    if (tot["replays"] == 0 or tot["nontrivial"] == 0 or len(combos) != 32) and not ck.violations:
        raise RuntimeError(f"vacuous: {tot['replays']} replays, {tot['nontrivial']} non-trivial, {len(combos)}/32 flag combinations")
    return cov


def main():
    ck = core.Check("C12", "model_checking", description=__doc__)
    if ck.args.replay:
        sys.exit(replay_file(ck.args.replay))
    cov = component_part(ck)
    ck.assumptions += [
        "weights are loaded as logl = ln(w) (zero weight: logl = -745): the double weights equal w/S to 1e-13, equal integers "
        "give bit-identical doubles (checked per history); exact ties are decided by the spec's flags and not replayed",
        "positive-margin decisions only: every threshold / ESS-ratio decision replayed has relative margin >= 1e-9 (MarginInv)",
    ]
    ck.finish({
        "states": cov["states"],
        "transitions": cov["transitions"],
        "traces_validated_against_impl": cov["replays"],
        "evaluations": cov["replays"],
        "distinct_nontrivial": cov["distinct_nontrivial"],
        "rule": cov.get("posterior_rule", ""),
        "exhaustive": True,
        **{k: v for k, v in cov.items() if k.startswith("posterior_")},
    })


if __name__ == "__main__":
    core.main_guard(main)
