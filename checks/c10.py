#!/venv/bin/python
"""C10 - rescaling the likelihood shifts log-evidence only.

Pair.tla is the self-composition of the run at the grain of committed iterations: coupling relation R(c) =
same temperature (bit-identical), same particles, equal normalised weights and ESS (up to rounding), and
logz_B - logz_A = beta*c at every iteration and for the final evidence.  Binding A: paired real runs with
logL and logL + c under the same seed, c in {+-1, +-37.5, +-1000}, over kernel x resampler x clustering x
metric mode.  Test log-likelihoods are dyadic-valued (multiples of 2^-20) and c is dyadic so logL + c is exact
and every accept/reject decision is bit-identical; only the weight arithmetic differs by rounding.  A pair
that diverges is re-drawn with further seeds: a rounding-level near-tie does not repeat, a defect does.
"""
import itertools
import os
import sys

sys.path.insert(0, os.path.dirname(os.path.dirname(os.path.abspath(__file__))))
from vlib import core, pairs, tlc  # noqa: E402

SHIFTS = [1.0, -1.0, 37.5, -37.5, 1000.0, -1000.0]


def main():
    ck = core.Check("C10", "model_checking")
    if ck.args.replay:
        from vlib import sysrun as _sr

        _sr.replay(ck, "C10", ck.args.replay)
    core.import_repo()
    factors = list(itertools.product(["tpcn", "rwm"], ["mult", "syst"], [True, False], [None, 0.5, 0.05]))
    import random

    rnd = random.Random(ck.seed + 10)
    rnd.shuffle(factors)
    n_conf = len(factors)
    reps = 1 if ck.tier == "quick" else 4
    cases = []
    for rep in range(reps):
        for i, (k, r, cl, vv) in enumerate(factors[:n_conf]):
            c = SHIFTS[(i + rep) % len(SHIFTS)] if ck.tier == "quick" else None
            for cc in ([c] if c is not None else SHIFTS):
                extra = dict(target="narrow", nan_pocket=0.03, n_particles=16) if (i % 7 == 3) else {}   # NaN pocket at a narrow mode: reached by proposals, not by prior draws
                cases.append((dict(dict(sample=k, resample=r, clustering=cl, volume_variation=vv, quant=20, n_particles=16 if (i % 5 == 4) else 8,
                                   support=0.5 if (i % 5 == 4) else None, nan_pocket=None), **extra), cc, 1000 * rep + i))
    # a plateau likelihood whose UNSHIFTED value is exactly 0.0 (and c on it for the shifted run), and a blob stored in single
    # precision next to the log-likelihood (large |c|: the log-likelihood itself must stay in double precision)
    cases.append((dict(sample="tpcn", resample="mult", clustering=False, volume_variation=None, quant=None, n_particles=8, support=None, nan_pocket=None, target="tophat"), 3.0, 9001))
    cases.append((dict(sample="rwm", resample="syst", clustering=False, volume_variation=None, quant=None, n_particles=8, support=None, nan_pocket=None, target="tophat"), -37.5, 9002))
    cases.append((dict(sample="tpcn", resample="mult", clustering=False, volume_variation=None, quant=20, n_particles=8, support=None, nan_pocket=None, evaluation="blobs_f4"), 300.0, 9003))
    violations_seen = 0
    inconclusive = 0
    discarded = 0
    total_pairs = 0
    states = 0
    pending = [(conf, c, seed, 0) for conf, c, seed in cases]
    first_fail = {}
    while pending:
        jobs = []
        for conf, c, seed, attempt in pending:
            sd = 10000 + seed + 7919 * attempt + 31 * ck.seed
            jobs.append(dict(conf=dict(conf, shift=0.0), seed=sd, n_total=32))
            jobs.append(dict(conf=dict(conf, shift=c), seed=sd, n_total=32))
        R = pairs.run_many(jobs)
        P = []
        for k, (conf, c, seed, attempt) in enumerate(pending):
            A, B = R[2 * k], R[2 * k + 1]
            P.append(pairs.project_pair(A, B, kind="same", c=c, exact=False))
        fails, st = pairs.validate_pairs(P)
        states += st["states"]
        total_pairs += len(P)
        failed = {}
        for f in fails:
            failed.setdefault(f["pid"], f)
        nxt = []
        for k, (conf, c, seed, attempt) in enumerate(pending):
            A, B = R[2 * k], R[2 * k + 1]
            if pairs.out_of_scope(A) and pairs.out_of_scope(B):
                discarded += 1  # out of scope here: the all-zero-likelihood prior batch is C11's known finding (the same draws die in both runs)
                continue
            if pairs.out_of_scope(A) or pairs.out_of_scope(B):
                ck.violation("shift:one-run-died", f"only ONE of the runs with logL and logL{c:+g} (same seed) ends in {pairs.out_of_scope(A) or pairs.out_of_scope(B)}: "
                             f"the constant changed which draws have zero likelihood, in {conf}", {"conf": conf, "c": c})
                continue
            if A["raised"] or B["raised"]:
                ck.violation("pair:raised", f"run raised {A['raised'] or B['raised']} for {conf} shift {c}", {"conf": conf, "c": c})
                continue
            f = failed.get(k + 1)
            if f is None:
                if attempt > 0:
                    inconclusive += 1  # an earlier divergence of this case did not repeat: rounding-level near-tie
                continue
            first_fail.setdefault((repr(conf), c, seed), f)
            if attempt < 2:
                nxt.append((conf, c, seed, attempt + 1))
            else:
                ff = first_fail[(repr(conf), c, seed)]
                ck.violation("shift:" + ff["clauses"][0],
                             f"runs with logL and logL{c:+g} diverge for three different seeds (first: iteration {ff['i']}, clauses {ff['clauses']}) in {conf}",
                             {"conf": conf, "c": c, "clauses": ff["clauses"], "iteration": ff["i"]})
        pending = nxt
    # the two runs of a pair made in ONE process by two samplers that share one likelihood function object; the constant travels
    # through log_likelihood_kwargs (values remembered per function object would leak from the first run into the second)
    sp_jobs = []
    for i, (kern, c) in enumerate([("tpcn", 1.0), ("rwm", -37.5)] + ([] if ck.tier == "quick" else [("tpcn", 1000.0), ("rwm", 0.5)])):
        base = dict(sample=kern, clustering=False, quant=20, n_particles=8, via="shared")
        sd = 20000 + i + 31 * ck.seed
        sp_jobs.append({"a": dict(conf=dict(base, shift=0.0), seed=sd, n_total=32), "b": dict(conf=dict(base, shift=c), seed=sd, n_total=32), "c": c})
    SP = pairs.run_many(sp_jobs, func=pairs.run_pair_in_process)
    spP = []
    for j, r in zip(sp_jobs, SP):
        if "a" not in r:
            raise RuntimeError("same-process pair worker failed: " + str(r.get("raised"))[:300])
        if r["a"]["raised"] or r["b"]["raised"]:
            ck.violation("pair:raised", f"run raised {r['a']['raised'] or r['b']['raised']} (two samplers in one process, shift through log_likelihood_kwargs)", {"job": j["a"], "c": j["c"]})
            continue
        spP.append((j, pairs.project_pair(r["a"], r["b"], kind="same", c=j["c"], exact=False)))
    if spP:
        sfails, sst = pairs.validate_pairs([p_ for _, p_ in spP])
        states += sst["states"]
        total_pairs += len(spP)
        seen_sp = set()
        for f in sfails:
            if f["pid"] in seen_sp:
                continue
            seen_sp.add(f["pid"])
            j = spP[f["pid"] - 1][0]
            ck.violation("shift-same-process:" + f["clauses"][0],
                         f"two samplers in one process sharing one likelihood function (constant {j['c']:+g} through log_likelihood_kwargs) diverge at iteration {f['i']} ({f['clauses']})",
                         {"job": j["a"], "c": j["c"], "clauses": f["clauses"]})
    if cases:
        ck.sample({"conf": cases[0][0], "c": cases[0][1]})
    ck.finish({
        "states": max(states, 1), "transitions": max(states, 1),
        "traces_validated_against_impl": total_pairs,
        "evaluations": total_pairs,
        "distinct_nontrivial": len(cases),
        "inconclusive_near_ties": inconclusive,
        "discarded_all_inf_prior_batch": discarded,
        "rule": "one case = (configuration, shift c, seed); both runs executed, projected per committed iteration and validated by TLC against Pair.tla's coupling relation; all cases have c != 0 (non-trivial)",
        "exhaustive": False,
        "shifts": SHIFTS,
    })


core.main_guard(main)
