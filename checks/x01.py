#!/venv/bin/python
"""X01 - the kernel controller (sweep counter, step-size adaptation, stopping rule): specification coverage BEYOND the listed
properties.  specs/KernelCtl.tla is explored exhaustively by TLC (invariants TpcnBounds, StopWindow, Terminates, EmptyUntouched,
action property Diminishing; RwmPositive must be REFUTED - the unclipped RWM step size can change sign), and every terminal
behaviour (its `trail` of per-cluster acceptance levels and stop decisions) is replayed into a real TPCNRunner / RWMRunner
object: `_adapt_sigma` per occupied cluster, `_check_convergence` with an accepted fraction chosen so that the exact rule
(rational arithmetic, the formula in the module header) takes the decision TLC chose.  Step sizes are compared with the
spec's integers / D (1e-12), stop decisions with the exact rule (near-ties skipped).

Nothing here is a violation of a listed property: mismatches are printed as `DEVIATION x01:<key>` and the exit code is 0
unless the machinery fails (2) - with one exception: if the code's behaviour is explained by NEITHER the intended rule NOR the
documented pinned reading (`wsigma-first-k`), the exit code is 3 (spec and code have drifted apart; the spec needs attention).
"""
import json
import os
import sys
from fractions import Fraction as F

sys.path.insert(0, os.path.dirname(os.path.dirname(os.path.abspath(__file__))))
from vlib import core, tla, tlc  # noqa: E402

D = 1260000   # divisible by 500 * k for k = 2..10
INV = ["TypeOK", "TpcnBounds", "StopWindow", "Terminates", "EmptyUntouched"]
CFG = """INIT Init
NEXT Next
CONSTANTS
  Kernel = "{kernel}"
  D = 1260000
  S0 = {s0}
  Sizes <- SizesDef
  NMin = {nmin}
  NMax = {nmax}
  AlphaQ = {alphaq}
""" + "".join(f"INVARIANT {i}\n" for i in INV) + "PROPERTY Diminishing\nCHECK_DEADLOCK FALSE\n"

S0_OF_DIM = {1: 2998800, 4: 1499400, 9: 999600, 100: 299880}   # 2.38 / sqrt(d) * D


def mc_module(sizes):
    return ("---- MODULE KernelCtlMC ----\nEXTENDS KernelCtl\nSizesDef == <<" + ", ".join(str(v) for v in sizes) + ">>\n====\n")


def configs(tier):
    out = []
    aq = "{0, 2, 4}" if tier == "quick" else "{0, 1, 2, 4}"
    for kernel in ("tpcn", "rwm"):
        for d in (1, 4, 9):
            # narrow windows: every clamp of the rule, all acceptance levels
            for sizes in ([2, 2], [0, 3], [4]) if tier == "quick" else ([2, 2], [0, 3], [3, 0, 1], [4]):
                for nmin, nmax in ((1, 3),) if tier == "quick" else ((1, 3), (2, 4), (3, 3)):
                    if len(sizes) - sizes.count(0) == 2 and nmax == 4 and d != 4:
                        continue
                    out.append(dict(kernel=kernel, d=d, sizes=sizes, nmin=nmin, nmax=nmax, alphaq=aq))
            # wide windows (the adaptive value decides, not the clamps): two acceptance levels, empty lower-numbered clusters
            out.append(dict(kernel=kernel, d=d, sizes=[0, 3], nmin=1, nmax=7 if tier == "quick" else 9, alphaq="{0, 4}"))
            out.append(dict(kernel=kernel, d=d, sizes=[3, 0, 1], nmin=1, nmax=4 if tier == "quick" else 5, alphaq="{0, 4}"))
            out.append(dict(kernel=kernel, d=d, sizes=[5], nmin=2, nmax=7 if tier == "quick" else 9, alphaq="{0, 4}"))
            out.append(dict(kernel=kernel, d=d, sizes=[2, 1], nmin=3, nmax=2, alphaq=aq))   # cap below the floor: the cap wins
    return out


def exact_stop(kernel, d, sizes, nmin, nmax, sigs, it, acc, pairing):
    """The stopping rule in rational arithmetic.  sigs: exact step sizes (Fractions) AFTER this sweep's adaptation."""
    occ = [c for c, s in enumerate(sizes) if s > 0]
    szs = [sizes[c] for c in occ]
    ss = [sigs[c] for c in occ] if pairing == "intended" else list(sigs[: len(occ)])
    ws = sum(F(s) * x for s, x in zip(szs, ss)) / sum(szs)
    s0 = F(238, 100) ** 2 / d            # sigma_0 ** 2 (exact: 2.38^2 / d)
    wsq = max(F(1, 10 ** 6), ws) ** 2
    adaptive = F(nmin) * (F(234, 1000) / max(F(1, 100), acc)) * (s0 / wsq)
    steps = min(max(F(nmin), adaptive), F(nmax))
    thr = int(steps)                      # int() of a positive number: floor
    margin = min(abs(steps - thr), abs(steps - (thr + 1))) if steps != thr else F(0)
    tie = steps.denominator != 1 and margin < F(1, 10 ** 9) or (steps == thr and steps not in (F(nmin), F(nmax)))
    return it >= thr, tie


def replay(cfg, st, np, mcmc, stats, devs):
    kernel, d, sizes, nmin, nmax = cfg["kernel"], cfg["d"], cfg["sizes"], cfg["nmin"], cfg["nmax"]
    cls = mcmc.TPCNRunner if kernel == "tpcn" else mcmc.RWMRunner
    r = object.__new__(cls)
    r.n_dim = d
    r.sigma_0 = 2.38 / np.sqrt(d)
    r.n_steps = nmin / d
    r.n_max = nmax / d
    r.n_clusters = len(sizes)
    r.assignments = np.repeat(np.arange(len(sizes)), sizes)
    r.n_walkers = int(sum(sizes))
    r.sigmas = cls._initialize_sigmas(r)
    r.iteration = 0
    cap = min(F(S0_OF_DIM[d], D), F(99, 100))
    sig = [cap if kernel == "tpcn" else F(S0_OF_DIM[d], D) for _ in sizes]
    n = r.n_walkers
    for k, step in enumerate(st["trail"]):
        r.iteration += 1
        al = step["al"]
        if not isinstance(al, dict):   # TLC prints a function with domain 1..n as a sequence
            al = {i + 1: v for i, v in enumerate(al)}
        for c in range(len(sizes)):
            if sizes[c] > 0:
                a = F(al[c + 1], 4)
                r._adapt_sigma(c, float(a))
                v = sig[c] + (a - F(234, 1000)) / (r.iteration + 1)
                sig[c] = min(max(v, F(0)), cap) if kernel == "tpcn" else v
        # sigma law: spec integers (recomputed here exactly as the spec's Delta/Clip do) vs the code's floats
        for c in range(len(sizes)):
            if abs(float(sig[c]) - float(r.sigmas[c])) > 1e-12:
                devs.setdefault("sigma-law", []).append({"cfg": cfg, "sweep": k + 1, "cluster": c, "spec": float(sig[c]), "code": float(r.sigmas[c])})
                return
        stats["sigma_compared"] += len(sizes)
        # stop rule: an accepted fraction that makes the exact (intended) rule take TLC's decision
        want = bool(step["st"])
        chosen = None
        for m in range(n + 1):
            acc = F(m, n)
            dec, tie = exact_stop(kernel, d, sizes, nmin, nmax, sig, r.iteration, acc, "intended")
            if dec == want and not tie:
                chosen = (acc, dec)
                break
        if chosen is None:
            stats["unrealisable_decisions"] += 1
            return
        acc = chosen[0]
        got = bool(r._check_convergence(float(acc)))
        impl, tie2 = exact_stop(kernel, d, sizes, nmin, nmax, sig, r.iteration, acc, "first-k")
        stats["stop_compared"] += 1
        if got != want:
            if got == impl and not tie2:
                devs.setdefault("wsigma-first-k", []).append({"cfg": cfg, "sweep": k + 1, "acc": str(acc), "intended": want, "code": got,
                                                              "sigmas": [float(x) for x in sig]})
            else:
                devs.setdefault("stop-rule", []).append({"cfg": cfg, "sweep": k + 1, "acc": str(acc), "intended": want, "pinned_reading": impl, "code": got})
            return
        if want:
            break
    # the spec's own integers (final state) vs the code's floats
    for c in range(len(sizes)):
        if abs(st["sig"][c] / D - float(r.sigmas[c])) > 1e-12:
            devs.setdefault("sigma-law", []).append({"cfg": cfg, "final": True, "cluster": c, "spec": st["sig"][c] / D, "code": float(r.sigmas[c])})
            return
    stats["behaviours_replayed"] += 1


def main():
    import argparse

    ap = argparse.ArgumentParser()
    ap.add_argument("--tier", default="quick", choices=["quick", "thorough"])
    ap.add_argument("--no-evidence", action="store_true")
    args = ap.parse_args()
    core.import_repo()
    import numpy as np
    import tempest.mcmc as mcmc

    stats = {"behaviours_replayed": 0, "sigma_compared": 0, "stop_compared": 0, "unrealisable_decisions": 0}
    devs = {}
    states = trans = 0
    cov = {}
    for cfg in configs(args.tier):
        res = tlc.run_tlc("KernelCtlMC", CFG.format(kernel=cfg["kernel"], s0=S0_OF_DIM[cfg["d"]], nmin=cfg["nmin"], nmax=cfg["nmax"], alphaq=cfg["alphaq"]),
                          dump=True, coverage=True, workers=4, extra_modules={"KernelCtlMC.tla": mc_module(cfg["sizes"])})
        if res.status != "ok":
            print(f"DEVIATION x01:spec:{res.violated} KernelCtl.tla violates its own invariant under {cfg}\n{res.stdout[-1200:]}")
            res.cleanup()
            sys.exit(3)
        states += res.distinct
        trans += res.generated
        for a, (dd, tt) in res.coverage.items():
            cov[a] = cov.get(a, 0) + tt
        for st in res.states():
            if st["stopped"]:
                replay(cfg, st, np, mcmc, stats, devs)
        res.cleanup()
    # the witness: RwmPositive is NOT an invariant (n_dim = 100: three sweeps without acceptance)
    res = tlc.run_tlc("KernelCtlMC", CFG.format(kernel="rwm", s0=S0_OF_DIM[100], nmin=4, nmax=4, alphaq="{0, 4}").replace(
        "INVARIANT TypeOK", "INVARIANT TypeOK\nINVARIANT RwmPositive"), workers=1, extra_modules={"KernelCtlMC.tla": mc_module([2])})
    refuted = res.status == "violation" and res.violated == "RwmPositive"
    res.cleanup()
    r = object.__new__(mcmc.RWMRunner)
    r.n_dim, r.sigma_0, r.n_clusters, r.iteration = 100, 2.38 / np.sqrt(100), 1, 0
    r.sigmas = mcmc.RWMRunner._initialize_sigmas(r)
    for _ in range(3):
        r.iteration += 1
        r._adapt_sigma(0, 0.0)
    code_negative = bool(r.sigmas[0] < 0)
    # unbounded companion (Apalache): the bounds as an inductive invariant for every n_min, n_max, sigma_0, D, occupancy
    apa = {}
    for name, kw in (("init_implies_inv", dict(inv="IndInv", init="Init", length=0)), ("inv_is_inductive", dict(inv="IndInv", init="IndInit", length=1)),
                     ("negative_control_refuted", dict(inv="TooStrong", init="Init", length=0))):
        st_, txt = tlc.run_apalache("KernelCtlApa", cinit="CInit", timeout=300, **kw)
        apa[name] = st_
    apa_ok = apa["init_implies_inv"] == "ok" and apa["inv_is_inductive"] == "ok" and apa["negative_control_refuted"] == "violation"
    if "unavailable" in apa.values():
        apa_ok = None
    if cov.get("Sweep", 0) == 0 or stats["behaviours_replayed"] == 0:
        raise RuntimeError("vacuous: no behaviour replayed")
    out = {"spec": "KernelCtl.tla", "tier": args.tier, "states": states, "transitions": trans, "actions": cov, **stats,
           "apalache_unbounded_inductive_invariant": apa, "apalache_ok": apa_ok,
           "RwmPositive_refuted_by_TLC": refuted, "code_reaches_negative_rwm_sigma_n_dim_100": code_negative,
           "deviations": {k: len(v) for k, v in devs.items()}, "deviation_samples": {k: v[:2] for k, v in devs.items()}}
    for k, v in devs.items():
        print(f"DEVIATION x01:{k} ({len(v)} behaviours) e.g. {json.dumps(v[0], default=str)[:400]}")
    print(json.dumps({k: v for k, v in out.items() if k != "deviation_samples"}, default=str))
    if not args.no_evidence:
        os.makedirs(os.path.join(core.VERIF, "out"), exist_ok=True)
        with open(os.path.join(core.VERIF, "out", "x01_kernelctl.json"), "w") as f:
            json.dump(out, f, indent=1, default=str)
    unexplained = [k for k in devs if k != "wsigma-first-k"]
    if apa_ok is False:
        print(f"DEVIATION x01:apalache {apa}")
        sys.exit(3)
    if not refuted or not code_negative:
        print("DEVIATION x01:rwm-sign witness not reproduced")
        sys.exit(3)
    sys.exit(3 if unexplained else 0)


core.main_guard(main)
