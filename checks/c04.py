#!/venv/bin/python
"""C04 - importance weights follow the balance-heuristic mixture formula.

TLC enumerates specs/MISWeights.tla (histories of T <= 3 batches [n, b, m, ks] with beta_t = b/2,
logZ_t = m ln 2, logL = k ln 2, k even, so that every tempered density is a power of two and weights /
evidence are exact rationals) and checks on the specification: the declarative formula, normalised
weights sum to exactly one, invariance under permutation of the batches, shift invariance, batch-split
invariance, the T = 1 self-normalised-IS degeneration and the dominant-term enclosure.  Seeded wrong
formulas (no -logZ_t, no n_t/N, n_t/T, mean over T, max-normalisation) must each be refuted by TLC.

Binding B: every enumerated completed computation (history, bf, w, z, W) is built in a real
StateManager through set_current/commit_current_to_history and compute_logw_and_logz(bf/2) is
compared with the rationals (relative 1e-12), then replayed through the images of the case under the
spec's shift invariance (|c| up to 1e6) and through a +-1e6 within-history spread family whose oracle
is the spec's enclosure invariant.

Object reuse ("for every STORED history"): the spec's Replace / Commit actions (Reuse = TRUE model,
invariant CurrentHistoryOnly; the code-shaped variant StaleMix, which keeps the beta_final-independent
part across a replacement, must be refuted).  Binding: on ONE StateManager, history h1 is built and
queried, h2 is installed through update_from_dict / save_state+load_state, queried at two temperatures
(and through compute_results), one more batch is committed and queried again - every answer compared
with the spec's rationals of the history stored at that moment.  At Sampler level a finished run loads
its own earlier checkpoints and posterior(return_logw=True) / results() must equal the code's answer
on a fresh StateManager rebuilt by commits from the loaded history (the path bound to the spec above).
"""
import json
import math
import os
import shutil
import sys
from concurrent.futures import ThreadPoolExecutor

os.environ.setdefault("OMP_NUM_THREADS", "1")
os.environ.setdefault("OPENBLAS_NUM_THREADS", "1")
os.environ.setdefault("MKL_NUM_THREADS", "1")

sys.path.insert(0, os.path.dirname(os.path.dirname(os.path.abspath(__file__))))
from vlib import core, tla, tlc  # noqa: E402

INVARIANTS = ["TypeOK", "Formula", "SumOne", "PermInvariant", "ShiftInvariant", "SplitInvariant",
              "ReplicateInvariant", "SingleBatchSNIS", "Enclosure"]
REUSE_INVARIANTS = ["TypeOK", "CurrentHistoryOnly"] + INVARIANTS[1:]     # CurrentHistoryOnly only says something when the object is reused
ACTIONS = ["Init", "Mix", "Weigh", "Normalise"]
WRONG = ["NoLogZ", "NoMixW", "MixT", "MeanT", "MaxNorm"]
REUSE_MODEL = dict(ts="{1, 2}", nmax=1, kmax=2, shiftmax=4, reuse="TRUE", replmod=8, workers=4)

CFG = """INIT Init
NEXT Next
CONSTANTS
  Ts = {ts}
  NMax = {nmax}
  KMax = {kmax}
  MMax = 2
  Bs = {{0, 1, 2}}
  Bfs = {{0, 1, 2}}
  ShiftMax = {shiftmax}
  Variant = "{variant}"
  SampleMod = {mod}
  BatchMod = {bmod}
  SampleSalt = {salt}
  Reuse = {reuse}
  ReplMod = {replmod}
  RepMax = {repmax}
{invs}
CHECK_DEADLOCK FALSE
"""

LN2 = math.log(2.0)
REL = 1e-12                      # the design's tolerance: relative 1e-12 (on |c| for the scale families)
J_SHIFTS = (1442, -1442, 1442696, -1442696)     # even integers j: c = j ln 2 ~ +-1e3, +-1e6 (the spec's own shift)
C_SHIFTS = (1e3, -1e3, 1e6, -1e6)               # real shifts c (design 3.4)

np = None
StateManager = None


def cfg_text(c, variant="intended", invs=INVARIANTS):
    return CFG.format(ts=c["ts"], nmax=c["nmax"], kmax=c["kmax"], shiftmax=c["shiftmax"], variant=variant,
                      mod=c.get("mod", 1), bmod=c.get("bmod", 1), salt=c.get("salt", 0),
                      reuse=c.get("reuse", "FALSE"), replmod=c.get("replmod", 1), repmax=c.get("repmax", 3),
                      invs="\n".join("INVARIANT " + i for i in invs))


# ------------------------------------------------------------------------------------------------
# driving the real code

def build(batches):
    """batches: list of (logl ndarray, beta float, logz float) -> StateManager with that history,
    built through the public API exactly as the sampler does (one commit per batch)."""
    sm = StateManager(n_dim=1)
    for it, (logl, beta, logz) in enumerate(batches, 1):
        n = len(logl)
        pts = np.full((n, 1), 0.5)
        sm.set_current("u", pts)
        sm.set_current("x", pts)
        sm.set_current("logl", logl)
        sm.set_current("beta", beta)
        sm.set_current("logz", logz)
        sm.set_current("iter", it)
        sm.commit_current_to_history()
    return sm


def call(sm, beta_final):
    lw_n, lz_n = sm.compute_logw_and_logz(beta_final)                  # normalize=True is the default
    lw_u, lz_u = sm.compute_logw_and_logz(beta_final, normalize=False)
    # the arrays are judged AFTER further calls on the same object at other temperatures: what was returned for beta_final
    # stays what the formula says at beta_final (a result living in a re-used work buffer would not)
    sm.compute_logw_and_logz(0.5 * beta_final + 0.125)
    sm.compute_logw_and_logz(0.25 * beta_final + 0.0625, normalize=False)
    return np.asarray(lw_n, dtype=float), float(lz_n), np.asarray(lw_u, dtype=float), float(lz_u)


def generic_checks(tag, lw_n, lz_n, lw_u, lz_u, N, tol, out):
    """Checks that need no oracle: shapes, finiteness, sum to one, normalised = unnormalised - log(N Z).
    Returns False only when the result cannot be compared any further (wrong shape / non-finite)."""
    if lw_n.shape != (N,) or lw_u.shape != (N,):
        out.append((tag + ":shape", f"shapes {lw_n.shape} {lw_u.shape}, expected ({N},)"))
        return False
    if not (np.all(np.isfinite(lw_n)) and np.all(np.isfinite(lw_u)) and math.isfinite(lz_n) and math.isfinite(lz_u)):
        out.append((tag + ":nonfinite", f"non-finite result: logw_n={lw_n.tolist()} logw_u={lw_u.tolist()} logz={lz_n},{lz_u}"))
        return False
    if abs(lz_n - lz_u) > tol:
        out.append((tag + ":logz-depends-on-normalize", f"logz {lz_n!r} (normalize=True) vs {lz_u!r} (False)"))
    with np.errstate(all="ignore"):
        s = float(np.exp(lw_n).sum())
    if not abs(s - 1.0) <= tol:
        out.append((tag + ":sum", f"normalised weights sum to {s!r} (|sum-1| = {abs(s - 1):.3g} > {tol:.3g})"))
    d = float(np.max(np.abs(lw_n - (lw_u - lz_u - math.log(N)))))
    if not d <= tol:
        out.append((tag + ":consistency", f"normalised logw differs from logw - logz - log N by {d:.3g} > {tol:.3g}"))
    return True


def replay_case(st, idx):
    """st: a pc = "done" state of MISWeights.  Returns (violations, n_evaluations, nontrivial, stats)."""
    hist = st["hist"]
    bf = st["bf"]
    T = len(hist)
    ns = [b["n"] for b in hist]
    N = sum(ns)
    beta_f = bf / 2.0
    rev = (idx % 2 == 1)           # the order inside a batch is a symmetry the spec quotients by: replay both
    ks_b, wq, Wq = [], [], []
    pos = 0
    for b in hist:
        ks = list(b["ks"])
        ws = list(st["w"][pos:pos + b["n"]])
        Ws = list(st["W"][pos:pos + b["n"]])
        pos += b["n"]
        if rev:
            ks, ws, Ws = ks[::-1], ws[::-1], Ws[::-1]
        ks_b.append(ks)
        wq += ws
        Wq += Ws
    w_exp = np.array([a / b for a, b in wq])
    W_exp = np.array([a / b for a, b in Wq])
    z_exp = st["z"][0] / st["z"][1]
    betas = [b["b"] / 2.0 for b in hist]
    out = []
    evals = 0
    stats = {"base": 0.0, "shift": 0.0}
    case = {"hist": [dict(n=b["n"], b=b["b"], m=b["m"], ks=list(k)) for b, k in zip(hist, ks_b)], "bf": bf,
            "w": [list(q) for q in wq], "z": list(st["z"]), "W": [list(q) for q in Wq]}

    def viol(key, what, extra=None):
        r = {"case": case}
        if extra:
            r.update(extra)
        out.append((key, what, r))

    # ---- base scale: logl = k ln2, logz = m ln2
    try:
        sm = build([(np.array(ks, dtype=float) * LN2, be, b["m"] * LN2) for ks, be, b in zip(ks_b, betas, hist)])
        lw_n, lz_n, lw_u, lz_u = call(sm, beta_f)
        evals += 2
        g = []
        if generic_checks("base", lw_n, lz_n, lw_u, lz_u, N, REL, g):
            eu = float(np.max(np.abs(np.exp(lw_u) / w_exp - 1.0)))
            en = float(np.max(np.abs(np.exp(lw_n) / W_exp - 1.0)))
            ez = abs(math.exp(lz_u) / z_exp - 1.0)
            stats["base"] = max(eu, en, ez)
            if not eu <= REL:
                viol("base:unnormalised-weights", f"exp(logw) {np.exp(lw_u).tolist()} != spec {w_exp.tolist()} (rel err {eu:.3g})")
            if not en <= REL:
                viol("base:normalised-weights", f"exp(logw) {np.exp(lw_n).tolist()} != spec {W_exp.tolist()} (rel err {en:.3g})")
            if not ez <= REL:
                viol("base:evidence", f"exp(logz) {math.exp(lz_u)!r} != spec {st['z'][0]}/{st['z'][1]} = {z_exp!r} (rel err {ez:.3g})")
            if bf == 2:   # beta_final defaults to the posterior
                lw_d, lz_d = sm.compute_logw_and_logz()
                evals += 1
                if not (np.array_equal(np.asarray(lw_d), lw_n) and float(lz_d) == lz_n):
                    viol("base:default-beta", "compute_logw_and_logz() differs from compute_logw_and_logz(1.0)")
        for k, wht in g:
            viol(k, wht)
        # ---- targets OFF the specification's grid (0.3, 0.77, and just below 1: 1 - 2^-14, 1 - 2^-20).  The oracle there is the
        # independent reference of the formula (vlib.psrun.ref_logw_logz, also used by the recorded runs' RW_RefAgrees / TM_Evidence),
        # which is first VALIDATED on this very case against the specification's rationals at the grid target
        from vlib.psrun import ref_logw_logz

        bl = [np.array(ks, dtype=float) * LN2 for ks in ks_b]
        zl = [b["m"] * LN2 for b in hist]
        rw, rz = ref_logw_logz(bl, betas, zl, beta_f)
        if not (float(np.max(np.abs(np.exp(rw) / W_exp - 1.0))) <= REL and abs(math.exp(rz) / z_exp - 1.0) <= REL):
            raise RuntimeError(f"the reference of the MIS formula disagrees with MISWeights.tla on {case}")
        for tgt in (0.3, 0.77, 1.0 - 2.0 ** -14, 1.0 - 2.0 ** -20):
            lw_t, lz_t = sm.compute_logw_and_logz(tgt)
            rw, rz = ref_logw_logz(bl, betas, zl, tgt)
            evals += 1
            et = max(float(np.max(np.abs(np.asarray(lw_t, dtype=float) - rw))), abs(float(lz_t) - rz))
            if not et <= REL:
                viol("offgrid:target", f"target beta {tgt!r}: log-weights / evidence differ from the formula by {et:.3g} (history {case['hist']})", {"target": tgt})
                break
    except RuntimeError:
        raise
    except Exception as ex:  # an exception is an outcome the spec does not have
        viol("base:raised", f"raised {ex!r}")

    # ---- scale family: images of the case under the spec's ShiftInvariant at large |c|
    lW = np.log(W_exp)
    lw0 = np.log(w_exp)
    lz0 = math.log(z_exp)
    fam = [("j", j, [np.array([k + j for k in ks], dtype=float) * LN2 for ks in ks_b],
            [float(b["m"] + (b["b"] * j) // 2) * LN2 for b in hist], j * LN2) for j in J_SHIFTS]
    fam += [("c", c, [np.array(ks, dtype=float) * LN2 + c for ks in ks_b],
             [b["m"] * LN2 + be * c for b, be in zip(hist, betas)], c) for c in C_SHIFTS]
    for kind, par, logls, logzs, c in fam:
        tol = REL * max(1.0, abs(c))
        try:
            sm = build(list(zip(logls, betas, logzs)))
            lw_n, lz_n, lw_u, lz_u = call(sm, beta_f)
            evals += 2
            g = []
            if generic_checks("shift", lw_n, lz_n, lw_u, lz_u, N, tol, g):
                en = float(np.max(np.abs(lw_n - lW)))
                eu = float(np.max(np.abs(lw_u - (lw0 + beta_f * c))))
                ez = abs(lz_u - (lz0 + beta_f * c))
                stats["shift"] = max(stats["shift"], max(en, eu, ez) / max(1.0, abs(c)))
                if not en <= tol:
                    viol("shift:normalised-weights", f"shift {kind}={par}: normalised logw off by {en:.3g} > {tol:.3g}", {"shift": [kind, par]})
                if not eu <= tol:
                    viol("shift:unnormalised-weights", f"shift {kind}={par}: logw - beta_final*c off by {eu:.3g} > {tol:.3g}", {"shift": [kind, par]})
                if not ez <= tol:
                    viol("shift:evidence", f"shift {kind}={par}: logz {lz_u!r}, expected {lz0 + beta_f * c!r} (off by {ez:.3g} > {tol:.3g})", {"shift": [kind, par]})
            for k, wht in g:
                viol(k, f"shift {kind}={par}: " + wht, {"shift": [kind, par]})
        except Exception as ex:
            viol("shift:raised", f"shift {kind}={par}: raised {ex!r}", {"shift": [kind, par]})

    # ---- spread family: log-likelihoods +-1e6 apart inside one history; oracle = the spec's Enclosure
    kabs = max(max(abs(k) for k in ks) for ks in ks_b) or 1
    L = 1e6 / max(kabs, 2)
    for lzname, lzscale in (("small-logz", LN2), ("large-logz", 3.0e5)):
        logls = [np.array(ks, dtype=float) * L for ks in ks_b]
        logzs = [b["m"] * lzscale for b in hist]
        scale = 2.0 * max(1.0, max(float(np.max(np.abs(x))) for x in logls), max(abs(x) for x in logzs))
        tol = REL * scale
        try:
            sm = build(list(zip(logls, betas, logzs)))
            lw_n, lz_n, lw_u, lz_u = call(sm, beta_f)
            evals += 2
            g = []
            if generic_checks("spread", lw_n, lz_n, lw_u, lz_u, N, tol, g):
                flat = np.concatenate(logls)
                comp = flat[:, None] * np.array(betas)[None, :] - np.array(logzs)[None, :] + np.log(np.array(ns, dtype=float) / N)[None, :]
                srt = np.sort(comp, axis=1)
                c1 = srt[:, -1]
                with np.errstate(all="ignore"):
                    extra = np.log1p((T - 1) * np.exp(srt[:, -2] - c1)) if T > 1 else np.zeros(N)
                A = flat * beta_f
                hi = A - c1
                lo = A - c1 - extra
                if not (np.all(lw_u <= hi + tol) and np.all(lw_u >= lo - tol)):
                    viol("spread:enclosure", f"{lzname}: logw {lw_u.tolist()} outside the dominant-term enclosure [{lo.tolist()}, {hi.tolist()}]", {"spread": lzname})
                mx = float(np.max(lw_u))
                if not (mx - math.log(N) - tol <= lz_u <= mx + tol):
                    viol("spread:evidence", f"{lzname}: logz {lz_u!r} outside [max logw - log N, max logw] = [{mx - math.log(N)!r}, {mx!r}]", {"spread": lzname})
            for k, wht in g:
                viol(k, f"{lzname}: " + wht, {"spread": lzname})
        except Exception as ex:
            viol("spread:raised", f"{lzname}: raised {ex!r}", {"spread": lzname})

    comps = {(b["b"], b["m"]) for b in hist}
    nontrivial = T >= 2 and len(comps) >= 2 and len({tuple(q) for q in Wq}) >= 2
    return out, evals, nontrivial, stats, case


def worker(args):
    base_idx, blocks, collect = args
    res = {"table": [], "sizecand": [], "cases": 0, "evals": 0, "nontrivial": 0, "viol": [], "nviol": 0, "byT": {}, "base_err": 0.0, "shift_err": 0.0, "sample": None}
    for i, block in enumerate(blocks):
        st = tla.parse_state_block(block)
        if collect:
            res["table"].append((hkey(st["hist"]), st["bf"], st["w"], st["z"], st["W"]))
        hh = st["hist"]
        if (len(res["sizecand"]) < 2 and len(hh) >= 2 and st["bf"] >= 1 and len({b["n"] for b in hh}) >= 2
                and len({b["b"] for b in hh}) >= 2 and len(set(st["W"])) >= 2):
            res["sizecand"].append((hkey(hh), st["bf"], st["w"], st["z"], st["W"]))
        out, evals, nt, stats, case = replay_case(st, base_idx + i)
        res["cases"] += 1
        res["evals"] += evals
        res["nontrivial"] += bool(nt)
        T = len(st["hist"])
        res["byT"][T] = res["byT"].get(T, 0) + 1
        res["base_err"] = max(res["base_err"], stats["base"])
        res["shift_err"] = max(res["shift_err"], stats["shift"])
        res["nviol"] += len(out)
        for v in out:
            if len(res["viol"]) < 8:
                res["viol"].append(v)
        if res["sample"] is None and nt:
            res["sample"] = case
    return res


def done_chunks(path, chunk=400, collect=False):
    """Stream the TLC dump; yield (first index, [state blocks with pc = "done"], collect flag)."""
    hdr = tla._STATE_HDR
    cur, blocks, idx = [], [], 0

    def flush_state():
        nonlocal cur
        if cur and any(ln.startswith('/\\ pc = "done"') for ln in cur):
            blocks.append(cur)
        cur = []

    with open(path) as f:
        for ln in f:
            ln = ln.rstrip("\n")
            if hdr.match(ln):
                flush_state()
                if len(blocks) >= chunk:
                    yield idx, blocks, collect
                    idx += len(blocks)
                    blocks = []
            elif ln.startswith("/\\") or (cur and ln.strip()):
                cur.append(ln)
        flush_state()
    if blocks:
        yield idx, blocks, collect


# ------------------------------------------------------------------------------------------------
# size family: images of an enumerated case under the spec's ReplicateInvariant (every sample stored R times)

EPS = 2.220446049250313e-16
LAST_SIZE_ERRORS = {}


def size_replay(cand, R, batches=False):
    """cand = (history key, bf, w, z, W) from the TLC dump.  The history with every sample repeated R times has the
    same unnormalised weights and evidence and normalised weights W/R (ReplicateInvariant).  Weights are row-wise
    quantities (tolerance 1e-12); logz and the normaliser are sums over the R*N samples accumulated sequentially by
    logaddexp.reduce, so they carry up to ~R*N roundings: tolerance max(1e-12, 4*R*N*eps)."""
    hk, bf, w, z, W = cand
    N, T = sum(b[0] for b in hk), len(hk)
    NR = R * N
    tol_sum = max(REL, 4.0 * NR * EPS)
    out = []
    LAST_SIZE_ERRORS.clear()
    ctx = {"size_case": {"hist": hk, "bf": bf, "w": [list(q) for q in w], "z": list(z), "W": [list(q) for q in W], "R": R,
                         "entries": NR * T * (R if batches else 1), "batches": batches}}
    try:
        sm = StateManager(n_dim=1)
        if batches:
            # LONG histories: the whole sequence of iterations committed R times over (T * R iterations of the original batch
            # sizes).  Every mixture component then occurs R times with 1/R of its share (SplitInvariant + ReplicateInvariant):
            # the same unnormalised weights and evidence, normalised weights W / R
            it = 0
            for _ in range(R):
                for (n, b, m, ks) in hk:
                    it += 1
                    sm.set_current("logl", np.array(ks, dtype=float) * LN2)
                    sm.set_current("beta", b / 2.0)
                    sm.set_current("logz", m * LN2)
                    sm.set_current("iter", it)
                    sm.commit_current_to_history()
        for it, (n, b, m, ks) in enumerate(hk if not batches else (), 1):     # u / x are not needed by the weights: keep the memory for logl
            sm.set_current("logl", np.repeat(np.array(ks, dtype=float) * LN2, R))
            sm.set_current("beta", b / 2.0)
            sm.set_current("logz", m * LN2)
            sm.set_current("iter", it)
            sm.commit_current_to_history()
        lw_n, lz_n, lw_u, lz_u = call(sm, bf / 2.0)
        del sm
        if lw_n.shape != (NR,) or lw_u.shape != (NR,):
            out.append(("size:length", f"{lw_n.size} log-weights for {NR} stored samples", ctx))
            return out
        if not (np.all(np.isfinite(lw_n)) and np.all(np.isfinite(lw_u)) and math.isfinite(lz_u) and math.isfinite(lz_n)):
            out.append(("size:nonfinite", "non-finite weights / evidence", ctx))
            return out
        rep = np.tile if batches else np.repeat
        w_exp = rep(np.array([a / b for a, b in w]), R)
        W_exp = rep(np.array([a / b for a, b in W]), R) / R
        z_exp = z[0] / z[1]
        eu = float(np.max(np.abs(np.exp(lw_u) / w_exp - 1.0)))
        en = float(np.max(np.abs(np.exp(lw_n) / W_exp - 1.0)))
        ez = max(abs(math.exp(lz_u) / z_exp - 1.0), abs(math.exp(lz_n) / z_exp - 1.0))
        es = abs(float(np.exp(lw_n).sum()) - 1.0)
        ctx["errors"] = {"unnormalised": eu, "normalised": en, "evidence": ez, "sum": es}
        LAST_SIZE_ERRORS.clear()
        LAST_SIZE_ERRORS.update(ctx["errors"])
        where = (f"R={R}, {NR} samples x {T} iterations = {NR * T} entries" if not batches else
                 f"the history repeated {R} times: {NR} samples x {T * R} iterations")
        if not eu <= REL:
            out.append(("size:unnormalised-weights", f"{where}: exp(logw) differs from the spec's rationals (rel err {eu:.3g})", ctx))
        if not en <= tol_sum:
            out.append(("size:normalised-weights", f"{where}: R*exp(logw) differs from the spec's normalised weights (rel err {en:.3g} > {tol_sum:.3g})", ctx))
        if not ez <= tol_sum:
            out.append(("size:evidence", f"{where}: exp(logz) = {math.exp(lz_u)!r}, spec {z[0]}/{z[1]} (rel err {ez:.3g} > {tol_sum:.3g})", ctx))
        if not es <= tol_sum:
            out.append(("size:sum", f"{where}: normalised weights sum to 1 + {es:.3g}", ctx))
    except Exception as ex:
        out.append(("size:raised", f"R={R}: raised {ex!r}", ctx))
    return out


def size_plan(cands, tier, rng):
    """[(candidate, [target number of sample-by-iteration entries, ...])]: around 2^20, 2^22, on both sides of 2^23, 10^7."""
    byT = {}
    for c in sorted(set(cands)):
        byT.setdefault(len(c[0]), []).append(c)
    pick = lambda T: byT[T][rng.randint(len(byT[T]))] if byT.get(T) else None  # noqa: E731
    if tier == "quick":
        plan = [(pick(3) or pick(2), [2 ** 20 + 1, 2 ** 22 + 1, 10 ** 7]), (pick(2), [2 ** 23, 2 ** 23 + 1]), (pick(3) or pick(2), [10 ** 7])]
    else:
        plan = []
        for i in range(12):
            T = 3 if i % 2 == 0 and byT.get(3) else 2
            plan.append((pick(T), [[2 ** 20 + 1, 10 ** 7], [2 ** 21 + 1, 2 ** 23, 2 ** 23 + 1], [2 ** 22 + 1, 12 * 10 ** 6], [2 ** 19 + 1, 10 ** 7]][i % 4]))
    return [(c, t) for c, t in plan if c is not None]


def size_R(cand, target):
    """largest R with R*N*T <= target if target is a power of two (stay at / below the boundary), else smallest R reaching it."""
    nt = sum(b[0] for b in cand[0]) * len(cand[0])
    return max(1, target // nt) if target & (target - 1) == 0 else -(-target // nt)


# ------------------------------------------------------------------------------------------------
# object reuse: one StateManager, the stored history changes between queries

def hkey(hist):
    return tuple((b["n"], b["b"], b["m"], tuple(b["ks"])) for b in hist)


def key_batches(hk):
    return [(np.array(ks, dtype=float) * LN2, b / 2.0, m * LN2) for (_, b, m, ks) in hk]


def against_spec(tag, sm, hk, bf, table, out, ctx):
    """Query the living object and compare with the spec's rationals for the history stored NOW."""
    w, z, W = table[(hk, bf)]
    N = sum(b[0] for b in hk)
    w_exp = np.array([a / b for a, b in w])
    W_exp = np.array([a / b for a, b in W])
    z_exp = z[0] / z[1]
    lw_n, lz_n, lw_u, lz_u = call(sm, bf / 2.0)
    rp = dict(ctx, queried_bf=bf, expected={"w": [list(q) for q in w], "z": list(z), "W": [list(q) for q in W]},
              got={"logw_norm": lw_n.tolist(), "logw_unnorm": lw_u.tolist(), "logz": lz_u})
    if lw_n.shape != (N,) or lw_u.shape != (N,):
        out.append((tag + ":length", f"{lw_n.size} log-weights for a stored history of {N} samples", rp))
        return 2
    with np.errstate(all="ignore"):
        eu = float(np.max(np.abs(np.exp(lw_u) / w_exp - 1.0)))
        en = float(np.max(np.abs(np.exp(lw_n) / W_exp - 1.0)))
        ez = max(abs(math.exp(lz_u) / z_exp - 1.0), abs(math.exp(lz_n) / z_exp - 1.0)) if math.isfinite(lz_u) and math.isfinite(lz_n) else math.inf
    if not (eu <= REL and en <= REL):
        out.append((tag + ":weights", f"weights are not the formula on the stored history (rel err unnormalised {eu:.3g}, normalised {en:.3g})", rp))
    if not ez <= REL:
        out.append((tag + ":evidence", f"exp(logz) = {math.exp(lz_u) if math.isfinite(lz_u) else lz_u!r}, spec {z[0]}/{z[1]} on the stored history (rel err {ez:.3g})", rp))
    return 2


def results_against_spec(tag, sm, hk, table, out, ctx):
    """compute_results()['logw'] = normalised log-weights at beta = 1 of the history stored now (equal batch sizes only:
    compute_results stacks the batches)."""
    if len({b[0] for b in hk}) != 1:
        return 0
    W = table[(hk, 2)][2]
    N = sum(b[0] for b in hk)
    lw = np.asarray(sm.compute_results()["logw"], dtype=float)
    rp = dict(ctx, expected={"W": [list(q) for q in W]}, got={"logw": lw.tolist()})
    if lw.shape != (N,):
        out.append((tag + ":results", f"compute_results(): {lw.size} log-weights for a stored history of {N} samples", rp))
        return 1
    with np.errstate(all="ignore"):
        en = float(np.max(np.abs(np.exp(lw) / np.array([a / b for a, b in W]) - 1.0)))
    if not en <= REL:
        out.append((tag + ":results", f"compute_results()['logw'] is not the formula on the stored history (rel err {en:.3g})", rp))
    return 1


def install(route, sm, hk, tmpdir):
    import contextlib
    import io

    other = build(key_batches(hk))
    if route == "update_from_dict":
        sm.update_from_dict(other.to_dict())
    elif route == "load_state":
        path = os.path.join(tmpdir, "h2.state")
        with contextlib.redirect_stdout(io.StringIO()):
            other.save_state(path)
        sm.load_state(path)
    else:
        raise ValueError(route)


def reuse_sequence(seq, table, tmpdir):
    """seq = (route, h1, bf1, h2, bf2, bf3, extra batch or None).  Returns (violations, evaluations)."""
    route, h1, bf1, h2, bf2, bf3, bt = seq
    out = []
    ev = 0
    ctx = {"sequence": {"route": route, "h1": h1, "bf1": bf1, "h2": h2, "bf2": bf2, "bf3": bf3, "commit": bt}}
    try:
        sm = build(key_batches(h1))
        ev += against_spec("reuse:first-query", sm, h1, bf1, table, out, ctx)
        ev += results_against_spec("reuse:first-query", sm, h1, table, out, ctx)
        install(route, sm, h2, tmpdir)
        n_now = len(sm.get_history("logl", flat=True))
        if sm.get_history_length() != len(h2) or n_now != sum(b[0] for b in h2):
            out.append((f"reuse:{route}:history-not-installed",
                        f"after {route} the object stores {sm.get_history_length()} batches / {n_now} samples, the installed history has {len(h2)} / {sum(b[0] for b in h2)}", ctx))
            return out, ev
        ev += against_spec(f"reuse:{route}", sm, h2, bf2, table, out, ctx)
        ev += against_spec(f"reuse:{route}", sm, h2, bf3, table, out, ctx)
        ev += results_against_spec(f"reuse:{route}", sm, h2, table, out, ctx)
        if bt is not None:
            n, b, m, ks = bt
            pts = np.full((n, 1), 0.5)
            for k, v in (("u", pts), ("x", pts), ("logl", np.array(ks, dtype=float) * LN2), ("beta", b / 2.0), ("logz", m * LN2), ("iter", len(h2) + 1)):
                sm.set_current(k, v)
            sm.commit_current_to_history()
            h3 = h2 + (bt,)
            ev += against_spec(f"reuse:commit-after-{route}", sm, h3, bf2, table, out, ctx)
            ev += results_against_spec(f"reuse:commit-after-{route}", sm, h3, table, out, ctx)
    except Exception as ex:
        out.append((f"reuse:{route}:raised", f"raised {ex!r}", ctx))
    return out, ev


TABLE = None      # (history key, bf) -> (w, z, W), filled from the TLC dump before the reuse pool is forked


def reuse_worker(args):
    seqs, tmpdir = args
    tmpdir = os.path.join(tmpdir, f"w{os.getpid()}")
    os.makedirs(tmpdir, exist_ok=True)
    out, ev = [], 0
    for sq in seqs:
        o, e = reuse_sequence(sq, TABLE, tmpdir)
        ev += e
        out += o
    return out[:12], len(out), ev, len(seqs)


def make_sequences(table, rng, n_update, n_file):
    hists = sorted({hk for hk, _ in table})
    by_len = {}
    for hk in hists:
        by_len.setdefault(len(hk), []).append(hk)
    singles = [hk[0] for hk in by_len.get(1, [])]
    hset = set(hists)
    seqs = []
    for route, n in (("update_from_dict", n_update), ("load_state", n_file)):
        for i in range(n):
            h1 = hists[rng.randint(len(hists))]
            pool2 = by_len.get(1, hists) if i % 2 == 1 else hists      # every other sequence can be followed by a commit
            while True:
                h2 = pool2[rng.randint(len(pool2))]
                if h2 != h1:
                    break
            if i % 4 == 0:      # same number of samples, other content: nothing but the values can reveal staleness
                same = [h for h in (hists[rng.randint(len(hists))] for _ in range(40)) if h != h1 and sum(b[0] for b in h) == sum(b[0] for b in h1)]
                if same:
                    h2 = same[0]
            bf1, bf2 = int(rng.randint(3)), int(rng.randint(3))
            bf3 = (bf2 + 1 + int(rng.randint(2))) % 3
            bt = None
            if singles:
                cand = singles[rng.randint(len(singles))]
                if h2 + (cand,) in hset:
                    bt = cand
            seqs.append((route, h1, bf1, h2, bf2, bf3, bt))
    return seqs


def sampler_reuse(seed, tmpdir):
    """A finished Sampler loads its own EARLIER checkpoints; posterior/results must describe the loaded history.
    Reference: the code itself on a fresh StateManager rebuilt by commits from the loaded history (the path bound
    to the spec's rationals by the base family)."""
    import contextlib
    import io

    from tempest import Sampler

    def prior_transform(u):
        return 20.0 * u - 10.0

    def log_likelihood(x):
        return -0.5 * np.sum(x ** 2, axis=-1) - 0.5 * x.shape[-1] * np.log(2 * np.pi)

    out, info = [], {"loads": 0, "inconclusive": []}
    np.random.seed(seed)
    s = Sampler(prior_transform, log_likelihood, n_dim=2, vectorize=True, n_particles=32, clustering=False,
                random_state=seed, output_dir=tmpdir)
    with contextlib.redirect_stdout(io.StringIO()), contextlib.redirect_stderr(io.StringIO()):
        s.run(n_total=128, progress=False, save_every=1)
        s.posterior()
        s.results()
    n_final = len(s.state.get_history("logl", flat=True))
    info["final_samples"] = n_final
    idx = sorted(int(f.split("_")[1].split(".")[0]) for f in os.listdir(tmpdir) if f.startswith("ps_") and f.endswith(".state") and f.split("_")[1].split(".")[0].isdigit())
    earlier = [i for i in idx if i >= 2][:-1]
    picks = sorted({earlier[len(earlier) // 2], earlier[0]}) if earlier else []
    for i in picks:
        ctx = {"sampler": {"seed": seed, "checkpoint": f"ps_{i}.state", "final_samples": n_final}}
        try:
            with contextlib.redirect_stdout(io.StringIO()), contextlib.redirect_stderr(io.StringIO()):
                s.load_state(os.path.join(tmpdir, f"ps_{i}.state"))
            T = s.state.get_history_length()
            n_ck = len(s.state.get_history("logl", flat=True))
            if n_ck >= n_final:
                info["inconclusive"].append(f"ps_{i}: load_state left {n_ck} samples (final {n_final}); nothing to distinguish")
                continue
            fresh = build([(s.state.get_history("logl", index=t), float(s.state.get_history("beta", index=t)),
                            float(s.state.get_history("logz", index=t))) for t in range(T)])
            ref_w, ref_z = fresh.compute_logw_and_logz(1.0)
            info["loads"] += 1
            info.setdefault("loaded_samples", []).append(n_ck)
            got = {"posterior": np.asarray(s.posterior(resample=False, trim_importance_weights=False, return_logw=True)[-1], dtype=float),
                   "results": np.asarray(s.results()["logw"], dtype=float),
                   "state": np.asarray(s.state.compute_logw_and_logz(1.0)[0], dtype=float)}
            for name, lw in got.items():
                if lw.shape != ref_w.shape:
                    out.append(("reuse:sampler-load_state:length", f"{name}: {lw.size} log-weights after loading ps_{i}.state which stores {n_ck} samples", ctx))
                elif not np.all(np.abs(lw - ref_w) <= REL * (1.0 + np.abs(ref_w))):
                    out.append(("reuse:sampler-load_state:weights", f"{name}: log-weights after loading ps_{i}.state differ from the formula on the loaded history (max diff {float(np.max(np.abs(lw - ref_w))):.3g})", ctx))
            lz = float(s.state.compute_logw_and_logz(1.0)[1])
            if not abs(lz - ref_z) <= REL * (1.0 + abs(ref_z)):
                out.append(("reuse:sampler-load_state:evidence", f"logz {lz!r} after loading ps_{i}.state, formula on the loaded history gives {float(ref_z)!r}", ctx))
        except Exception as ex:
            out.append(("reuse:sampler-load_state:raised", f"loading ps_{i}.state into the finished sampler raised {ex!r}", ctx))
    return out, info


def count_pcs(path):
    cnt = {}
    with open(path) as f:
        for ln in f:
            if ln.startswith("/\\ pc = "):
                k = ln.split('"')[1]
                cnt[k] = cnt.get(k, 0) + 1
    return cnt


# ------------------------------------------------------------------------------------------------

def models(tier, seed):
    """(name, constants, exhaustive?) of the intended-formula TLC runs."""
    if tier == "quick":
        return [
            ("T<=2 n<=2 |k|<=2", dict(ts="{1, 2}", nmax=2, kmax=2, shiftmax=4, workers=8), True),
            ("T=1 n<=3 |k|<=4", dict(ts="{1}", nmax=3, kmax=4, shiftmax=4), True),
            ("T=2 n<=3 |k|<=4 sampled", dict(ts="{2}", nmax=3, kmax=4, shiftmax=2, bmod=4, mod=5, salt=seed % 20, repmax=2), False),
            ("T=3 n<=2 |k|<=2 sampled", dict(ts="{3}", nmax=2, kmax=2, shiftmax=4, bmod=3, mod=7, salt=seed % 21), False),
        ]
    return [
        ("T<=2 n<=2 |k|<=4", dict(ts="{1, 2}", nmax=2, kmax=4, shiftmax=4, workers=6, repmax=2), True),
        ("T=1 n<=3 |k|<=4", dict(ts="{1}", nmax=3, kmax=4, shiftmax=4), True),
        ("T=2 n<=3 |k|<=4 sampled", dict(ts="{2}", nmax=3, kmax=4, shiftmax=2, mod=5, salt=seed % 5, workers=8, repmax=2), False),
        ("T=3 n<=1 |k|<=2", dict(ts="{3}", nmax=1, kmax=2, shiftmax=4), True),
        ("T=3 n<=2 |k|<=2 sampled", dict(ts="{3}", nmax=2, kmax=2, shiftmax=4, mod=8, salt=seed % 8, workers=8, repmax=2), False),
    ]


def main():
    global np, StateManager
    ck = core.Check("C04", "model_checking")
    core.import_repo()
    import warnings

    import numpy
    from tempest.state_manager import StateManager as SM

    np = numpy
    StateManager = SM
    warnings.simplefilter("ignore")

    if ck.args.replay:
        with open(ck.args.replay) as f:
            rp = json.load(f)["replay"]
        if "sampler" in rp:
            tmp = tlc.scratch_dir("c04s_")
            try:
                out, info = sampler_reuse(rp["sampler"]["seed"], tmp)
            finally:
                shutil.rmtree(tmp, ignore_errors=True)
            for key, what, r in out:
                ck.violation(key, what, r)
            ck.finish({"states": 1, "transitions": 1, "traces_validated_against_impl": info["loads"], "replayed_file": ck.args.replay})
        if "size_case" in rp:
            q = rp["size_case"]
            cand = (tuple((b[0], b[1], b[2], tuple(b[3])) for b in q["hist"]), q["bf"], tuple(tuple(x) for x in q["w"]),
                    tuple(q["z"]), tuple(tuple(x) for x in q["W"]))
            for key, what, r in size_replay(cand, q["R"], batches=bool(q.get("batches"))):
                ck.violation(key, what, r)
            ck.finish({"states": 1, "transitions": 1, "traces_validated_against_impl": 1, "evaluations": 2, "replayed_file": ck.args.replay})
        if "sequence" in rp:
            q = rp["sequence"]
            tup = lambda h: tuple((b[0], b[1], b[2], tuple(b[3])) for b in h)  # noqa: E731
            seq = (q["route"], tup(q["h1"]), q["bf1"], tup(q["h2"]), q["bf2"], q["bf3"], tup([q["commit"]])[0] if q["commit"] else None)
            allb = list(seq[1]) + list(seq[3]) + ([seq[6]] if seq[6] else [])
            kmax = max(2, max(abs(k) for b in allb for k in b[3]))
            consts = dict(ts="{1, 2}", nmax=max(b[0] for b in allb), kmax=kmax, shiftmax=4 if kmax <= 2 else 2, workers=8)
            r = tlc.run_tlc("MISWeights", cfg_text(consts), dump=True, workers=8)     # the oracle: TLC's rationals
            table = {}
            for _, blocks, _ in done_chunks(r.dump_path):
                for blk in blocks:
                    st = tla.parse_state_block(blk)
                    table[(hkey(st["hist"]), st["bf"])] = (st["w"], st["z"], st["W"])
            r.cleanup()
            tmp = tlc.scratch_dir("c04s_")
            try:
                out, evals = reuse_sequence(seq, table, tmp)
            finally:
                shutil.rmtree(tmp, ignore_errors=True)
            for key, what, rr in out:
                ck.violation(key, what, rr)
            ck.finish({"states": r.distinct, "transitions": r.generated, "traces_validated_against_impl": 1, "evaluations": evals, "replayed_file": ck.args.replay})
        c = rp["case"]
        st = {"hist": tuple(dict(n=b["n"], b=b["b"], m=b["m"], ks=tuple(b["ks"])) for b in c["hist"]), "bf": c["bf"],
              "w": tuple(tuple(q) for q in c["w"]), "z": tuple(c["z"]), "W": tuple(tuple(q) for q in c["W"])}
        out, evals, _, _, _ = replay_case(st, 0)      # index 0: keep the order recorded in the file
        for key, what, r in out:
            ck.violation(key, what, r)
        ck.finish({"states": 1, "transitions": 1, "traces_validated_against_impl": 1, "evaluations": evals, "replayed_file": ck.args.replay})

    import multiprocessing as mp

    mods = models(ck.tier, ck.seed)
    small = dict(ts="{1, 2}", nmax=2, kmax=2, shiftmax=4)
    nprocs = max(2, min(14, (os.cpu_count() or 4) - 2))

    # ---- all TLC runs concurrently (intended formula with dump + coverage; wrong formulas must be refuted)
    def run_intended(m):
        name, c, _ = m
        return tlc.run_tlc("MISWeights", cfg_text(c), dump=True, coverage=True, workers=c.get("workers", 4))

    def run_wrong(v):
        # without the declarative Formula invariant: the behavioural properties alone must pin the formula
        base, invs = (REUSE_MODEL, REUSE_INVARIANTS) if v == "StaleMix" else (small, INVARIANTS)
        return tlc.run_tlc("MISWeights", cfg_text(base, variant=v, invs=[i for i in invs if i != "Formula"]), workers=2)

    def run_reuse():
        return tlc.run_tlc("MISWeights", cfg_text(REUSE_MODEL, invs=REUSE_INVARIANTS), coverage=True, workers=REUSE_MODEL["workers"])

    with ThreadPoolExecutor(max_workers=len(mods) + len(WRONG) + 2) as ex:
        fut_i = [ex.submit(run_intended, m) for m in mods]
        fut_w = {v: ex.submit(run_wrong, v) for v in WRONG + ["StaleMix"]}
        fut_r = ex.submit(run_reuse)
        results = [f.result() for f in fut_i]
        wrong = {v: f.result() for v, f in fut_w.items()}
        reuse_res = fut_r.result()

    import atexit

    all_runs = results + list(wrong.values()) + [reuse_res]
    atexit.register(lambda: [r.cleanup() for r in all_runs])      # also on machinery failures: nothing stays in the scratch dir

    refuted = {}
    for v, r in wrong.items():
        r.cleanup()
        if r.status != "violation" or r.violated not in REUSE_INVARIANTS:
            raise RuntimeError(f"vacuity: TLC did not refute the seeded wrong formula {v} (status {r.status} {r.violated})")
        refuted[v] = r.violated

    if wrong["StaleMix"].violated != "CurrentHistoryOnly":
        raise RuntimeError(f"the stale-cache variant was refuted by {wrong['StaleMix'].violated}, expected CurrentHistoryOnly")

    states = transitions = 0
    spec_failed = False
    reuse_res.cleanup()
    if reuse_res.status != "ok":
        spec_failed = True
        ck.violation("spec:reuse:" + reuse_res.violated, f"TLC: {reuse_res.violated} violated on MISWeights.tla (object-reuse model)",
                     {"trace": reuse_res.error_trace, "model": REUSE_MODEL})
    else:
        for a in ACTIONS + ["DoReplace", "DoCommit"]:
            if reuse_res.coverage.get(a, (0, 0))[1] <= 0:
                raise RuntimeError(f"vacuity: action {a} has zero coverage in the object-reuse model: {reuse_res.coverage}")
    states += reuse_res.distinct
    transitions += reuse_res.generated
    for (name, c, _), r in zip(mods, results):
        states += r.distinct
        transitions += r.generated
        if r.status != "ok":
            spec_failed = True
            ck.violation("spec:" + r.violated, f"TLC: {r.violated} violated on MISWeights.tla ({name})", {"trace": r.error_trace, "model": c})
    if spec_failed:
        for r in results:
            r.cleanup()
        ck.finish({"states": max(states, 1), "transitions": max(transitions, 1), "traces_validated_against_impl": 0})

    # ---- non-vacuity of the state machines
    cov = {}
    for (name, c, _), r in zip(mods, results):
        pcs = count_pcs(r.dump_path)
        for a in ACTIONS:
            if r.coverage.get(a, (0, 0))[1] <= 0:
                raise RuntimeError(f"vacuity: action {a} has zero coverage in model {name}: {r.coverage}")
        if not pcs.get("done"):
            raise RuntimeError(f"vacuity: no completed computation in model {name}")
        cov[name] = {"constants": c, "distinct_states": r.distinct, "generated": r.generated, "tlc_wall_s": round(r.wall_s, 1),
                     "states_by_pc": pcs, "tlc_coverage": {k: list(v) for k, v in r.coverage.items()}}

    # ---- replay every completed computation into the real StateManager
    global TABLE
    tot = {"cases": 0, "evals": 0, "nontrivial": 0, "nviol": 0, "byT": {}, "base_err": 0.0, "shift_err": 0.0}
    table = {}
    sizecands = []
    ctx = mp.get_context("fork")
    with ctx.Pool(nprocs) as pool:
        for mi, ((name, c, _), r) in enumerate(zip(mods, results)):
            n_model = 0
            for res in pool.imap_unordered(worker, done_chunks(r.dump_path, collect=(mi == 0))):
                n_model += res["cases"]
                for hk, f, w, z, W in res["table"]:
                    table[(hk, f)] = (w, z, W)
                if len(sizecands) < 4000:
                    sizecands += res["sizecand"]
                for k in ("cases", "evals", "nontrivial", "nviol"):
                    tot[k] += res[k]
                for T, n in res["byT"].items():
                    tot["byT"][T] = tot["byT"].get(T, 0) + n
                tot["base_err"] = max(tot["base_err"], res["base_err"])
                tot["shift_err"] = max(tot["shift_err"], res["shift_err"])
                for key, what, rp in res["viol"]:
                    rp["model"] = name
                    ck.violation(key, what, rp)
                extra = res["nviol"] - len(res["viol"])
                if extra > 0:
                    ck.violations += extra
                if res["sample"] is not None and len(ck.samples) < 4 and not any(s.get("model") == name for s in ck.samples):
                    ck.sample({"model": name, **res["sample"]})
            if n_model != cov[name]["states_by_pc"]["done"]:
                raise RuntimeError(f"replayed {n_model} cases of {name}, dump has {cov[name]['states_by_pc']['done']}")
            cov[name]["cases_replayed"] = n_model
            r.cleanup()

    # ---- object reuse: one StateManager whose stored history is replaced / extended between queries
    if len(table) != cov[mods[0][0]]["states_by_pc"]["done"]:
        raise RuntimeError(f"oracle table has {len(table)} entries, model {mods[0][0]} has {cov[mods[0][0]]['states_by_pc']['done']} cases")
    TABLE = table
    rng = np.random.RandomState(ck.seed + 404)
    n_update, n_file = (1500, 150) if ck.tier == "quick" else (30000, 1500)
    seqs = make_sequences(table, rng, n_update, n_file)
    reuse = {"sequences": 0, "queries": 0, "with_commit": sum(1 for q in seqs if q[6] is not None),
             "same_sample_count": sum(1 for q in seqs if sum(b[0] for b in q[1]) == sum(b[0] for b in q[3])),
             "by_route": {"update_from_dict": n_update, "load_state": n_file}, "oracle_model": mods[0][0]}
    tmp = tlc.scratch_dir("c04s_")
    import time
    t_reuse = time.time()
    try:
        with ctx.Pool(nprocs) as pool:     # forked now: the workers inherit TABLE
            step = max(1, len(seqs) // (4 * nprocs))
            for vio, nvio, ev, n in pool.imap_unordered(reuse_worker, [(seqs[i:i + step], tmp) for i in range(0, len(seqs), step)]):
                reuse["sequences"] += n
                reuse["queries"] += ev
                for key, what, rp in vio:
                    ck.violation(key, what, rp)
                if nvio > len(vio):
                    ck.violations += nvio - len(vio)
        reuse["statemanager_wall_s"] = round(time.time() - t_reuse, 2)
        t_reuse = time.time()
        sam_out, sam_info = [], {"runs": 0}
        for k in range(1 if ck.tier == "quick" else 4):
            d = os.path.join(tmp, f"sampler{k}")
            os.makedirs(d)
            o, info = sampler_reuse(ck.seed + k, d)
            sam_out += o
            sam_info["runs"] += 1
            for kk, v in info.items():
                sam_info.setdefault(kk, []).append(v)
        for key, what, rp in sam_out:
            ck.violation(key, what, rp)
    finally:
        shutil.rmtree(tmp, ignore_errors=True)
    reuse["sampler_wall_s"] = round(time.time() - t_reuse, 2)

    # ---- size family (sequential, in this process: one dense N x T matrix of ~80 MB at a time)
    t_size = time.time()
    size = {"cases": [], "evaluations": 0}
    for cand, targets in size_plan(sizecands, ck.tier, np.random.RandomState(ck.seed + 23)):
        for target in targets:
            R = size_R(cand, target)
            vio = size_replay(cand, R)
            size["evaluations"] += 2
            nt = sum(b[0] for b in cand[0]) * len(cand[0])
            size["cases"].append({"hist": cand[0], "bf": cand[1], "R": R, "entries": R * nt, "rel_errors": dict(LAST_SIZE_ERRORS)})
            for key, what, rp in vio:
                ck.violation(key, what, rp)
    # long histories (many iterations): on both sides of 64 / 128 / 256 iterations and not a multiple of them
    long_T = []
    for cand, _ in size_plan(sizecands, "quick", np.random.RandomState(ck.seed + 29)):
        T0 = len(cand[0])
        for Ttarget in ([65, 100, 129] if ck.tier == "quick" else [63, 64, 65, 100, 127, 129, 200, 257, 300]):
            R = -(-Ttarget // T0)
            for key, what, rp in size_replay(cand, R, batches=True):
                ck.violation(key.replace("size:", "long:"), what, rp)
            size["evaluations"] += 2
            long_T.append(T0 * R)
    size["long_histories_iterations"] = sorted(set(long_T))
    size["wall_s"] = round(time.time() - t_size, 2)
    if not size["cases"] or max(c["entries"] for c in size["cases"]) <= 2 ** 23:
        raise RuntimeError(f"size family did not reach 2^23 entries: {size}")

    reuse["sampler_level"] = sam_info
    reuse["tlc_model"] = {"constants": REUSE_MODEL, "distinct_states": reuse_res.distinct, "generated": reuse_res.generated,
                          "tlc_coverage": {k: list(v) for k, v in reuse_res.coverage.items()}}

    ck.assumptions += [
        "numpy float64 exp/log/logaddexp are accurate to a few ulp (the only inexact operations on the replayed witnesses)",
        "ln 2 is represented by the same double everywhere, so k*LN2 witnesses behave as exact powers of two up to ~1e-15 relative",
        "scale families compare at relative 1e-12 of |c| (inputs of magnitude 1e6 carry ~1e-10 absolute rounding in logL itself)",
    ]
    ck.finish({
        "states": states,
        "transitions": transitions,
        "traces_validated_against_impl": tot["cases"] + reuse["sequences"] + len(size["cases"]),
        "evaluations": tot["evals"] + reuse["queries"] + size["evaluations"],
        "distinct_nontrivial": tot["nontrivial"],
        "rule": "each pc=done state of MISWeights.tla (history, bf, exact w, Z, W) is one case; non-trivial = T >= 2 with at "
                "least two distinct (beta_t, logZ_t) components and non-uniform expected weights; every case is replayed at "
                "base scale (normalize on/off), under 8 likelihood shifts |c| up to 1e6 and 2 spread images (+-1e6 inside one history); "
                "object reuse: seeded sequences h1 -> query -> replace by h2 (update_from_dict | save_state+load_state) -> 2 queries "
                "+ compute_results -> commit -> query on ONE StateManager, each answer against the spec's rationals of the history "
                "stored at that moment (oracle = the exhaustive T<=2 model's dump), plus finished Sampler runs loading their own earlier checkpoints; "
                "size family: enumerated T = 2 / 3 cases with unequal batch sizes and mixed temperatures replayed with every sample stored R times "
                "(ReplicateInvariant) at about 2^20, 2^22, 2^23 (both sides) and 10^7 sample-by-iteration entries",
        "exhaustive": all(e for _, _, e in mods),
        "exhaustive_models": [n for n, _, e in mods if e],
        "sampled_models": [n for n, _, e in mods if not e],
        "cases_by_T": {str(k): v for k, v in sorted(tot["byT"].items())},
        "max_rel_err_base": tot["base_err"],
        "max_abs_err_over_c_shift": tot["shift_err"],
        "wrong_formulas_refuted_by_tlc": refuted,
        "object_reuse": reuse,
        "size_family": size,
        "models": cov,
        "invariants": REUSE_INVARIANTS,
    })


core.main_guard(main)
