#!/venv/bin/python
"""C04 - importance weights follow the balance-heuristic mixture formula.

TLC enumerates specs/MISWeights.tla (histories of T <= 3 batches [n, b, m, ks] with beta_t = b/2,
logZ_t = m ln 2, logL = k ln 2, k even, so that every tempered density is a power of two and weights /
evidence are exact rationals) and checks on the specification: the declarative formula, normalised
weights sum to exactly one, invariance under permutation of the batches, shift invariance, batch-split
invariance, the T = 1 self-normalised-IS degeneration and the dominant-term enclosure.  Seeded wrong
formulas (no -logZ_t, no n_t/N, n_t/T, mean over T, max-normalisation) must each be refuted by TLC.

Binding B: every enumerated completed computation (history, bf, w, z, W) is built in a real
StateManager through set_current/commit_current_to_history and compute_logw_and_logz(bf/2) is
compared with the rationals (relative 1e-12), then replayed through the images of the case under the
spec's shift invariance (|c| up to 1e6) and through a +-1e6 within-history spread family whose oracle
is the spec's enclosure invariant.
"""
import json
import math
import os
import sys
from concurrent.futures import ThreadPoolExecutor

os.environ.setdefault("OMP_NUM_THREADS", "1")
os.environ.setdefault("OPENBLAS_NUM_THREADS", "1")
os.environ.setdefault("MKL_NUM_THREADS", "1")

sys.path.insert(0, os.path.dirname(os.path.dirname(os.path.abspath(__file__))))
from vlib import core, tla, tlc  # noqa: E402

INVARIANTS = ["TypeOK", "Formula", "SumOne", "PermInvariant", "ShiftInvariant", "SplitInvariant",
              "SingleBatchSNIS", "Enclosure"]
ACTIONS = ["Init", "Mix", "Weigh", "Normalise"]
WRONG = ["NoLogZ", "NoMixW", "MixT", "MeanT", "MaxNorm"]

CFG = """INIT Init
NEXT Next
CONSTANTS
  Ts = {ts}
  NMax = {nmax}
  KMax = {kmax}
  MMax = 2
  Bs = {{0, 1, 2}}
  Bfs = {{0, 1, 2}}
  ShiftMax = {shiftmax}
  Variant = "{variant}"
  SampleMod = {mod}
  BatchMod = {bmod}
  SampleSalt = {salt}
{invs}
CHECK_DEADLOCK FALSE
"""

LN2 = math.log(2.0)
REL = 1e-12                      # the design's tolerance: relative 1e-12 (on |c| for the scale families)
J_SHIFTS = (1442, -1442, 1442696, -1442696)     # even integers j: c = j ln 2 ~ +-1e3, +-1e6 (the spec's own shift)
C_SHIFTS = (1e3, -1e3, 1e6, -1e6)               # real shifts c (design 3.4)

np = None
StateManager = None


def cfg_text(c, variant="intended", invs=INVARIANTS):
    return CFG.format(ts=c["ts"], nmax=c["nmax"], kmax=c["kmax"], shiftmax=c["shiftmax"], variant=variant,
                      mod=c.get("mod", 1), bmod=c.get("bmod", 1), salt=c.get("salt", 0),
                      invs="\n".join("INVARIANT " + i for i in invs))


# ------------------------------------------------------------------------------------------------
# driving the real code

def build(batches):
    """batches: list of (logl ndarray, beta float, logz float) -> StateManager with that history,
    built through the public API exactly as the sampler does (one commit per batch)."""
    sm = StateManager(n_dim=1)
    for it, (logl, beta, logz) in enumerate(batches, 1):
        n = len(logl)
        pts = np.full((n, 1), 0.5)
        sm.set_current("u", pts)
        sm.set_current("x", pts)
        sm.set_current("logl", logl)
        sm.set_current("beta", beta)
        sm.set_current("logz", logz)
        sm.set_current("iter", it)
        sm.commit_current_to_history()
    return sm


def call(sm, beta_final):
    lw_n, lz_n = sm.compute_logw_and_logz(beta_final)                  # normalize=True is the default
    lw_u, lz_u = sm.compute_logw_and_logz(beta_final, normalize=False)
    return np.asarray(lw_n, dtype=float), float(lz_n), np.asarray(lw_u, dtype=float), float(lz_u)


def generic_checks(tag, lw_n, lz_n, lw_u, lz_u, N, tol, out):
    """Checks that need no oracle: shapes, finiteness, sum to one, normalised = unnormalised - log(N Z).
    Returns False only when the result cannot be compared any further (wrong shape / non-finite)."""
    if lw_n.shape != (N,) or lw_u.shape != (N,):
        out.append((tag + ":shape", f"shapes {lw_n.shape} {lw_u.shape}, expected ({N},)"))
        return False
    if not (np.all(np.isfinite(lw_n)) and np.all(np.isfinite(lw_u)) and math.isfinite(lz_n) and math.isfinite(lz_u)):
        out.append((tag + ":nonfinite", f"non-finite result: logw_n={lw_n.tolist()} logw_u={lw_u.tolist()} logz={lz_n},{lz_u}"))
        return False
    if abs(lz_n - lz_u) > tol:
        out.append((tag + ":logz-depends-on-normalize", f"logz {lz_n!r} (normalize=True) vs {lz_u!r} (False)"))
    with np.errstate(all="ignore"):
        s = float(np.exp(lw_n).sum())
    if not abs(s - 1.0) <= tol:
        out.append((tag + ":sum", f"normalised weights sum to {s!r} (|sum-1| = {abs(s - 1):.3g} > {tol:.3g})"))
    d = float(np.max(np.abs(lw_n - (lw_u - lz_u - math.log(N)))))
    if not d <= tol:
        out.append((tag + ":consistency", f"normalised logw differs from logw - logz - log N by {d:.3g} > {tol:.3g}"))
    return True


def replay_case(st, idx):
    """st: a pc = "done" state of MISWeights.  Returns (violations, n_evaluations, nontrivial, stats)."""
    hist = st["hist"]
    bf = st["bf"]
    T = len(hist)
    ns = [b["n"] for b in hist]
    N = sum(ns)
    beta_f = bf / 2.0
    rev = (idx % 2 == 1)           # the order inside a batch is a symmetry the spec quotients by: replay both
    ks_b, wq, Wq = [], [], []
    pos = 0
    for b in hist:
        ks = list(b["ks"])
        ws = list(st["w"][pos:pos + b["n"]])
        Ws = list(st["W"][pos:pos + b["n"]])
        pos += b["n"]
        if rev:
            ks, ws, Ws = ks[::-1], ws[::-1], Ws[::-1]
        ks_b.append(ks)
        wq += ws
        Wq += Ws
    w_exp = np.array([a / b for a, b in wq])
    W_exp = np.array([a / b for a, b in Wq])
    z_exp = st["z"][0] / st["z"][1]
    betas = [b["b"] / 2.0 for b in hist]
    out = []
    evals = 0
    stats = {"base": 0.0, "shift": 0.0}
    case = {"hist": [dict(n=b["n"], b=b["b"], m=b["m"], ks=list(k)) for b, k in zip(hist, ks_b)], "bf": bf,
            "w": [list(q) for q in wq], "z": list(st["z"]), "W": [list(q) for q in Wq]}

    def viol(key, what, extra=None):
        r = {"case": case}
        if extra:
            r.update(extra)
        out.append((key, what, r))

    # ---- base scale: logl = k ln2, logz = m ln2
    try:
        sm = build([(np.array(ks, dtype=float) * LN2, be, b["m"] * LN2) for ks, be, b in zip(ks_b, betas, hist)])
        lw_n, lz_n, lw_u, lz_u = call(sm, beta_f)
        evals += 2
        g = []
        if generic_checks("base", lw_n, lz_n, lw_u, lz_u, N, REL, g):
            eu = float(np.max(np.abs(np.exp(lw_u) / w_exp - 1.0)))
            en = float(np.max(np.abs(np.exp(lw_n) / W_exp - 1.0)))
            ez = abs(math.exp(lz_u) / z_exp - 1.0)
            stats["base"] = max(eu, en, ez)
            if not eu <= REL:
                viol("base:unnormalised-weights", f"exp(logw) {np.exp(lw_u).tolist()} != spec {w_exp.tolist()} (rel err {eu:.3g})")
            if not en <= REL:
                viol("base:normalised-weights", f"exp(logw) {np.exp(lw_n).tolist()} != spec {W_exp.tolist()} (rel err {en:.3g})")
            if not ez <= REL:
                viol("base:evidence", f"exp(logz) {math.exp(lz_u)!r} != spec {st['z'][0]}/{st['z'][1]} = {z_exp!r} (rel err {ez:.3g})")
            if bf == 2:   # beta_final defaults to the posterior
                lw_d, lz_d = sm.compute_logw_and_logz()
                evals += 1
                if not (np.array_equal(np.asarray(lw_d), lw_n) and float(lz_d) == lz_n):
                    viol("base:default-beta", "compute_logw_and_logz() differs from compute_logw_and_logz(1.0)")
        for k, wht in g:
            viol(k, wht)
    except Exception as ex:  # an exception is an outcome the spec does not have
        viol("base:raised", f"raised {ex!r}")

    # ---- scale family: images of the case under the spec's ShiftInvariant at large |c|
    lW = np.log(W_exp)
    lw0 = np.log(w_exp)
    lz0 = math.log(z_exp)
    fam = [("j", j, [np.array([k + j for k in ks], dtype=float) * LN2 for ks in ks_b],
            [float(b["m"] + (b["b"] * j) // 2) * LN2 for b in hist], j * LN2) for j in J_SHIFTS]
    fam += [("c", c, [np.array(ks, dtype=float) * LN2 + c for ks in ks_b],
             [b["m"] * LN2 + be * c for b, be in zip(hist, betas)], c) for c in C_SHIFTS]
    for kind, par, logls, logzs, c in fam:
        tol = REL * max(1.0, abs(c))
        try:
            sm = build(list(zip(logls, betas, logzs)))
            lw_n, lz_n, lw_u, lz_u = call(sm, beta_f)
            evals += 2
            g = []
            if generic_checks("shift", lw_n, lz_n, lw_u, lz_u, N, tol, g):
                en = float(np.max(np.abs(lw_n - lW)))
                eu = float(np.max(np.abs(lw_u - (lw0 + beta_f * c))))
                ez = abs(lz_u - (lz0 + beta_f * c))
                stats["shift"] = max(stats["shift"], max(en, eu, ez) / max(1.0, abs(c)))
                if not en <= tol:
                    viol("shift:normalised-weights", f"shift {kind}={par}: normalised logw off by {en:.3g} > {tol:.3g}", {"shift": [kind, par]})
                if not eu <= tol:
                    viol("shift:unnormalised-weights", f"shift {kind}={par}: logw - beta_final*c off by {eu:.3g} > {tol:.3g}", {"shift": [kind, par]})
                if not ez <= tol:
                    viol("shift:evidence", f"shift {kind}={par}: logz {lz_u!r}, expected {lz0 + beta_f * c!r} (off by {ez:.3g} > {tol:.3g})", {"shift": [kind, par]})
            for k, wht in g:
                viol(k, f"shift {kind}={par}: " + wht, {"shift": [kind, par]})
        except Exception as ex:
            viol("shift:raised", f"shift {kind}={par}: raised {ex!r}", {"shift": [kind, par]})

    # ---- spread family: log-likelihoods +-1e6 apart inside one history; oracle = the spec's Enclosure
    kabs = max(max(abs(k) for k in ks) for ks in ks_b) or 1
    L = 1e6 / max(kabs, 2)
    for lzname, lzscale in (("small-logz", LN2), ("large-logz", 3.0e5)):
        logls = [np.array(ks, dtype=float) * L for ks in ks_b]
        logzs = [b["m"] * lzscale for b in hist]
        scale = 2.0 * max(1.0, max(float(np.max(np.abs(x))) for x in logls), max(abs(x) for x in logzs))
        tol = REL * scale
        try:
            sm = build(list(zip(logls, betas, logzs)))
            lw_n, lz_n, lw_u, lz_u = call(sm, beta_f)
            evals += 2
            g = []
            if generic_checks("spread", lw_n, lz_n, lw_u, lz_u, N, tol, g):
                flat = np.concatenate(logls)
                comp = flat[:, None] * np.array(betas)[None, :] - np.array(logzs)[None, :] + np.log(np.array(ns, dtype=float) / N)[None, :]
                srt = np.sort(comp, axis=1)
                c1 = srt[:, -1]
                with np.errstate(all="ignore"):
                    extra = np.log1p((T - 1) * np.exp(srt[:, -2] - c1)) if T > 1 else np.zeros(N)
                A = flat * beta_f
                hi = A - c1
                lo = A - c1 - extra
                if not (np.all(lw_u <= hi + tol) and np.all(lw_u >= lo - tol)):
                    viol("spread:enclosure", f"{lzname}: logw {lw_u.tolist()} outside the dominant-term enclosure [{lo.tolist()}, {hi.tolist()}]", {"spread": lzname})
                mx = float(np.max(lw_u))
                if not (mx - math.log(N) - tol <= lz_u <= mx + tol):
                    viol("spread:evidence", f"{lzname}: logz {lz_u!r} outside [max logw - log N, max logw] = [{mx - math.log(N)!r}, {mx!r}]", {"spread": lzname})
            for k, wht in g:
                viol(k, f"{lzname}: " + wht, {"spread": lzname})
        except Exception as ex:
            viol("spread:raised", f"{lzname}: raised {ex!r}", {"spread": lzname})

    comps = {(b["b"], b["m"]) for b in hist}
    nontrivial = T >= 2 and len(comps) >= 2 and len({tuple(q) for q in Wq}) >= 2
    return out, evals, nontrivial, stats, case


def worker(args):
    base_idx, blocks = args
    res = {"cases": 0, "evals": 0, "nontrivial": 0, "viol": [], "nviol": 0, "byT": {}, "base_err": 0.0, "shift_err": 0.0, "sample": None}
    for i, block in enumerate(blocks):
        st = tla.parse_state_block(block)
        out, evals, nt, stats, case = replay_case(st, base_idx + i)
        res["cases"] += 1
        res["evals"] += evals
        res["nontrivial"] += bool(nt)
        T = len(st["hist"])
        res["byT"][T] = res["byT"].get(T, 0) + 1
        res["base_err"] = max(res["base_err"], stats["base"])
        res["shift_err"] = max(res["shift_err"], stats["shift"])
        res["nviol"] += len(out)
        for v in out:
            if len(res["viol"]) < 8:
                res["viol"].append(v)
        if res["sample"] is None and nt:
            res["sample"] = case
    return res


def done_chunks(path, chunk=400):
    """Stream the TLC dump; yield (first index, [state blocks with pc = "done"])."""
    hdr = tla._STATE_HDR
    cur, blocks, idx = [], [], 0

    def flush_state():
        nonlocal cur
        if cur and any(ln.startswith('/\\ pc = "done"') for ln in cur):
            blocks.append(cur)
        cur = []

    with open(path) as f:
        for ln in f:
            ln = ln.rstrip("\n")
            if hdr.match(ln):
                flush_state()
                if len(blocks) >= chunk:
                    yield idx, blocks
                    idx += len(blocks)
                    blocks = []
            elif ln.startswith("/\\") or (cur and ln.strip()):
                cur.append(ln)
        flush_state()
    if blocks:
        yield idx, blocks


def count_pcs(path):
    cnt = {}
    with open(path) as f:
        for ln in f:
            if ln.startswith("/\\ pc = "):
                k = ln.split('"')[1]
                cnt[k] = cnt.get(k, 0) + 1
    return cnt


# ------------------------------------------------------------------------------------------------

def models(tier, seed):
    """(name, constants, exhaustive?) of the intended-formula TLC runs."""
    if tier == "quick":
        return [
            ("T<=2 n<=2 |k|<=2", dict(ts="{1, 2}", nmax=2, kmax=2, shiftmax=4, workers=8), True),
            ("T=1 n<=3 |k|<=4", dict(ts="{1}", nmax=3, kmax=4, shiftmax=4), True),
            ("T=2 n<=3 |k|<=4 sampled", dict(ts="{2}", nmax=3, kmax=4, shiftmax=2, bmod=4, mod=5, salt=seed % 20), False),
            ("T=3 n<=2 |k|<=2 sampled", dict(ts="{3}", nmax=2, kmax=2, shiftmax=4, bmod=3, mod=7, salt=seed % 21), False),
        ]
    return [
        ("T<=2 n<=2 |k|<=4", dict(ts="{1, 2}", nmax=2, kmax=4, shiftmax=4, workers=6), True),
        ("T=1 n<=3 |k|<=4", dict(ts="{1}", nmax=3, kmax=4, shiftmax=4), True),
        ("T=2 n<=3 |k|<=4 sampled", dict(ts="{2}", nmax=3, kmax=4, shiftmax=2, mod=5, salt=seed % 5, workers=8), False),
        ("T=3 n<=1 |k|<=2", dict(ts="{3}", nmax=1, kmax=2, shiftmax=4), True),
        ("T=3 n<=2 |k|<=2 sampled", dict(ts="{3}", nmax=2, kmax=2, shiftmax=4, mod=8, salt=seed % 8, workers=8), False),
    ]


def main():
    global np, StateManager
    ck = core.Check("C04", "model_checking")
    core.import_repo()
    import warnings

    import numpy
    from tempest.state_manager import StateManager as SM

    np = numpy
    StateManager = SM
    warnings.simplefilter("ignore")

    if ck.args.replay:
        with open(ck.args.replay) as f:
            rp = json.load(f)["replay"]
        c = rp["case"]
        st = {"hist": tuple(dict(n=b["n"], b=b["b"], m=b["m"], ks=tuple(b["ks"])) for b in c["hist"]), "bf": c["bf"],
              "w": tuple(tuple(q) for q in c["w"]), "z": tuple(c["z"]), "W": tuple(tuple(q) for q in c["W"])}
        out, evals, _, _, _ = replay_case(st, 0)      # index 0: keep the order recorded in the file
        for key, what, r in out:
            ck.violation(key, what, r)
        ck.finish({"states": 1, "transitions": 1, "traces_validated_against_impl": 1, "evaluations": evals, "replayed_file": ck.args.replay})

    import multiprocessing as mp

    mods = models(ck.tier, ck.seed)
    small = dict(ts="{1, 2}", nmax=2, kmax=2, shiftmax=4)
    nprocs = max(2, min(14, (os.cpu_count() or 4) - 2))

    # ---- all TLC runs concurrently (intended formula with dump + coverage; wrong formulas must be refuted)
    def run_intended(m):
        name, c, _ = m
        return tlc.run_tlc("MISWeights", cfg_text(c), dump=True, coverage=True, workers=c.get("workers", 4))

    def run_wrong(v):
        # without the declarative Formula invariant: the behavioural properties alone must pin the formula
        return tlc.run_tlc("MISWeights", cfg_text(small, variant=v, invs=[i for i in INVARIANTS if i != "Formula"]), workers=2)

    with ThreadPoolExecutor(max_workers=len(mods) + len(WRONG)) as ex:
        fut_i = [ex.submit(run_intended, m) for m in mods]
        fut_w = {v: ex.submit(run_wrong, v) for v in WRONG}
        results = [f.result() for f in fut_i]
        wrong = {v: f.result() for v, f in fut_w.items()}

    refuted = {}
    for v, r in wrong.items():
        r.cleanup()
        if r.status != "violation" or r.violated not in INVARIANTS:
            raise RuntimeError(f"vacuity: TLC did not refute the seeded wrong formula {v} (status {r.status} {r.violated})")
        refuted[v] = r.violated

    states = transitions = 0
    spec_failed = False
    for (name, c, _), r in zip(mods, results):
        states += r.distinct
        transitions += r.generated
        if r.status != "ok":
            spec_failed = True
            ck.violation("spec:" + r.violated, f"TLC: {r.violated} violated on MISWeights.tla ({name})", {"trace": r.error_trace, "model": c})
    if spec_failed:
        for r in results:
            r.cleanup()
        ck.finish({"states": max(states, 1), "transitions": max(transitions, 1), "traces_validated_against_impl": 0})

    # ---- non-vacuity of the state machines
    cov = {}
    for (name, c, _), r in zip(mods, results):
        pcs = count_pcs(r.dump_path)
        for a in ACTIONS:
            if r.coverage.get(a, (0, 0))[1] <= 0:
                raise RuntimeError(f"vacuity: action {a} has zero coverage in model {name}: {r.coverage}")
        if not pcs.get("done"):
            raise RuntimeError(f"vacuity: no completed computation in model {name}")
        cov[name] = {"constants": c, "distinct_states": r.distinct, "generated": r.generated, "tlc_wall_s": round(r.wall_s, 1),
                     "states_by_pc": pcs, "tlc_coverage": {k: list(v) for k, v in r.coverage.items()}}

    # ---- replay every completed computation into the real StateManager
    tot = {"cases": 0, "evals": 0, "nontrivial": 0, "nviol": 0, "byT": {}, "base_err": 0.0, "shift_err": 0.0}
    ctx = mp.get_context("fork")
    with ctx.Pool(nprocs) as pool:
        for (name, c, _), r in zip(mods, results):
            n_model = 0
            for res in pool.imap_unordered(worker, done_chunks(r.dump_path)):
                n_model += res["cases"]
                for k in ("cases", "evals", "nontrivial", "nviol"):
                    tot[k] += res[k]
                for T, n in res["byT"].items():
                    tot["byT"][T] = tot["byT"].get(T, 0) + n
                tot["base_err"] = max(tot["base_err"], res["base_err"])
                tot["shift_err"] = max(tot["shift_err"], res["shift_err"])
                for key, what, rp in res["viol"]:
                    rp["model"] = name
                    ck.violation(key, what, rp)
                extra = res["nviol"] - len(res["viol"])
                if extra > 0:
                    ck.violations += extra
                if res["sample"] is not None and len(ck.samples) < 4 and not any(s.get("model") == name for s in ck.samples):
                    ck.sample({"model": name, **res["sample"]})
            if n_model != cov[name]["states_by_pc"]["done"]:
                raise RuntimeError(f"replayed {n_model} cases of {name}, dump has {cov[name]['states_by_pc']['done']}")
            cov[name]["cases_replayed"] = n_model
            r.cleanup()

    ck.assumptions += [
        "numpy float64 exp/log/logaddexp are accurate to a few ulp (the only inexact operations on the replayed witnesses)",
        "ln 2 is represented by the same double everywhere, so k*LN2 witnesses behave as exact powers of two up to ~1e-15 relative",
        "scale families compare at relative 1e-12 of |c| (inputs of magnitude 1e6 carry ~1e-10 absolute rounding in logL itself)",
    ]
    ck.finish({
        "states": states,
        "transitions": transitions,
        "traces_validated_against_impl": tot["cases"],
        "evaluations": tot["evals"],
        "distinct_nontrivial": tot["nontrivial"],
        "rule": "each pc=done state of MISWeights.tla (history, bf, exact w, Z, W) is one case; non-trivial = T >= 2 with at "
                "least two distinct (beta_t, logZ_t) components and non-uniform expected weights; every case is replayed at "
                "base scale (normalize on/off), under 8 likelihood shifts |c| up to 1e6 and 2 spread images (+-1e6 inside one history)",
        "exhaustive": all(e for _, _, e in mods),
        "exhaustive_models": [n for n, _, e in mods if e],
        "sampled_models": [n for n, _, e in mods if not e],
        "cases_by_T": {str(k): v for k, v in sorted(tot["byT"].items())},
        "max_rel_err_base": tot["base_err"],
        "max_abs_err_over_c_shift": tot["shift_err"],
        "wrong_formulas_refuted_by_tlc": refuted,
        "models": cov,
        "invariants": INVARIANTS,
    })


core.main_guard(main)
