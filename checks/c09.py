#!/venv/bin/python
"""C09 - seeded runs are reproducible and the library never resets the global RNG.

RngStream.tla: provenance of numpy's global stream across library operations with the library's call
graph; TLC checks NoLibReseed, NoReplay, ResumeContinues, Reproducible for the intended call graph and
refutes the pinned tree's (fit reseeds 42, random_state unused, load reseeds).  Binding A: numpy.random.seed
is wrapped (caller frame inside tempest?) and the full Mersenne-Twister state is tagged at every step
boundary of real runs, fits and loads; RngTrace.tla validates the recorded stream life; Pair.tla validates
that runs with equal random_state are bit-identical under different ambient streams and differ for
different random_state.
"""
import os
import sys

sys.path.insert(0, os.path.dirname(os.path.dirname(os.path.abspath(__file__))))
from vlib import core, pairs, psrun, sysrun, tla, tlc  # noqa: E402

RS_CFG = 'INIT Init\nNEXT Next\nCONSTANTS\n Seeds = {{1, 2}}\n MaxIter = {mi}\n Variant = "{v}"\n{props}CHECK_DEADLOCK FALSE\n'
PROPS = "INVARIANT NoReplay\nINVARIANT ResumeContinues\nINVARIANT Reproducible\nPROPERTY NoLibReseed\n"
TRACE_CFG = "INIT Init\nNEXT Next\nINVARIANT TypeOK\nCHECK_DEADLOCK FALSE\n"


def rng_tag(tags):
    import numpy as np

    st = np.random.get_state()
    d = psrun.digest(st[1], np.asarray(st[2:]))
    return tags.setdefault(d, len(tags) + 1)


class SeedTap:
    def __init__(self, events, user_seed):
        self.events, self.user_seed, self.ctx = events, user_seed, "app"

    def __enter__(self):
        import numpy as np

        self._np = np
        self._orig = np.random.seed
        tap = self

        def seed(*a, **k):
            fr = sys._getframe(1)
            mod = fr.f_globals.get("__name__", "")
            from_lib = mod == "tempest" or mod.startswith("tempest.")
            arg = a[0] if a else k.get("seed")
            tap.events.append({"ev": "Seed", "fromLib": bool(from_lib), "ctx": tap.ctx, "userSeed": bool(tap.user_seed is not None and arg == tap.user_seed),
                               "_where": f"{mod}:{fr.f_code.co_name}", "_arg": repr(arg)})
            return tap._orig(*a, **k)

        np.random.seed = seed
        return self

    def __exit__(self, *e):
        self._np.random.seed = self._orig
        return False


def _stream_job(job):
    """Worker: one run (optionally with save + resume in a fresh sampler) with the stream life recorded."""
    core.import_repo()
    import shutil
    import tempfile
    import warnings

    warnings.filterwarnings("ignore")
    import numpy as np
    from tempest import _verif
    from vlib import drivers

    conf = job["conf"]
    events, tags = [], {}
    state = {"last": None}
    tap = SeedTap(events, conf.get("random_state"))

    def sink(ev, refs):
        if ev == "run_begin":
            tap.ctx = "midrun"
            state["last"] = rng_tag(tags)
            return
        if ev in ("save_begin",):
            tap.ctx = "save"
        if ev in ("save_end", "load_end"):
            tap.ctx = "midrun" if ev == "save_end" else "runfresh"
        if ev in ("iter_begin", "reweighted", "trained", "resampled", "mutated", "committed", "save_end"):
            now = rng_tag(tags)
            events.append({"ev": "Step", "name": ev, "pre": state["last"], "post": now})
            state["last"] = now

    out_dir = tempfile.mkdtemp(prefix="c09_")
    try:
        np.random.seed(job["seed"])
        with tap:
            s, _ = drivers.build_sampler(conf, None, out_dir=out_dir)
            _verif.set_sink(sink)
            try:
                tap.ctx = "runfresh"
                s.run(n_total=job.get("n_total", 24), progress=False, save_every=job.get("save_every"))
                # public accessors after the run: none of them may seed the global stream
                tap.ctx = "accessor"
                for call in (lambda: s.posterior(), lambda: s.posterior(resample=True), lambda: s.posterior(resample=True, trim_importance_weights=False, return_logw=True),
                             lambda: s.evidence(), lambda: s.results(), lambda: s.state.to_dict()):
                    pre = rng_tag(tags)
                    call()
                    events.append({"ev": "Step", "name": "accessor", "pre": pre, "post": rng_tag(tags)})
                    state["last"] = rng_tag(tags)
                tap.ctx = "app"
                if job.get("resume"):
                    import glob

                    files = sorted(f for f in glob.glob(os.path.join(out_dir, "ps_*.state")) if not f.endswith("final.state"))
                    if files:
                        s2, _ = drivers.build_sampler(conf, None, out_dir=out_dir)
                        np.random.seed(4242)
                        # the resumed run is a different process in real life: its stream life is its own trace
                        first = list(events)
                        del events[:]
                        state["first"] = first
                        tap.ctx = "load"
                        s2.run(n_total=job.get("n_total", 24), progress=False, resume_state_path=files[len(files) // 2])
                        tap.ctx = "app"
            finally:
                _verif.set_sink(None)
    except Exception as ex:
        events.append({"ev": "Step", "name": "raised:" + repr(ex)[:80], "pre": 0, "post": 0})
    finally:
        shutil.rmtree(out_dir, ignore_errors=True)
    cr = {k: repr(v) for k, v in conf.items()}
    if state.get("first") is not None:
        return [{"label": job["label"], "events": state["first"], "conf": cr}, {"label": job["label"] + " (resumed)", "events": events, "conf": cr}]
    return [{"label": job["label"], "events": events, "conf": cr}]


def noninterference(ck):
    """Same operation, identical data, two different seeds in force before -> post stream states must differ."""
    import numpy as np
    from tempest.cluster import GaussianMixture, HierarchicalGaussianMixture
    from tempest.modes import ModeStatistics
    from tempest import tools
    from vlib import drivers

    rng = np.random.RandomState(ck.seed + 9)
    events = []
    tags = {}
    datasets = []
    for k in range(3 if ck.tier == "quick" else 12):
        d = int(rng.randint(1, 4))
        nblob = int(rng.randint(1, 4))
        X = np.concatenate([rng.normal(loc=rng.uniform(-3, 3, d), scale=rng.uniform(0.2, 1.0), size=(int(rng.randint(20, 60)), d)) for _ in range(nblob)])
        w = rng.gamma(0.5, size=len(X)) + 1e-9
        datasets.append((X, w / w.sum()))

    def ops(X, w):
        U = (X - X.min(0)) / (X.max(0) - X.min(0) + 1e-9)
        yield "GaussianMixture(random_state=42).fit", lambda: GaussianMixture(n_components=2, random_state=42).fit(X, w)
        yield "GaussianMixture(random_state=None).fit", lambda: GaussianMixture(n_components=2).fit(X, w)
        yield "HierarchicalGaussianMixture.fit", lambda: HierarchicalGaussianMixture(normalize=True).fit(X, w)
        yield "HierarchicalGaussianMixture(normalize=False).fit+predict", lambda: HierarchicalGaussianMixture(normalize=False).fit(X, w).predict(X)
        yield "ModeStatistics.from_global", lambda: ModeStatistics.from_global(U, w)
        yield "tools.systematic_resample", lambda: tools.systematic_resample(16, w)

    for X, w in datasets:
        for name, fn in ops(X, w):
            posts = []
            for pre in (101, 202):
                np.random.seed(pre)
                try:
                    fn()
                except Exception:
                    pass
                posts.append(rng_tag(tags))
            events.append({"ev": "NonInterf", "op": name, "postA": posts[0], "postB": posts[1]})
    # one full sampler iteration on identical sampler state under two ambient seeds
    for conf in (dict(clustering=True), dict(clustering=False), dict(clustering=True, sample="rwm", resample="syst")):
        posts = []
        for pre in (303, 404):
            np.random.seed(7)
            s, _ = drivers.build_sampler(dict(conf, n_particles=16), None)
            s.run(n_total=16, progress=False)
            np.random.seed(pre)
            s.sample()
            posts.append(rng_tag(tags))
        events.append({"ev": "NonInterf", "op": "Sampler.sample() " + repr(conf), "postA": posts[0], "postB": posts[1]})
        for rs in (None, 7):
            posts = []
            for pre in (505, 606):
                np.random.seed(7)
                s, _ = drivers.build_sampler(dict(conf, n_particles=16, random_state=rs), None)
                s.run(n_total=16, progress=False)
                np.random.seed(pre)
                s.posterior(resample=True)
                posts.append(rng_tag(tags))
            events.append({"ev": "NonInterf", "op": f"Sampler.posterior(resample=True) random_state={rs} " + repr(conf), "postA": posts[0], "postB": posts[1]})
    return {"label": "noninterference", "events": events, "conf": {}}


def validate_streams(traces):
    import json
    import shutil

    work = tlc.scratch_dir("vrng_")
    path = os.path.join(work, "t.json")
    slim = [{"events": [{k: v for k, v in e.items() if not k.startswith("_")} for e in t["events"]]} for t in traces]
    with open(path, "w") as f:
        json.dump(slim, f)
    try:
        res = tlc.run_tlc("RngTrace", TRACE_CFG, workers=1, env={"TRACE_FILE": path})
    finally:
        shutil.rmtree(work, ignore_errors=True)
    out = res.stdout
    res.cleanup()
    if res.status != "ok":
        raise tlc.TLCFailure("RngTrace: " + res.violated + out[-1500:])
    exp = sum(len(t["events"]) + 1 for t in traces)
    if res.distinct != exp:
        raise tlc.TLCFailure(f"RngTrace consumed {res.distinct} of {exp}")
    fails = []
    for ln in out.splitlines():
        if ln.startswith('<<"FAIL"'):
            v = tla.parse_value(ln)
            fails.append({"tid": v[1], "l": v[2], "ev": v[3], "clauses": sorted(v[4])})
    return fails, res.distinct


def main():
    ck = core.Check("C09", "model_checking")
    if ck.args.replay:
        from vlib import sysrun as _sr

        _sr.replay(ck, "C09", ck.args.replay)
    core.import_repo()
    import concurrent.futures as cf
    import multiprocessing as mp
    import warnings

    warnings.filterwarnings("ignore")
    mi = 2 if ck.tier == "quick" else 3
    r = tlc.run_tlc("RngStream", RS_CFG.format(mi=mi, v="intended", props=PROPS), coverage=True)
    if r.status != "ok":
        ck.violation("spec:RngStream:" + r.violated, "intended call graph violates " + r.violated, {"trace": r.error_trace})
    for a in ("Ambient", "RunFresh", "Iterate", "Save", "LoadResume", "Finish"):
        if r.coverage.get(a, (0, 0))[1] == 0:
            raise tlc.TLCFailure("RngStream: action never taken: " + a)
    states, trans = r.distinct, r.generated
    r.cleanup()
    refuted = {}
    for p in ("INVARIANT NoReplay\n", "INVARIANT ResumeContinues\n", "INVARIANT Reproducible\n", "PROPERTY NoLibReseed\n"):
        r = tlc.run_tlc("RngStream", RS_CFG.format(mi=mi, v="impl", props=p))
        if r.status != "violation":
            raise tlc.TLCFailure("RngStream impl variant not refuted for " + p)
        refuted[p.split()[1]] = r.violated
        r.cleanup()
    # ---- binding A (1): stream life of real runs
    base = [dict(clustering=True), dict(clustering=False), dict(clustering=True, sample="rwm", resample="syst"), dict(clustering=True, cluster_every=2, target="bimodal", n_particles=16),
            dict(evaluation="blobs", clustering=True), dict(volume_variation=0.5)]
    jobs = []
    for i, c in enumerate(base if ck.tier == "thorough" else base[:4]):
        for rs in (None, 3, 0):
            jobs.append(dict(conf=dict(c, random_state=rs), seed=900 + i + ck.seed, label=f"stream#{i} rs={rs}", save_every=2, resume=True))
    with cf.ProcessPoolExecutor(max_workers=sysrun.PROCS, mp_context=mp.get_context("fork")) as ex:
        traces = [t for ts in ex.map(_stream_job, jobs) for t in ts]
    traces.append(noninterference(ck))
    fails, tstates = validate_streams(traces)
    for f in fails:
        t = traces[f["tid"] - 1]
        e = t["events"][f["l"] - 1]
        for cl in f["clauses"]:
            where = e.get("_where") or e.get("op") or e.get("name")
            ck.violation(f"rng:{cl}:{where}", f"{cl} fails at event {f['l']} of {t['label']}: {e}", {"event": e, "label": t["label"], "conf": t["conf"], "previous": t["events"][max(0, f['l'] - 3): f['l'] - 1]})
    n_steps = sum(1 for t in traces for e in t["events"] if e["ev"] == "Step")
    n_seed = sum(1 for t in traces for e in t["events"] if e["ev"] == "Seed")
    n_ni = sum(1 for t in traces for e in t["events"] if e["ev"] == "NonInterf")
    if n_steps == 0 or n_ni == 0:
        raise tlc.TLCFailure("vacuous stream traces")
    ck.sample({"label": traces[1]["label"], "events": [{k: v for k, v in e.items()} for e in traces[1]["events"][:5]]})
    # ---- binding A (2): reproducibility pairs
    pj = []
    meta = []
    confs = (base if ck.tier == "thorough" else base[:4]) + [dict(clustering=False, support=0.5, n_particles=16, ess_ratio=3.0)]   # zero-likelihood draws replaced at random
    for i, c in enumerate(confs):
        rs = 0 if i % 2 == 0 else 5   # 0 is a legal seed too
        a = dict(conf=dict(c, random_state=rs), seed=11 + i, n_total=24)
        b = dict(conf=dict(c, random_state=rs), seed=9999 - i, n_total=24, pre_draws=37)
        d = dict(conf=dict(c, random_state=6), seed=11 + i, n_total=24)
        k = len(pj)
        pj += [a, b, d]
        meta += [(k, k + 1, "same"), (k, k + 2, "differ")]
    # legal seeds near the 32-bit boundaries must not alias small ones
    for lo_, hi_ in ((0, 2 ** 31 - 1), (1, 2 ** 31), (1, 2 ** 32 - 1), (5, 2 ** 31 + 4)):
        k = len(pj)
        pj += [dict(conf=dict(clustering=False, random_state=lo_), seed=77, n_total=24), dict(conf=dict(clustering=False, random_state=hi_), seed=77, n_total=24)]
        meta.append((k, k + 1, "differ"))
    # an integer seed of numpy type is the same seed: equal to the run with the python int, under another ambient stream
    k = len(pj)
    pj += [dict(conf=dict(clustering=False, random_state=5), seed=21, n_total=24), dict(conf=dict(clustering=False, random_state="np:5"), seed=8888, n_total=24, pre_draws=13),
           dict(conf=dict(clustering=False, random_state="np:6"), seed=21, n_total=24)]
    meta += [(k, k + 1, "same"), (k + 1, k + 2, "differ")]
    R = pairs.run_many(pj)
    P = [pairs.project_pair(R[a], R[b], kind=kind, exact=True) for a, b, kind in meta]
    for rr in R:
        if rr["raised"] and not pairs.out_of_scope(rr):
            ck.violation("pair:raised", f"run raised {rr['raised']}", {"job": rr["job"]})
    pf, pst = pairs.validate_pairs(P)
    seen = set()
    for f in pf:
        if f["pid"] in seen:
            continue
        seen.add(f["pid"])
        a, b, kind = meta[f["pid"] - 1]
        what = ("runs with the same random_state differ" if kind == "same" else "runs with different random_state are identical")
        ck.violation(f"repro:{kind}:{f['clauses'][0]}", f"{what} at iteration {f['i']}: {pj[a]['conf']} ambient seeds {pj[a]['seed']}/{pj[b]['seed']}",
                     {"a": pj[a], "b": pj[b], "clauses": f["clauses"], "iteration": f["i"]})
    # ---- binding A (3): a resumed run continues the saved stream (Load event, clause LD_Rng)
    rj = [dict(conf=c, seed=95 + i + ck.seed, label=f"c09resume#{i}", n_total=24, save_every=2, max_ckpt=2)
          for i, c in enumerate([dict(clustering=False, random_state=4), dict(clustering=True, random_state=None)])]
    # an odd number of normal draws per sweep: some checkpoints are written while the generator caches a second Gaussian
    rj.append(dict(conf=dict(sample="rwm", n_dim=3, n_particles=9, clustering=False, random_state=2), seed=97 + ck.seed, label="c09resume#gauss",
                   n_total=32, save_every=1, max_ckpt=None, vary_n_total=False))
    with cf.ProcessPoolExecutor(max_workers=sysrun.PROCS, mp_context=mp.get_context("fork")) as ex:
        rtraces = [t for ts in ex.map(sysrun.resume_job, rj) for t in ts]
    rfails, rst = psrun.validate(rtraces)
    sysrun.attribute(ck, "C09", rtraces, rfails)
    n_loads = sum(1 for t in rtraces for e in t["events"] if e["ev"] == "Load")
    if n_loads == 0:
        raise tlc.TLCFailure("vacuous: no Load event")
    # ---- binding A (4): the same seeded run twice in ONE process (library-level caches / module state must not leak)
    tj = [dict(conf=dict(c, random_state=9), seed=31 + i, n_total=32) for i, c in enumerate(
        [dict(clustering=True, target="narrow", n_particles=32), dict(clustering=True, target="bimodal", n_particles=16), dict(clustering=False)])]
    TR = pairs.run_many(tj, func=pairs.run_twice)
    TP = []
    for j, r in zip(tj, TR):
        if "first" not in r:
            ck.violation("pair:raised", f"run raised {r.get('raised')}", {"job": j})
            continue
        TP.append((j, pairs.project_pair(r["first"], r["second"], kind="same", exact=True)))
    tf, tst = pairs.validate_pairs([p for _, p in TP])
    seen = set()
    for f in tf:
        if f["pid"] in seen:
            continue
        seen.add(f["pid"])
        j = TP[f["pid"] - 1][0]
        ck.violation("repro:same-process:" + f["clauses"][0], f"the same seeded run repeated in one process differs at iteration {f['i']}: {j['conf']}", {"job": j, "clauses": f["clauses"]})
    ck.finish({
        "same_process_pairs": len(TP),
        "load_events_validated": n_loads,
        "states": states, "transitions": trans, "rngstream_impl_refuted": refuted,
        "traces_validated_against_impl": len(traces) + len(P),
        "stream_events_validated": tstates, "stream_steps": n_steps, "seed_calls_observed": n_seed, "noninterference_cases": n_ni,
        "pairs_validated": len(P), "pair_states": pst["states"],
        "evaluations": tstates + pst["states"],
        "distinct_nontrivial": n_ni + len(P) + len(jobs),
        "rule": "stream traces: one per (configuration, random_state in {None, 3}) run with save_every and a resume in a fresh sampler; non-interference cases: (operation, data set) pairs executed under two pre-seeds; reproducibility: (same seed / different ambient) and (different seed) pairs per configuration",
        "exhaustive": False,
    })


core.main_guard(main)
