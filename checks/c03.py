#!/venv/bin/python
"""C03 - mutation kernels leave the tempered target invariant (detailed balance).  PARTIAL: discrete
structure + algebraic identity (DESIGN.md section 4, C03).

(a) Kernel.tla: one Metropolis sweep of one walker of RWMRunner on the cell-centred lattice as the action
    sequence Propose -> Fold -> Check -> (Impl_RedrawUntilInside)* -> Accept | Reject | OutReject, and the exact
    transition weights P(u,v) built from the same operators.  TLC checks detailed balance, row-stochasticity and
    never-leaving-the-cube for every table / ordered pair, for the intended hard-wall rule (out-of-cube = reject)
    and for the code-shaped rule (redraw until inside).  Binding B: every enumerated transition is replayed into
    the real RWMRunner.run() (scripted randn / rand, tabulated likelihood, three walkers per call); which hard-wall
    rule the code follows is established by replay and TLC's verdict on that rule is the verdict on the code.
    Cases with K = 2 proposal modes and 2 / 3 consecutive sweeps of one run() call decide that the cluster label of a
    walker is fixed during a call and selects the mode of every proposal (LabelFixed, ProposalUsesLabel).
(b) KernelTpcn.tla: the tpCN proposal (inverse-gamma mixture parameters, Crank-Nicolson map, Student-t
    correction) over exact rationals and the identity exp(factor) q(u->u')/q(u'->u) = 1 for all lattice pairs;
    seeded wrong variants must be refuted.  Binding B: the real TPCNRunner._propose / _compute_acceptance_factor
    are run at every enumerated state with numpy.random.gamma / randn stubbed and compared with the rationals
    (modes with nu from 1 to 10^6: the gamma draw is made exactly once per proposal whatever nu).
    On folded coordinates the spec's image tables are summed with exact fractions and a tail bound.
"""
import concurrent.futures as cf
import itertools
import json
import math
import os
import random
import re
import sys
from fractions import Fraction

sys.path.insert(0, os.path.dirname(os.path.dirname(os.path.abspath(__file__))))
from vlib import core, fastdump, tlc  # noqa: E402

LN2 = math.log(2.0)
TOP = 1.0 - 2.0 ** -20  # an accept uniform just below 1: accepted iff alpha = 1 (the ratio is >= 1), far from every alpha < 1 of the lattice

KCFG = """INIT Init
NEXT Next
CONSTANTS
  Cases <- CasesDef
  Levels = {{0, 2, 4}}
  Rule = "{rule}"
  HardMode = "{hm}"
{invs}
PROPERTY LabelFixed
CHECK_DEADLOCK FALSE
"""
K_INV_W = ["TypeOK", "RowStochastic"]
K_INV_D = ["Factorised", "FoldOpsAgree"]  # definitional cross-checks, independent of the rule: intended run only
K_INV_S = ["NeverLeaves", "StepInSupport", "RecordCoherent", "DrawCount", "ProposalUsesLabel", "SweepCount"]

TCFG = """INIT Init
NEXT Next
CONSTANTS
  M = {M}
  Modes <- ModesDef
  Variant = "{v}"
  SqS = {{1, 2, 3}}
  Zs <- ZsDef
  MaxDraws = 2
  KImg = {k}
{invs}
CHECK_DEADLOCK FALSE
"""
T_INV = ["TypeOK", "Reversible", "PolynomialIdentity", "MixtureParams", "ReturnedInside", "ImagesPrincipal", "FactorShape"]


class Exhausted(BaseException):
    """the code asked for more innovations than the specification's behaviour contains"""


class BindingLost(BaseException):
    """the code consumed randomness in a way the scripted source cannot serve: NOT a verdict on the property"""


LOST = []          # descriptions of lost bindings (reported as INCONCLUSIVE, exit 2, only if there is no violation)
TOL = 1e-9         # a reformulation of the same kernel at rounding level must pass; decisions are scripted away from alpha


def lost(what):
    if len(LOST) < 50:
        LOST.append(what)
    return Res("lost", "binding lost: " + what, False)


class Res:
    """outcome of one replay: kind None = reproduced; "value" = differs from the specification; "over" = the code asked
    for more innovations than the behaviour contains; "lost" = binding lost.  under = scripted innovations left over."""

    def __init__(self, kind, msg, under):
        self.kind, self.msg, self.under = kind, msg, under

    def __bool__(self):
        return self.kind is not None


_NP_RANDOM_OTHERS = ["beta", "binomial", "bytes", "chisquare", "choice", "dirichlet", "f", "geometric", "gumbel", "hypergeometric",
                     "laplace", "logistic", "lognormal", "logseries", "multinomial", "multivariate_normal", "negative_binomial",
                     "noncentral_chisquare", "noncentral_f", "pareto", "permutation", "poisson", "power", "randint", "random_integers",
                     "rayleigh", "shuffle", "standard_cauchy", "standard_t", "triangular", "vonmises", "wald", "weibull", "zipf",
                     "default_rng", "RandomState", "Generator", "seed", "set_state"]


class Scripted:
    """numpy.random for the duration of one call into tempest.mcmc.  The scripted quantities are keyed by walker and by
    kind, not by global call order, and every equivalent API is served from the SAME quantities:
      standard normals  normals[sweep][walker] = list of innovation vectors (more than one only for redraw behaviours):
                        randn / standard_normal / normal, one walker at a time (walkers in order) or batched (n, d);
      uniforms          uniforms[sweep] = accept uniforms of all walkers: rand / random / random_sample / ranf / sample /
                        uniform, and as -log U through standard_exponential / exponential; serving them ends the sweep;
      mixing variable   gammas[walker] = (G, scale) with scale the specification's 2/(nu+delta): gamma(shape, scale) returns
                        G, standard_gamma(shape) returns G/scale, chisquare(df) returns 2G/scale (so that
                        (nu+delta)/chisquare = 1/G); scalar (walkers in order) or per-walker arrays; before or after
                        the normals.
    Anything else on numpy.random raises BindingLost."""

    def __init__(self, np, normals=None, uniforms=(), gammas=(), normal_fn=None, uniform_fn=None):
        self.np = np
        self.Z = [[list(w) for w in sw] for sw in (normals or [])]
        self.cz = [[0] * len(sw) for sw in self.Z]
        self.s = self.w = 0
        self.uq = list(uniforms)
        self.nu = 0
        self.G = list(gammas)
        self.ng = 0
        self.gparams = [None] * len(self.G)
        self.normal_fn, self.uniform_fn = normal_fn, uniform_fn
        self._saved = {}

    @property
    def nz(self):
        return sum(sum(c) for c in self.cz)

    @property
    def nz_scripted(self):
        return sum(len(w) for sw in self.Z for w in sw)

    def under(self):
        return any(c < len(w) for sw, cs in zip(self.Z, self.cz) for w, c in zip(sw, cs))

    # ---- providers
    @staticmethod
    def _shape(size):
        if size is None:
            return ()
        return tuple(int(x) for x in size) if isinstance(size, (tuple, list)) else (int(size),)

    def _z(self, shape):
        np = self.np
        k = int(np.prod(shape)) if shape else 1
        if self.normal_fn is not None:
            return np.asarray(self.normal_fn(k), dtype=float).reshape(shape)
        if self.s >= len(self.Z):
            raise BindingLost("standard normals requested after the last scripted sweep")
        Zs, cs = self.Z[self.s], self.cz[self.s]
        d = len(Zs[0][0])
        if k % d:
            raise BindingLost(f"{k} standard normals requested at once, innovations have {d} coordinates")
        m = k // d
        if m == 1:   # one walker at a time, walkers in order; a walker may draw again (redraw behaviours)
            while self.w < len(Zs) and cs[self.w] >= len(Zs[self.w]):
                self.w += 1
            if self.w >= len(Zs):
                raise Exhausted()
            v = Zs[self.w][cs[self.w]]
            cs[self.w] += 1
            if cs[self.w] >= len(Zs[self.w]):
                self.w += 1
            return np.array(v, dtype=float).reshape(shape)
        if self.w + m > len(Zs) or any(cs[self.w + i] for i in range(m)):
            raise BindingLost(f"batched request of {m} innovation vectors, {len(Zs) - self.w} walkers left in the sweep")
        out = np.array([Zs[self.w + i][0] for i in range(m)], dtype=float)
        for i in range(m):
            cs[self.w + i] = 1
        self.w += m
        return out.reshape(shape)

    def _u(self, shape):
        np = self.np
        k = int(np.prod(shape)) if shape else 1
        if self.uniform_fn is not None:
            return np.asarray(self.uniform_fn(k), dtype=float).reshape(shape)
        if self.nu >= len(self.uq):
            raise BindingLost("more uniform / exponential draws than sweeps scripted")
        v = self.uq[self.nu]
        if len(v) != k:
            raise BindingLost(f"{k} uniforms requested at once, {len(v)} walkers scripted")
        self.nu += 1
        self.s, self.w = self.s + 1, 0     # the accept uniforms close the sweep
        return np.array(v, dtype=float).reshape(shape)

    def _g(self, kind, shape, scale, size):
        np = self.np
        parts = [np.ndim(shape)] + ([np.ndim(scale)] if scale is not None else [])
        arr = max(parts) > 0 or size is not None
        m = max([int(np.size(shape))] + ([int(np.size(scale))] if scale is not None else []) + ([int(np.prod(self._shape(size)))] if size is not None else []))
        if self.ng + m > len(self.G):
            raise BindingLost("more mixing-variable draws than proposals scripted")
        sh = np.broadcast_to(np.asarray(shape, dtype=float), (m,))
        sc = None if scale is None else np.broadcast_to(np.asarray(scale, dtype=float), (m,))
        out = np.empty(m)
        for i in range(m):
            g, sc_spec = self.G[self.ng + i]
            if kind == "chisquare":          # df = 2 * shape ; chi2(df) = 2 * Gamma(df/2, 1)
                self.gparams[self.ng + i] = (float(sh[i]) / 2.0, None)
                out[i] = 2.0 * g / sc_spec
            elif sc is None:                 # standard_gamma(shape) = Gamma(shape, 1)
                self.gparams[self.ng + i] = (float(sh[i]), None)
                out[i] = g / sc_spec
            else:
                self.gparams[self.ng + i] = (float(sh[i]), float(sc[i]))
                out[i] = g
        self.ng += m
        if not arr:
            return float(out[0])
        return out.reshape(self._shape(size)) if size is not None else out

    def _neglog(self, u):
        with self.np.errstate(divide="ignore"):
            return -self.np.log(u)

    def __enter__(self):
        R = self.np.random
        stubs = {
            "randn": lambda *sh: self._z(tuple(int(x) for x in sh)),
            "standard_normal": lambda size=None: self._z(self._shape(size)),
            "normal": lambda loc=0.0, scale=1.0, size=None: loc + scale * self._z(self._shape(size)),
            "rand": lambda *sh: self._u(tuple(int(x) for x in sh)),
            "random": lambda size=None: self._u(self._shape(size)),
            "random_sample": lambda size=None: self._u(self._shape(size)),
            "ranf": lambda size=None: self._u(self._shape(size)),
            "sample": lambda size=None: self._u(self._shape(size)),
            "uniform": lambda low=0.0, high=1.0, size=None: low + (high - low) * self._u(self._shape(size)),
            "standard_exponential": lambda size=None: self._neglog(self._u(self._shape(size))),
            "exponential": lambda scale=1.0, size=None: scale * self._neglog(self._u(self._shape(size))),
            "gamma": lambda shape, scale=1.0, size=None: self._g("gamma", shape, scale, size),
            "standard_gamma": lambda shape, size=None: self._g("standard_gamma", shape, None, size),
            "chisquare": lambda df, size=None: self._g("chisquare", df, None, size),
        }
        for name in _NP_RANDOM_OTHERS:
            if hasattr(R, name) and name not in stubs:
                stubs[name] = (lambda nm: (lambda *a, **k: (_ for _ in ()).throw(BindingLost(f"numpy.random.{nm} called from the kernel"))))(name)
        for name, fn in stubs.items():
            self._saved[name] = getattr(R, name)
            setattr(R, name, fn)
        return self

    def __exit__(self, *exc):
        for name, fn in self._saved.items():
            setattr(self.np.random, name, fn)
        return False


# ------------------------------------------------------------------------------------------------ model constants
def alphabet(sizes):
    """{size: weight} -> symmetric signed alphabet [(z, w)] sorted by z"""
    out = []
    for s, w in sizes.items():
        out.append((s, w))
        if s:
            out.append((-s, w))
    return sorted(out)


def tla_case(c):
    al = "<<" + ",".join("<<%d,%d>>" % zw for zw in c["alpha"]) + ">>"
    ts = lambda L: "{" + ",".join("<<" + ",".join(map(str, t)) + ">>" for t in L) + "}"  # noqa: E731
    return "<<%d, %d, %s, %s, %s, {%s}, %d, <<%s>>, %d>>" % (
        c["M"], c["d"], al, ts(c["tabs"] or []), ts(c["steptabs"]), ",".join(map(str, c["bs"])), c["maxdraws"],
        ",".join(map(str, c.get("gains", [1]))), c.get("nsweeps", 1))


def kernel_cases(tier, seed):
    rng = random.Random(seed * 7919 + 3)
    lv = (0, 2, 4)
    all4 = list(itertools.product(lv, repeat=4))
    fixed4 = [(0, 0, 0, 0), (0, 2, 4, 0), (4, 2, 0, 2)]
    A4 = alphabet({0: 2, 1: 3, 2: 2, 3: 1, 4: 1, 5: 1, 6: 1, 7: 1, 8: 1})
    A8 = alphabet({0: 2, 1: 3, 2: 2, 3: 2, 5: 1, 9: 1, 16: 1})
    A8full = alphabet({**{s: 1 for s in range(0, 17)}, 0: 2, 1: 3, 2: 2, 3: 2})
    flat8 = (0,) * 8
    flat16 = (0,) * 16
    rt = lambda n: tuple(rng.choice(lv) for _ in range(n))  # noqa: E731
    if tier == "quick":
        st4 = fixed4 + rng.sample([t for t in all4 if t not in fixed4], 1)
        t8 = [flat8] + [rt(8) for _ in range(40)]
        t16 = [flat16] + [rt(16) for _ in range(8)]
        S2 = alphabet({0: 1, 1: 2, 6: 1})
        S3 = alphabet({0: 2, 3: 1})
        T8 = (0, 2, 4, 2, 0, 2, 4, 0)
        return MULTI(T8, quick=True) + [
            dict(M=4, d=1, alpha=A4, tabs=None, steptabs=st4, bs=[1, 2], maxdraws=2),
            dict(M=8, d=1, alpha=A8, tabs=t8, steptabs=[t8[1]], bs=[1, 2], maxdraws=2),
            dict(M=4, d=2, alpha=S2, tabs=t16, steptabs=[], bs=[1], maxdraws=1),
            dict(M=4, d=2, alpha=S3, tabs=t16[:3], steptabs=[t16[2]], bs=[2], maxdraws=2),
        ]
    t8 = [flat8] + [rt(8) for _ in range(1500)]
    t16 = [flat16] + [rt(16) for _ in range(150)]
    t64 = [(0,) * 64] + [rt(64) for _ in range(6)]
    S2 = alphabet({0: 1, 1: 2, 3: 1, 8: 1})
    S2s = alphabet({0: 1, 1: 2, 3: 1})
    S8 = alphabet({0: 1, 1: 2, 5: 1, 16: 1})
    deep4 = fixed4[:2]
    st4 = fixed4 + rng.sample([t for t in all4 if t not in fixed4], 24)
    return MULTI((0, 2, 4, 2, 0, 2, 4, 0), quick=False) + [
        dict(M=4, d=1, alpha=A4, tabs=None, steptabs=st4, bs=[1, 2], maxdraws=2),
        dict(M=4, d=1, alpha=A4, tabs=deep4, steptabs=deep4, bs=[1, 2], maxdraws=3),
        dict(M=8, d=1, alpha=A8full, tabs=t8, steptabs=t8[1:2], bs=[1, 2], maxdraws=2),
        dict(M=4, d=2, alpha=S2, tabs=t16, steptabs=[], bs=[1, 2], maxdraws=1),
        dict(M=4, d=2, alpha=S2s, tabs=t16[1:2], steptabs=t16[1:2], bs=[1], maxdraws=2),
        dict(M=8, d=2, alpha=S8, tabs=t64, steptabs=[], bs=[2], maxdraws=1),
    ]


def MULTI(T8, quick):
    """K = 2 proposal modes (1 and 2 cells per unit innovation, means 1/4 and 3/4), two and three consecutive sweeps of
    one run() call: walkers cross from one mode's half of the cube to the other's while their label stays."""
    if quick:
        return [dict(M=4, d=1, alpha=alphabet({0: 1, 1: 2, 2: 1}), tabs=[(0, 2, 4, 0)], steptabs=[(0, 2, 4, 0)], bs=[1], maxdraws=1, gains=[1, 2], nsweeps=2),
                dict(M=4, d=1, alpha=alphabet({0: 1, 1: 1}), tabs=[(0, 0, 0, 0)], steptabs=[(0, 0, 0, 0)], bs=[2], maxdraws=1, gains=[1, 2], nsweeps=3)]
    return [dict(M=8, d=1, alpha=alphabet({0: 1, 1: 2, 2: 1, 5: 1}), tabs=[T8], steptabs=[T8], bs=[1, 2], maxdraws=1, gains=[1, 2], nsweeps=2),
            dict(M=8, d=1, alpha=alphabet({0: 1, 1: 1}), tabs=[T8], steptabs=[T8], bs=[1], maxdraws=1, gains=[1, 2], nsweeps=3),
            dict(M=4, d=2, alpha=alphabet({0: 1, 1: 1}), tabs=[(0, 2, 4, 0) * 4], steptabs=[(0, 2, 4, 0) * 4], bs=[2], maxdraws=1, gains=[2, 1], nsweeps=1)]


def run_kernel(cases, rule, hm, invs, dump=True, steps=True, workers=6):
    if len(cases) > 4 and workers > 2:
        workers = 8  # thorough tier
    # sweep behaviours: all cases under the intended rule; under the code-shaped rule only the single-sweep ones (consecutive
    # sweeps add nothing to the hard-wall question and triple the dump)
    cs = [dict(c, steptabs=c["steptabs"] if steps and (rule == "intended" or c.get("nsweeps", 1) == 1) else []) for c in cases]
    mc = "---- MODULE KernelMC ----\nEXTENDS Kernel\nCasesDef == <<%s>>\n====\n" % ",\n  ".join(tla_case(c) for c in cs)
    cfg = KCFG.format(rule=rule, hm=hm, invs="\n".join("INVARIANT " + i for i in invs))
    return tlc.run_tlc("KernelMC", cfg, dump=dump, coverage=True, workers=workers, extra_modules={"KernelMC.tla": mc})


# ------------------------------------------------------------------------------------------------ part (a) replay
class ModeFactorMismatch(Exception):
    pass


class SweepReplayer:
    """Drives the real RWMRunner.run() for exactly one sweep with scripted innovations."""

    def __init__(self, np, mcmc, modes_mod):
        self.np, self.mcmc = np, mcmc
        self.MS = modes_mod.ModeStatistics
        self._ms = {}
        self.calls = 0
        self.hooked = 0
        self.masks = set()

    def mode_stats(self, M, d, gains=(1,)):
        """K = len(gains) proposal modes: mode c has scale matrix (g_c/M)^2 I (exact Cholesky factor g_c/M I) and, for
        K = 2, means 1/4 and 3/4 on every coordinate (RWM ignores the means; a kernel that re-derives the label of a
        walker from its position would not)."""
        key = (M, d, tuple(gains))
        if key not in self._ms:
            np = self.np
            K = len(gains)
            means = np.full((1, d), 0.5) if K == 1 else np.array([[(2 * c + 1) / (2.0 * K)] * d for c in range(K)])
            covs = np.array([np.eye(d) * (g * g) / (M * M) for g in gains])
            ms = self.MS(means, covs, np.full(K, 2.0))
            for c, g in enumerate(gains):
                if not np.array_equal(ms.chol_covariances[c], np.eye(d) * g / M):
                    # the factor the kernel draws its noise with is not a factor of the mode's scale matrix (which the
                    # Student-t correction uses through inv_covariances): not a machinery problem but a kernel inconsistency
                    raise ModeFactorMismatch(f"ModeStatistics(cov=({g}/{M})^2 I).chol_covariances = {ms.chol_covariances[c].tolist()} is not {g}/{M} I")
            self._ms[key] = ms
        return self._ms[key]

    def sweep(self, case, kinds, e, pis, b, trans, entry=False):
        """trans: list of walkers, each dict(lab, sweeps=[dict(u, zs, rc, fol, ok, acc, rec), ...]) with the same number
        of sweeps.  Returns None if the code reproduced the specification's behaviour (every sweep's proposals, the
        final records, unchanged labels) for every walker, else a description of the first difference.
        entry=True: through the public entry point tempest.mcmc.parallel_mcmc(sample="rwm") instead of the runner class
        (the initial step size, which the entry point does not expose, is pinned on the class for the call).
        With more than one sweep the step-size adaptation between sweeps is pinned to a no-op (_adapt_sigma)."""
        np = self.np
        M, d = case["M"], case["d"]
        gains = case.get("gains", [1])
        ns = len(trans[0]["sweeps"])
        n = len(trans)
        den = 2.0 * M
        per = [i for i in range(d) if kinds[i] == "periodic"] or None
        ref = [i for i in range(d) if kinds[i] == "reflective"] or None

        def idx_of(cells):
            k = 0
            for i, c in enumerate(cells):
                k += ((c - 1) // 2) * M ** i
            return k

        flags = {"outside": 0, "calls": 0}
        batches = []

        def blob_of(ix):
            return (float(ix + 1), 1000.0 + ix + 1)

        def ll(xb):
            xb = np.asarray(xb, dtype=float)
            flags["calls"] += 1
            batches.append(xb.copy())
            out = np.zeros(len(xb))
            bl = np.full((len(xb), 2), -1.0)
            for i, row in enumerate(xb):
                cells = row * den
                rc_ = np.round(cells)
                if np.all(np.abs(cells - rc_) <= 1e-7) and np.all(rc_ >= 1) and np.all(rc_ <= 2 * M - 1) and np.all(rc_ % 2 == 1):
                    ix = idx_of([int(c) for c in rc_])
                    out[i] = e[ix] * LN2
                    bl[i] = blob_of(ix)
                else:
                    flags["outside"] += 1
            return out, bl

        u0 = np.array([[c / den for c in t["sweeps"][0]["u"]] for t in trans])
        ix0 = [idx_of(t["sweeps"][0]["u"]) for t in trans]
        l0 = np.array([e[i] * LN2 for i in ix0])
        b0 = np.array([blob_of(i) for i in ix0])
        labels = np.array([t["lab"] - 1 for t in trans], dtype=int)
        zq = [[[np.array(z, dtype=float) for z in t["sweeps"][k]["zs"]] for t in trans] for k in range(ns)]
        rq = []
        for k in range(ns):
            rs = []
            for t in trans:
                sp = t["sweeps"][k]
                if sp["rc"] == "zero":
                    rs.append(0.0)
                elif sp["rc"] == "top":
                    rs.append(TOP)
                elif not sp["ok"]:
                    rs.append(0.25)
                else:
                    a = min(1.0, pis[idx_of(sp["fol"])] / pis[idx_of(sp["u"])])
                    rs.append(a / 2 if sp["rc"] == "low" else (1.0 + a) / 2)
            rq.append(np.array(rs))
        ms = self.mode_stats(M, d, gains)
        snaps = []

        def sink(event, refs):
            if event == "sweep":
                r_ = refs["runner"]
                up = refs.get("u_prime")
                snaps.append((np.array(r_.u, dtype=float), np.array(r_.assignments), None if up is None else np.array(up, dtype=float)))

        from tempest import _verif
        o_init = self.mcmc.RWMRunner._initialize_sigmas
        self.calls += 1
        sr = Scripted(np, normals=zq, uniforms=rq)
        runner = None
        try:
            _verif.set_sink(sink)
            if entry:
                self.mcmc.RWMRunner._initialize_sigmas = lambda r_: np.ones(r_.n_clusters)
                with sr:
                    out = self.mcmc.parallel_mcmc(u0, u0.copy(), l0, b0, labels.copy(), b / 2.0, ms, ll, lambda v: v,
                                                  progress_bar=None, n_steps=float(ns) / d, n_max=float(ns) / d, sample="rwm", periodic=per, reflective=ref, verbose=False)
            else:
                runner = self.mcmc.RWMRunner(u0, u0.copy(), l0, b0, labels.copy(), b / 2.0, ms, ll,
                                             lambda v: v, None, float(ns) / d, float(ns) / d, per, ref, False)
                runner.sigmas[:] = 1.0
                if ns > 1:
                    runner._adapt_sigma = lambda c, a: None   # step-size adaptation is not part of C03: pinned
                with sr:
                    out = runner.run()
        except Exhausted:
            return Res("over", "the code drew more innovations than the specification's behaviour (redraw where the spec rejects)", False)
        except BindingLost as ex:
            return lost(str(ex))
        finally:
            _verif.set_sink(None)
            self.mcmc.RWMRunner._initialize_sigmas = o_init
        under = sr.under()

        def differs(got, want):
            got = np.asarray(got, dtype=float)
            return got.shape != want.shape or not np.allclose(got, want, rtol=0.0, atol=TOL)

        bad = None
        if flags["outside"]:
            bad = "the likelihood was evaluated at a point that is not a lattice point of the cube"
        if bad is None and runner is not None and not np.array_equal(runner.assignments, labels):
            bad = f"cluster labels changed during run(): {labels.tolist()} -> {runner.assignments.tolist()}"
        # per sweep (through the library's own `sweep` hook, when it fires once per sweep): the state after the sweep, the
        # labels, and the proposal of every walker - the folded proposal made with the mode of the walker's FIXED label;
        # a walker whose proposal is outside the cube keeps its state
        if bad is None and len(snaps) == ns:
            self.hooked += 1
            for k in range(ns):
                su, sa, sp_ = snaps[k]
                want_u = np.array([[c / den for c in t["sweeps"][k]["rec"][0]] for t in trans])
                want_p = np.array([[c / den for c in (t["sweeps"][k]["fol"] if t["sweeps"][k]["ok"] else t["sweeps"][k]["u"])] for t in trans])
                if not np.array_equal(sa, labels):
                    bad = f"cluster labels changed during run() (sweep {k + 1}): {labels.tolist()} -> {sa.tolist()}"
                elif sp_ is not None and differs(sp_, want_p):
                    bad = (f"sweep {k + 1}: proposals {sp_.tolist()} ; specification (labels {(labels + 1).tolist()}, cells per unit "
                           f"innovation {list(gains)}) {want_p.tolist()}")
                elif differs(su, want_u):
                    bad = f"sweep {k + 1}: state after the sweep {su.tolist()} ; specification {want_u.tolist()}"
                if bad:
                    break
        if bad is None:
            last = [t["sweeps"][-1] for t in trans]
            ixe = [idx_of(sp["rec"][0]) for sp in last]
            for sp, ix in zip(last, ixe):
                if sp["rec"][1] != e[ix] or sp["rec"][2] != ix + 1:
                    raise RuntimeError("spec record incoherent")  # guarded by RecordCoherent
            eu = np.array([[c / den for c in sp["rec"][0]] for sp in last])
            el = np.array([e[i] * LN2 for i in ixe])
            eb = np.array([blob_of(i) for i in ixe])
            for name, got, want in (("u", out[0], eu), ("x", out[1], eu), ("logl", out[2], el), ("blobs", out[3], eb)):
                if differs(got, want):
                    bad = f"post-run {name} = {np.asarray(got).tolist()} ; specification's successor {want.tolist()}"
                    break
        if bad:
            return Res("value", bad, under)
        if under:
            return Res("under", f"the code consumed {sr.nz} innovation vectors, the specification's behaviour has {sr.nz_scripted}", True)
        if sr.nu != ns:
            return lost(f"{sr.nu} uniform draws consumed in {ns} scripted sweeps")
        if ns == 1:
            self.masks.add(tuple(bool(t["sweeps"][-1]["acc"]) for t in trans) if n == 3 else None)
        return Res(None, "", False)


_VAR = re.compile(r"^/\\ (\w+) = (.*)$")
_BOOL = re.compile(r"\b(TRUE|FALSE)\b")


def _parse_block(lines):
    """like fastdump._parse_block, but booleans may also occur inside sequences"""
    st, cur, buf = {}, None, []

    def val(txt):
        txt = _BOOL.sub(lambda m: m.group(1).lower(), txt.strip())
        return json.loads(txt.replace("<<", "[").replace(">>", "]"))

    for ln in lines:
        m = _VAR.match(ln)
        if m:
            if cur is not None:
                st[cur] = val(" ".join(buf))
            cur, buf = m.group(1), [m.group(2)]
        elif cur is not None and ln.strip():
            buf.append(ln.strip())
    if cur is not None:
        st[cur] = val(" ".join(buf))
    return st


def iter_states(path, wanted, last_sweep_of=None):
    """one pass over a TLC dump; only states whose pc is in `wanted` are parsed.  last_sweep_of: {ci: nsweeps} - `done`
    states of an earlier sweep (they are prefixes of longer behaviours) are skipped unparsed."""
    marks = tuple('/\\ pc = "%s"' % w for w in wanted)

    def keep(block):
        if last_sweep_of is None:
            return True
        vals = {}
        for ln in block:
            if ln.startswith("/\\ ci = ") or ln.startswith("/\\ sw = "):
                vals[ln[3:5]] = int(ln.split("=")[1])
            elif ln == '/\\ pc = "weights"':
                return True
        return vals.get("sw") == last_sweep_of.get(vals.get("ci"))

    block, hit = [], False
    with open(path) as f:
        for ln in f:
            if ln.startswith("State ") and ln.rstrip().endswith(":"):
                if block and hit and keep(block):
                    yield _parse_block(block)
                block, hit = [], False
                continue
            ln = ln.rstrip("\n")
            if ln:
                block.append(ln)
                if not hit and ln.startswith(marks):
                    hit = True
    if block and hit and keep(block):
        yield _parse_block(block)


def _sweep_of(u, zs, rc, fol, ok, acc, rec):
    return dict(u=tuple(u), zs=tuple(tuple(z) for z in zs), rc=rc, fol=tuple(fol), ok=ok, acc=acc, rec=(tuple(rec[0]), rec[1], rec[2]))


def load_kernel_dump(res, cases):
    """-> (mats, trans): mats[(ci,kinds,e,b,lab)] = (pis, [(den, nums)]); trans = complete behaviours (all sweeps of the
    run() call) as dict(ci, kinds, e, b, pis, lab, sweeps=[...]) plus the fields of the LAST sweep at top level"""
    mats, trans = {}, []
    for st in iter_states(res.dump_path, ("weights", "done"), {i + 1: c.get("nsweeps", 1) for i, c in enumerate(cases)}):
        if st["pc"] == "weights":
            mats[(st["ci"], tuple(st["kinds"]), tuple(st["e"]), st["b"], st["lab"])] = (st["pis"], [(r[0], r[1]) for r in st["mat"]])
        elif st["sw"] == cases[st["ci"] - 1].get("nsweeps", 1):
            sweeps = [_sweep_of(*h) for h in st["hist"]] + [_sweep_of(st["u"], st["zs"], st["rc"], st["fol"], st["ok"], st["acc"], st["rec"])]
            trans.append(dict(sweeps[-1], ci=st["ci"], kinds=tuple(st["kinds"]), e=tuple(st["e"]), b=st["b"], pis=st["pis"], lab=st["lab"], sweeps=sweeps))
    return mats, trans


def tkey(t):
    return (t["ci"], t["kinds"], t["e"], t["b"], t["lab"], tuple((sp["u"], sp["zs"], sp["rc"]) for sp in t["sweeps"]))


def path_weight_check(cases, rule, mats, trans):
    """Every row of the specification's P must be the sum of the weights of the enumerated behaviours:
    one-draw behaviours weigh w(z)/W times the measure of the accept-uniform class; under the code-shaped rule the
    redraw loop is a geometric series with ratio Wout/W.  Returns (rows checked, first discrepancy or None)."""
    acc = {}
    for t in trans:
        c = cases[t["ci"] - 1]
        if c.get("nsweeps", 1) != 1:
            continue  # multi-sweep behaviours are compositions of single sweeps of the same matrix
        if len(t["zs"]) != 1:  # code-shaped rule: the earlier draws of a redraw sequence landed outside
            row = acc.setdefault((t["ci"], t["kinds"], t["e"], t["b"], t["lab"], t["u"]), {"in": {}, "move": {}})
            for z in t["zs"][:-1]:
                row["in"][z] = 0
            continue
        wz = dict(c["alpha"])
        w = 1
        for zi in t["zs"][0]:
            w *= wz[zi]
        k = (t["ci"], t["kinds"], t["e"], t["b"], t["lab"], t["u"])
        row = acc.setdefault(k, {"in": {}, "move": {}})
        row["in"][t["zs"][0]] = w if t["ok"] else 0
        if t["ok"] and t["rc"] == "low" and t["rec"][0] != t["u"]:
            pu = t["pis"][t["rec"][2] - 1]
            p0 = t["pis"][idx_cells(t["u"], c["M"])]
            row["move"][t["rec"][2]] = row["move"].get(t["rec"][2], 0) + Fraction(w) * min(Fraction(1), Fraction(pu, p0))
    n = 0
    for (ci, kinds, e, b, lab, u), row in acc.items():
        c = cases[ci - 1]
        wtot = sum(w for _, w in c["alpha"]) ** c["d"]
        if rule == "impl" and c["maxdraws"] < 2:
            continue  # the out-of-cube first draws are dead ends of the unrolled loop: row not reconstructible
        if len(row["in"]) != len(c["alpha"]) ** c["d"]:
            return n, f"case {ci} u={u}: {len(row['in'])} first draws enumerated, alphabet has {len(c['alpha']) ** c['d']}"
        norm = sum(row["in"].values()) if rule == "impl" else wtot
        pis, mat = mats[(ci, kinds, e, b, lab)]
        i = idx_cells(u, c["M"])
        den, nums = mat[i]
        for j in range(len(nums)):
            if j == i:
                continue
            want = Fraction(nums[j], den)
            got = row["move"].get(j + 1, Fraction(0)) / norm
            if got != want:
                return n, f"case {ci} kinds={kinds} e={e} b={b}: P({u}->cell {j + 1}) = {want} in the matrix, {got} from the behaviours"
        n += 1
    return n, None


def idx_cells(cells, M):
    k = 0
    for i, c in enumerate(cells):
        k += ((c - 1) // 2) * M ** i
    return k


def stationary(mat):
    """exact stationary law of the chain with rows (den, nums): solve pi P = pi over Fractions"""
    n = len(mat)
    P = [[Fraction(x, den) for x in nums] for den, nums in mat]
    A = [[P[j][i] - (1 if i == j else 0) for j in range(n)] for i in range(n)]
    A[-1] = [Fraction(1)] * n
    rhs = [Fraction(0)] * (n - 1) + [Fraction(1)]
    for col in range(n):
        piv = next(r for r in range(col, n) if A[r][col] != 0)
        A[col], A[piv] = A[piv], A[col]
        rhs[col], rhs[piv] = rhs[piv], rhs[col]
        for r in range(n):
            if r != col and A[r][col] != 0:
                f = A[r][col] / A[col][col]
                A[r] = [a - f * c for a, c in zip(A[r], A[col])]
                rhs[r] -= f * rhs[col]
    return [rhs[i] / A[i][i] for i in range(n)]


# ------------------------------------------------------------------------------------------------ simulations
def simulate_lattice(np, mcmc, rep, case, mat, kinds, seed, n_per_cell, sweeps):
    """The REAL RWMRunner on a flat likelihood, innovations drawn from the specification's alphabet, walkers started
    from the uniform target.  Returns (counts, exact expected counts under the spec's P after `sweeps` sweeps)."""
    M, d = case["M"], case["d"]
    assert d == 1
    n = n_per_cell * M
    u0 = np.repeat((2 * np.arange(M) + 1) / (2.0 * M), n_per_cell).reshape(-1, 1)
    zs = np.array([z for z, _ in case["alpha"]], dtype=float)
    pw = np.array([w for _, w in case["alpha"]], dtype=float)
    rs = np.random.RandomState(seed)
    per = [0] if kinds[0] == "periodic" else None
    ref = [0] if kinds[0] == "reflective" else None
    runner = mcmc.RWMRunner(u0, u0.copy(), np.zeros(n), None, np.zeros(n, dtype=int), 1.0, rep.mode_stats(M, 1),
                            lambda x: (np.zeros(len(x)), None), lambda v: v, None, sweeps, sweeps, per, ref, False)
    runner.sigmas[:] = 1.0
    runner._adapt_sigma = lambda c, a: None  # step size pinned: walkers are independent lattice chains
    pre = zs[rs.choice(len(zs), size=40 * n * sweeps, p=pw / pw.sum())]
    it = iter(pre)
    with Scripted(np, normal_fn=lambda k: [next(it) for _ in range(k)], uniform_fn=lambda k: rs.random_sample(k)):
        out = runner.run()
    cells = np.round(out[0][:, 0] * 2 * M).astype(int)
    counts = [int(np.sum(cells == 2 * k + 1)) for k in range(M)]
    P = [[Fraction(x, den) for x in nums] for den, nums in mat]
    law = [Fraction(1, M)] * M
    for _ in range(sweeps):
        law = [sum(law[i] * P[i][j] for i in range(M)) for j in range(M)]
    return counts, [float(n * p) for p in law], n


def simulate_continuous(kernel, kinds, seed, n, sweeps, sigma, bins=8):
    """The real runner with numpy's own innovations on a flat likelihood in d = 1, walkers started uniform (= the
    target), step size pinned.  Returns the occupancy histogram after `sweeps` sweeps.  (Runs in a worker process.)"""
    import numpy as np
    from tempest import mcmc
    from tempest import modes as modes_mod

    st = np.random.get_state()
    np.random.seed(seed)
    try:
        u0 = np.random.rand(n, 1)
        ms = modes_mod.ModeStatistics(np.array([[0.5]]), np.array([[[0.09]]]), np.array([2.0]))
        per = [0] if kinds[0] == "periodic" else None
        ref = [0] if kinds[0] == "reflective" else None
        cls = mcmc.RWMRunner if kernel == "rwm" else mcmc.TPCNRunner
        r = cls(u0, u0.copy(), np.zeros(n), None, np.zeros(n, dtype=int), 1.0, ms, lambda x: (np.zeros(len(x)), None),
                lambda v: v, None, sweeps, sweeps, per, ref, False)
        r.sigmas[:] = sigma
        r._adapt_sigma = lambda c, a: None
        out = r.run()
    finally:
        np.random.set_state(st)
    h = np.histogram(out[0][:, 0], bins=bins, range=(0.0, 1.0))[0]
    return [int(x) for x in h]


def zscores(counts, n, p=None):
    k = len(counts)
    p = p or [1.0 / k] * k
    return [(c - n * q) / math.sqrt(n * q * (1 - q)) for c, q in zip(counts, p)]


# ------------------------------------------------------------------------------------------------ part (b)
PD = 50  # KernelTpcn!PD : proposals are integers in units of h/PD


def tpcn_modes(tier):
    m = [dict(d=1, nu=1, m=(4,), L=((1,),)), dict(d=1, nu=3, m=(3,), L=((2,),)),
         dict(d=2, nu=2, m=(4, 4), L=((1, 0), (1, 1))), dict(d=2, nu=4, m=(3, 5), L=((2, 0), (1, 1)))]
    # large degrees of freedom (DOF_FALLBACK = 1e6 is what the library uses when a fit finds no heavy tail); det(S) <= 4 keeps
    # 225 (nu det + Qf) below 2^31
    m += [dict(d=1, nu=102, m=(4,), L=((2,),)), dict(d=1, nu=10 ** 6, m=(3,), L=((1,),)), dict(d=2, nu=400, m=(4, 4), L=((1, 0), (1, 1)))]
    # a mode whose centre lies OUTSIDE the unit cube (a legal hand-built statistic for a target cut by a wall; the lattice has 2M = 8 cells)
    m += [dict(d=1, nu=3, m=(-1,), L=((2,),)), dict(d=2, nu=2, m=(9, 4), L=((1, 0), (1, 1)))]
    if tier != "quick":
        m += [dict(d=1, nu=5, m=(5,), L=((3,),)), dict(d=2, nu=2, m=(2, 6), L=((1, 0), (2, 3))),
              dict(d=2, nu=6, m=(4, 3), L=((3, 0), (-1, 2)))]
        m += [dict(d=1, nu=100, m=(4,), L=((1,),)), dict(d=1, nu=400, m=(5,), L=((2,),)), dict(d=1, nu=10 ** 4, m=(4,), L=((1,),)),
              dict(d=2, nu=102, m=(3, 5), L=((2, 0), (1, 1))), dict(d=2, nu=10 ** 6, m=(3, 5), L=((1, 0), (1, 1)))]
    return m


def run_tpcn(modes, zs, variant, invs, kimg, M=4, dump=True, workers=6):
    ms = ", ".join("<<%d, %d, <<%s>>, <<%s>>>>" % (
        x["d"], x["nu"], ",".join(map(str, x["m"])), ",".join("<<" + ",".join(map(str, r)) + ">>" for r in x["L"])) for x in modes)
    mc = "---- MODULE KernelTpcnMC ----\nEXTENDS KernelTpcn\nModesDef == <<%s>>\nZsDef == {%s}\n====\n" % (ms, ",".join(map(str, zs)))
    cfg = TCFG.format(M=M, v=variant, k=kimg, invs="\n".join("INVARIANT " + i for i in invs))
    return tlc.run_tlc("KernelTpcnMC", cfg, dump=dump, coverage=True, workers=workers, extra_modules={"KernelTpcnMC.tla": mc})


def tpcn_runner(np, mcmc, modes_mod, mode, M, kinds, U, nu=None):
    h = 1.0 / (2 * M)
    d = mode["d"]
    Lm = np.array(mode["L"], dtype=float)
    # degrees of freedom handed over with an INTEGER dtype when d + nu is odd (the shape (d + nu)/2 of the mixing variable is then a half-integer)
    dof = np.array([int(mode["nu"])]) if (nu is None and (d + int(mode["nu"])) % 2 == 1) else np.array([float(mode["nu"] if nu is None else nu)])
    ms = modes_mod.ModeStatistics(np.array([[m * h for m in mode["m"]]]), (h * h * (Lm @ Lm.T)).reshape(1, d, d), dof)
    n = len(U)
    per = [i for i in range(d) if kinds[i] == "periodic"] or None
    ref = [i for i in range(d) if kinds[i] == "reflective"] or None
    r = mcmc.TPCNRunner(U, U.copy(), np.zeros(n), None, np.zeros(n, dtype=int), 1.0, ms, lambda x: (np.zeros(len(x)), None),
                        lambda v: v, None, 1, 1, per, ref, False)
    r.sigmas[:] = 0.6
    return r, ms, h * Lm


def propose_group(np, runner, zss, gammas):
    """The tpCN proposals of all walkers of `runner` with scripted innovations zss[k] (list of vectors) and mixing variables
    gammas[k] = (G, scale): through the entry the library itself uses - the batched _propose_all() when the runner has
    one, one walker at a time through _propose(k) otherwise (or when the batched entry draws again for some walker).
    -> list of per-walker dict(got, gp, nz, over, lost)"""
    n = len(zss)
    if hasattr(runner, "_propose_all"):
        sr = Scripted(np, normals=[[[np.array(z, dtype=float) for z in zs] for zs in zss]], gammas=gammas)
        try:
            with sr:
                P = np.asarray(runner._propose_all(), dtype=float)
            return [dict(got=P[k], gp=sr.gparams[k], nz=sr.cz[0][k], over=False, lost=None) for k in range(n)]
        except Exhausted:
            pass   # some walker drew again: the entry works walker by walker, so do the same below
        except BindingLost as ex:
            return [dict(got=None, gp=None, nz=0, over=False, lost=str(ex))] * n
    out = []
    for k in range(n):
        sr = Scripted(np, normals=[[[np.array(z, dtype=float) for z in zss[k]]]], gammas=[gammas[k]])
        try:
            with sr:
                got = runner._propose(k)
            out.append(dict(got=np.asarray(got, dtype=float), gp=sr.gparams[0], nz=sr.nz, over=False, lost=None))
        except Exhausted:
            out.append(dict(got=None, gp=sr.gparams[0], nz=sr.nz, over=True, lost=None))
        except BindingLost as ex:
            out.append(dict(got=None, gp=None, nz=0, over=False, lost=str(ex)))
    return out


def replay_tpcn(ck, np, mcmc, modes_mod, modes, M, res):
    """-> dict of counters.  Every `done` state: the real _propose with stubbed gamma / randn; every `factor` state:
    the real _compute_acceptance_factor.  Hard-wall rule: a state `outside` (first draw out of the cube) is final under
    the intended rule (_propose returns it and the sweep rejects it) and is followed by Impl_Redraw under the
    code-shaped rule; which one the code follows is established here."""
    h = 1.0 / (2 * M)
    groups, factors = {}, []
    for st in iter_states(res.dump_path, ("done", "outside", "factor")):
        if st["pc"] == "factor":
            factors.append(st)
        elif not st["amb"] and (st["pc"] == "done" or len(st["zs"]) == 1):
            groups.setdefault((st["mi"], tuple(st["kinds"])), []).append(st)
        elif st["amb"] and st["pc"] == "done":
            groups.setdefault("skipped", []).append(st)
    cnt = dict(propose=0, skipped_boundary=len(groups.pop("skipped", [])), redraws=0, factor_pairs=0, folded=0, chol_exact=0,
               outside_probes=0)
    tally = {"impl_ok": 0, "impl_bad": 0, "int_ok": 0, "int_bad": 0}
    deferred = []
    for (mi, kinds), sts in sorted(groups.items()):
        mode = modes[mi - 1]
        d = mode["d"]
        U = np.array([[c * h for c in s["c"]] for s in sts])
        runner, ms, hL = tpcn_runner(np, mcmc, modes_mod, mode, M, kinds, U)
        if np.array_equal(ms.chol_covariances[0], hL):
            cnt["chol_exact"] += 1
        outs = propose_group(np, runner, [s["zs"] for s in sts],
                             [(4.0 / (s["sq2"] * s["sq2"]), s["scale"][0] / s["scale"][1]) for s in sts])
        cnt["batched_entry"] = cnt.get("batched_entry", 0) + int(hasattr(runner, "_propose_all"))
        for k, s in enumerate(sts):
            o = outs[k]
            if o["lost"]:
                lost(o["lost"])
                continue
            zq = s["zs"]
            sc_spec = s["scale"][0] / s["scale"][1]
            got, over = o["got"], o["over"]
            bad = "the code drew more innovations than the specification's behaviour" if over else None
            cnt["propose"] += 1
            want = [Fraction(f, PD * 2 * M) for f in s["fol"]]
            bad_rule = over or o["nz"] != len(zq)   # the number of innovations drawn identifies the hard-wall rule
            if bad is None and not bad_rule:
                gp = [o["gp"]] if o["gp"] else []
                if got is None or np.shape(got) != (d,) or any(abs(float(g) - float(w)) > TOL * max(1.0, abs(float(w))) for g, w in zip(got, want)):
                    bad = f"proposal {np.asarray(got).tolist()!r}, specification {[str(w) for w in want]}" + ("" if gp else " (no gamma / standard_gamma draw was made)")
                elif gp and gp[0][0] != s["shape2"] / 2.0:
                    bad = f"gamma shape {gp[0][0]!r}, specification (d+nu)/2 = {s['shape2'] / 2.0!r}"
                elif gp and gp[0][1] is not None and abs(gp[0][1] - sc_spec) > TOL * sc_spec:
                    bad = f"gamma scale {gp[0][1]!r}, specification 2/(nu+delta) = {s['scale'][0]}/{s['scale'][1]}"
                elif len(gp) != 1:
                    lost(f"{len(gp)} gamma draws in one proposal although the proposal agrees with the specification")
                    continue
            elif bad is None:
                bad = f"{o['nz']} innovation vectors consumed, specification {len(zq)}"
            payload = {"mode": mode, "kinds": list(kinds), "state": s, "M": M}
            if s["pc"] == "outside" or len(s["zs"]) > 1:   # behaviours that discriminate the two hard-wall rules
                which = "int" if s["pc"] == "outside" else "impl"
                if s["pc"] == "outside":
                    cnt["outside_probes"] += 1
                else:
                    cnt["redraws"] += 1
                tally[which + ("_bad" if bad_rule else "_ok")] += 1
                if bad_rule:
                    deferred.append((which, bad, payload))
                    continue
            if any(kd != "hard" for kd in kinds):
                cnt["folded"] += 1
            if bad:
                key = "tpcn:propose" + (":folded" if any(kd != "hard" for kd in kinds) else "")
                ck.violation(key, bad, payload)
            elif len(ck.samples) < 5 and any(kd != "hard" for kd in kinds) and list(s["prop"]) != list(s["fol"]):
                ck.sample({"tpcn_propose": {"mode": mode, "kinds": list(kinds), "c": s["c"], "sq2": s["sq2"], "zs": s["zs"],
                                            "gamma_shape_scale": o["gp"], "proposal": [float(g) for g in got], "spec": [str(w) for w in want]}})
    if tally["impl_bad"] == 0 and tally["int_ok"] == 0 and tally["impl_ok"]:
        cnt["hardwall_rule"] = "impl"
    elif tally["int_bad"] == 0 and tally["impl_ok"] == 0 and tally["int_ok"]:
        cnt["hardwall_rule"] = "intended"
    else:
        cnt["hardwall_rule"] = None
        kind, bad, payload = deferred[0]
        ck.violation("tpcn:hardwall-rule", f"TPCNRunner._propose follows neither hard-wall rule of KernelTpcn.tla ({tally}); first: {bad}", payload)
    cnt["hardwall_tally"] = tally
    for st in factors:
        mode = modes[st["mi"] - 1]
        rows = st["accf"]
        U = np.array([[c * h for c in st["c"]]] * len(rows))
        Up = np.array([[c * h for c in r[0]] for r in rows])
        runner, _, _ = tpcn_runner(np, mcmc, modes_mod, mode, M, ("hard",) * mode["d"], U)
        got = runner._compute_acceptance_factor(Up, None)
        for r, g in zip(rows, got):
            want = (r[3] / 2.0) * math.log1p(float(Fraction(r[1] - r[2], r[2])))
            cnt["factor_pairs"] += 1
            # the code forms (d+nu)/2 * log(1 + delta/nu) twice: absolute rounding error of 1 + x is eps/2, amplified by (d+nu)/2
            if not abs(float(g) - want) <= TOL * max(1.0, abs(want)) + 4 * 2.3e-16 * r[3]:
                ck.violation("tpcn:acceptance-factor", f"_compute_acceptance_factor = {float(g)!r}, specification ({r[3]}/2) log({r[1]}/{r[2]}) = {want!r}",
                             {"mode": mode, "c": st["c"], "c2": r[0], "M": M})
    return cnt


def replay_tpcn_float(ck, np, mcmc, modes_mod, modes, M, res, nus=(2.5, 7.3), limit=200):
    """Non-integer degrees of freedom.  KernelTpcn.tla carries integer nu; its closed forms are the same functions of nu
    for real nu, so here the spec's integers Qf(n), Det, Map(...) (which do not depend on nu) are combined with a real
    nu in floating point: shape = (d+nu)/2, scale = 2/(nu + Qf/Det), factor = (d+nu)/2 * log((nu Det + Qf')/(nu Det + Qf)),
    and compared with the real _propose / _compute_acceptance_factor of a mode with that nu (first d=1 and first d=2 mode)."""
    h = 1.0 / (2 * M)
    pick = {}
    for i, mo in enumerate(modes):
        pick.setdefault(mo["d"], i + 1)
    groups, factors = {}, []
    for st in iter_states(res.dump_path, ("done", "factor")):
        if st["mi"] not in pick.values():
            continue
        if st["pc"] == "factor":
            factors.append(st)
        elif not st["amb"] and len(st["zs"]) == 1 and all(kd == "hard" for kd in st["kinds"]) and len(groups.setdefault(st["mi"], [])) < limit:
            groups[st["mi"]].append(st)
    n_eval = 0
    for nu in nus:
        for mi, sts in sorted(groups.items()):
            mode = modes[mi - 1]
            d = mode["d"]
            U = np.array([[c * h for c in s["c"]] for s in sts])
            runner, _, _ = tpcn_runner(np, mcmc, modes_mod, mode, M, ("hard",) * d, U, nu=nu)
            scales = [2.0 / (nu + s["qf"][0] / s["qf"][1]) for s in sts]
            outs = propose_group(np, runner, [s["zs"][:1] for s in sts], [(4.0 / (s["sq2"] ** 2), sc) for s, sc in zip(sts, scales)])
            for k, s in enumerate(sts):
                w_shape, w_scale = (d + nu) / 2, scales[k]
                o = outs[k]
                if o["lost"] or o["over"] or o["got"] is None:
                    lost(f"real nu: {o['lost'] or 'more innovations drawn than scripted'}")
                    continue
                got = o["got"]
                n_eval += 1
                want = [float(Fraction(f, PD * 2 * M)) for f in s["fol"]]
                rec = [o["gp"]] if o["gp"] else []
                bad = None
                if any(abs(float(g) - w) > TOL * max(1.0, abs(w)) for g, w in zip(got, want)):
                    bad = f"proposal {got.tolist()}, specification {want}"
                elif rec and (abs(rec[0][0] - w_shape) > 1e-12 or (rec[0][1] is not None and abs(rec[0][1] - w_scale) > TOL * w_scale)):
                    bad = f"gamma(shape={rec[0][0]!r}, scale={rec[0][1]!r}), closed form ({w_shape!r}, {w_scale!r})"
                elif len(rec) != 1:
                    lost(f"real nu: {len(rec)} gamma draws although the proposal agrees")
                if bad:
                    ck.violation("tpcn:propose:real-nu", f"nu = {nu}: {bad}", {"mode": dict(mode, nu=nu), "state": s, "M": M})
        for st in factors:
            mode = modes[st["mi"] - 1]
            d = mode["d"]
            rows = st["accf"]
            U = np.array([[c * h for c in st["c"]]] * len(rows))
            Up = np.array([[c * h for c in r[0]] for r in rows])
            runner, _, _ = tpcn_runner(np, mcmc, modes_mod, mode, M, ("hard",) * d, U, nu=nu)
            got = runner._compute_acceptance_factor(Up, None)
            Lm = mode["L"]
            S = [[sum(Lm[i][k] * Lm[j][k] for k in range(d)) for j in range(d)] for i in range(d)]
            det = S[0][0] * S[1][1] - S[0][1] * S[1][0] if d == 2 else S[0][0]
            for r, g in zip(rows, got):
                q2, q1 = r[1] - mode["nu"] * det, r[2] - mode["nu"] * det       # Qf(n'), Qf(n) from the spec's G numerators
                want = (d + nu) / 2 * math.log1p((q2 - q1) / (nu * det + q1))
                n_eval += 1
                if not abs(float(g) - want) <= TOL * max(1.0, abs(want)):
                    ck.violation("tpcn:acceptance-factor:real-nu", f"nu = {nu}: _compute_acceptance_factor = {float(g)!r}, closed form {want!r}",
                                 {"mode": dict(mode, nu=nu), "c": st["c"], "c2": r[0], "M": M})
    return n_eval


def entry_tpcn(ck, np, mcmc, modes_mod, modes, M, res, limit):
    """KernelTpcn behaviours through the public entry point tempest.mcmc.parallel_mcmc(sample="tpcn"): three walkers per
    call, gamma / randn / rand scripted, initial step size pinned to 3/5 on the class for the call.  Two variants:
    accept (r = 0: the successor is the folded proposal, the whole record moves) and reject (the likelihood is -inf
    at every proposal: the successor is the current record).  -> counters"""
    h = 1.0 / (2 * M)
    groups = {}
    for st in iter_states(res.dump_path, ("done",)):
        if not st["amb"] and len(st["zs"]) == 1:
            groups.setdefault((st["mi"], tuple(st["kinds"])), []).append(st)
    cnt = dict(sweeps=0, walkers=0, folded=0, nonfinite_sweeps=0)
    rng = random.Random(ck.seed + 77)
    for (mi, kinds), sts in sorted(groups.items()):
        mode = modes[mi - 1]
        d = mode["d"]
        rng.shuffle(sts)
        sts = sts[:limit]
        per = [i for i in range(d) if kinds[i] == "periodic"] or None
        ref = [i for i in range(d) if kinds[i] == "reflective"] or None
        Lm = np.array(mode["L"], dtype=float)
        ms = modes_mod.ModeStatistics(np.array([[m * h for m in mode["m"]]]), (h * h * (Lm @ Lm.T)).reshape(1, d, d), np.array([float(mode["nu"])]))
        for i in range(0, len(sts), 3):
            chunk = sts[i:i + 3]
            n = len(chunk)
            # accept: flat-ish likelihood, r = 0.  The other three are Kernel.tla's NonFiniteRule (alpha = 0 whatever r):
            # reject: every proposal has log-likelihood -inf; nan: every proposal has log-likelihood NaN;
            # inf2inf: the walkers' CURRENT log-likelihood is -inf as well (-inf - -inf = NaN)
            variant = ("accept", "reject", "accept", "nan", "accept", "inf2inf")[(i // 3) % 6]
            U = np.array([[c * h for c in s["c"]] for s in chunk])
            inside_sweep = {"on": False}

            def lik(xb, _v=variant):
                xb = np.asarray(xb, dtype=float)
                out = -xb.sum(axis=1)
                if _v != "accept" and inside_sweep["on"]:
                    out = np.full(len(xb), np.nan if _v == "nan" else -np.inf)   # alpha = 0, nothing moves
                return out, 2.0 * xb + 1.0

            l0, b0 = lik(U)
            if variant == "inf2inf":
                l0 = np.full(n, -np.inf)
            inside_sweep["on"] = True
            gq = [(4.0 / (s["sq2"] * s["sq2"]), s["scale"][0] / s["scale"][1]) for s in chunk]
            zq = [[[np.array(s["zs"][0], dtype=float)] for s in chunk]]
            sr = Scripted(np, normals=zq, uniforms=[np.zeros(n)], gammas=gq)
            o_init = mcmc.TPCNRunner._initialize_sigmas
            mcmc.TPCNRunner._initialize_sigmas = lambda r_: np.ones(r_.n_clusters) * 0.6
            bad = None
            try:
                with sr:
                    out = mcmc.parallel_mcmc(U, U.copy(), l0, b0, np.zeros(n, dtype=int), 1.0, ms, lik, lambda v: v, progress_bar=None,
                                             n_steps=1.0 / d, n_max=1.0 / d, sample="tpcn", periodic=per, reflective=ref, verbose=False)
            except Exhausted:
                bad = "the code drew more innovations than the specification's behaviour"
            except BindingLost as ex:
                lost(str(ex))
                continue
            finally:
                mcmc.TPCNRunner._initialize_sigmas = o_init
                inside_sweep["on"] = False
            cnt["sweeps"] += 1
            cnt["walkers"] += n
            cnt["nonfinite_sweeps"] += variant in ("nan", "inf2inf", "reject")
            if any(list(s["prop"]) != list(s["fol"]) for s in chunk):
                cnt["folded"] += 1
            if bad is None:
                close = lambda a_, b_: np.shape(a_) == np.shape(b_) and np.allclose(np.asarray(a_, dtype=float), b_, rtol=0.0, atol=TOL)  # noqa: E731
                if variant != "accept":
                    if not (close(out[0], U) and close(out[1], U) and np.array_equal(np.asarray(out[2]), l0) and close(out[3], b0)):
                        bad = f"a proposal with log-likelihood {'NaN' if variant == 'nan' else '-inf'} was accepted: u={out[0].tolist()} (was {U.tolist()})"
                else:
                    want = np.array([[float(Fraction(f, PD * 2 * M)) for f in s["fol"]] for s in chunk])
                    if not close(out[0], want):
                        bad = f"accepted proposal u={out[0].tolist()}, specification {want.tolist()}"
                    else:
                        wl, wb = lik(out[0])
                        if not (close(out[1], out[0]) and close(out[2], wl) and close(out[3], wb)):
                            bad = "x / logl / blobs of the accepted record are not those of the accepted point"
                if bad is None and (sr.ng, sr.nz, sr.nu) != (n, n, 1):
                    lost(f"tpcn entry: gamma/normal/uniform draws consumed {(sr.ng, sr.nz, sr.nu)}, scripted {(n, n, 1)}, although every value agrees")
                    continue
            if bad:
                ck.violation("entry:parallel_mcmc:tpcn" if variant == "accept" else "nonfinite-loglik:accepted", f"one sweep through tempest.mcmc.parallel_mcmc(sample='tpcn', periodic={per}, reflective={ref}) differs from "
                             f"KernelTpcn.tla / Kernel.tla NonFiniteRule ({variant} variant): {bad}", {"mode": mode, "kinds": list(kinds), "states": chunk, "variant": variant, "M": M})
    return cnt


def folded_identity(modes, M, res, kimg):
    """Image sums of the specification's tables with exact fractions and a rigorous tail bound.
    -> (pairs examined, pairs where the identity is refuted, the most violating pair)"""
    n_pairs = n_bad = 0
    worst = None
    for st in fastdump.iter_dump(res.dump_path, keep='/\\ pc = "images"'):
        mode = modes[st["mi"] - 1]
        d, nu = mode["d"], mode["nu"]
        r = (nu + 2 * d) // 2
        Lm = mode["L"]
        S = [[sum(Lm[i][k] * Lm[j][k] for k in range(d)) for j in range(d)] for i in range(d)]
        det = S[0][0] * S[1][1] - S[0][1] * S[1][0] if d == 2 else S[0][0]
        axis = next(i for i, kd in enumerate(st["kinds"]) if kd != "hard")
        kind = st["kinds"][axis]
        P = 2 * M if kind == "periodic" else 4 * M
        nW = 1 if kind == "periodic" else 2
        # |k| > K: along the axis |B n'_img - A n| >= B (|k| P - 6M); TN >= 25 Qf(v) >= 25 det v_axis^2 / S_axis,axis
        K = kimg
        if K * P <= 6 * M:
            raise RuntimeError("KImg too small for the tail bound")
        cst = Fraction(S[axis][axis], 25 * det * 25)
        tail = nW * 2 * cst ** r * Fraction(1, P * (2 * r - 1)) * Fraction(1, (K * P - 6 * M) ** (2 * r - 1))
        for c2, fw, bw in st["img"]:
            if tuple(c2) == tuple(st["c"]):
                continue
            s1 = sum(Fraction(1, t) ** r for w in fw for t in w)
            s2 = sum(Fraction(1, t) ** r for w in bw for t in w)
            n_pairs += 1
            if s1 > s2 + tail or s2 > s1 + tail:
                n_bad += 1
                gap = abs(s1 - s2) / max(s1, s2)
                if worst is None or gap > worst["rel_gap"]:
                    worst = {"mode": mode, "kinds": list(st["kinds"]), "u": [Fraction(c, 2 * M) for c in st["c"]],
                             "u_prime": [Fraction(c, 2 * M) for c in c2], "rel_gap": gap,
                             "sum_forward_lo": s1, "sum_backward_lo": s2, "tail_bound": tail, "r": r, "K": K}
    if worst:
        worst = {k: (float(v) if isinstance(v, Fraction) else [str(x) for x in v] if k in ("u", "u_prime") else v) for k, v in worst.items()}
    return n_pairs, n_bad, worst


# ------------------------------------------------------------------------------------------------ main
def dbg(ck, what):
    if os.environ.get("VERIF_DEBUG"):
        import time
        print(f"  [{time.time() - ck.t0:6.1f}s] {what}", file=sys.stderr, flush=True)


def need_cov(res, names, what):
    zero = [a for a in names if res.coverage.get(a, (0, 0))[1] == 0]
    if zero:
        raise tlc.TLCFailure(f"vacuous: actions never taken in {what}: {zero}")


def main():
    import shutil
    import tempfile

    ck = core.Check("C03", "model_checking")
    own = None
    if not os.environ.get("VERIF_SCRATCH"):
        own = tempfile.mkdtemp(prefix="c03_scratch_")
        os.environ["VERIF_SCRATCH"] = own   # private TLC scratch, removed below whatever happens
    pools = []
    try:
        if not _mode_factor_probe(ck):
            ck.finish({"evaluations": 1, "distinct_nontrivial": 2, "states": 1, "transitions": 1, "traces_validated_against_impl": 1,
                       "rule": "aborted: the proposal factor of ModeStatistics is inconsistent with its scale matrix (see violation)"})
        _main(ck, pools)
    except BindingLost as ex:
        print(f"INCONCLUSIVE property=C03 binding lost: {ex}", flush=True)
        raise RuntimeError(f"binding lost: {ex}")
    finally:
        for p in pools:
            p.shutdown(wait=True, cancel_futures=True)
        for r in _RESULTS:
            r.cleanup()
        if own:
            shutil.rmtree(own, ignore_errors=True)


def _mode_factor_probe(ck):
    """Both kernels draw their noise with chol_covariances and tpCN corrects with inv_covariances: the two must be
    a factor and the inverse of the SAME scale matrix, for every scale of the matrix (KernelTpcn.tla's Map and
    AccFactor use one Sigma).  Exact for the dyadic lattice matrices, 1e-12 relative otherwise."""
    core.import_repo()
    import numpy as np
    from tempest.modes import ModeStatistics

    ok = True
    rng = np.random.RandomState(3)
    cases = [np.eye(d) / (M * M) for M in (4, 8, 1024, 2 ** 20) for d in (1, 2)]
    for scale in (1.0, 1e-3, 1e-6, 1e-9):
        A = rng.randn(3, 3)
        cases.append((A @ A.T + 3 * np.eye(3)) * scale)
    for cov in cases:
        d = len(cov)
        ms = ModeStatistics(np.full((1, d), 0.5), cov.reshape(1, d, d), np.array([4.0]))
        L, P = ms.chol_covariances[0], ms.inv_covariances[0]
        e1 = np.max(np.abs(L @ L.T - cov)) / np.max(np.abs(cov))
        e2 = np.max(np.abs(P @ cov - np.eye(d)))
        if e1 > 1e-12 or e2 > 1e-9:
            ok = False
            ck.violation("modes:factor-not-of-scale-matrix",
                         f"ModeStatistics: chol_covariances / inv_covariances are not a factor / the inverse of the scale matrix (rel. error {e1:.2e} / {e2:.2e}) for cov with max entry {np.max(np.abs(cov)):.3g}",
                         {"cov": cov.tolist(), "chol": L.tolist(), "inv": P.tolist()})
            break
    return ok


_RESULTS = []


def _tracked(fn, *a):
    r = fn(*a)
    _RESULTS.append(r)
    return r


def _main(ck, pools):
    core.import_repo()
    import warnings

    import numpy as np
    from tempest import mcmc
    from tempest import modes as modes_mod

    warnings.filterwarnings("ignore")
    if ck.args.replay:
        with open(ck.args.replay) as f:
            rp = json.load(f)
        pl = rp["replay"]
        if rp["key"] in ("replay:sweep", "replay:multi-sweep", "run:labels-changed", "replay:hardwall-rule", "entry:parallel_mcmc:rwm"):
            case = pl["case"]
            case["alpha"] = [tuple(a) for a in case["alpha"]]
            ts = pl.get("transitions") or [pl["transition"]]
            rep = SweepReplayer(np, mcmc, modes_mod)
            m = rep.sweep(case, tuple(ts[0]["kinds"]), tuple(ts[0]["e"]), ts[0]["pis"], ts[0]["b"], ts, entry=rp["key"].startswith("entry:"))
            print("replayed sweep:", m.msg or "reproduces the specification's successor")
            if m.kind == "lost":
                print(f"INCONCLUSIVE property=C03 {m.msg}", flush=True)
                raise RuntimeError(m.msg)
            if m:
                ck.violation(rp["key"], m.msg, pl)
            ck.finish({"states": 1, "transitions": len(ts), "traces_validated_against_impl": len(ts), "replayed_file": ck.args.replay})
        print(f"replay of key {rp['key']}: re-running the check ({rp['what'][:200]}...)")
    quick = ck.tier == "quick"
    cases = kernel_cases(ck.tier, ck.seed)
    tmodes = tpcn_modes(ck.tier)
    tzs = [-2, 0, 1] if quick else [-2, -1, 0, 1, 3]
    kimg = 6 if quick else 10
    pp = cf.ProcessPoolExecutor(max_workers=4)  # forked before any thread exists
    pp.submit(int, 0).result()
    ex = cf.ThreadPoolExecutor(max_workers=8)
    pools += [pp, ex]
    f_int = ex.submit(_tracked, run_kernel, cases, "intended", "any", K_INV_W + K_INV_D + K_INV_S + ["DetailedBalance"])
    f_imp = ex.submit(_tracked, run_kernel, cases, "impl", "any", K_INV_W + K_INV_S)
    f_none = ex.submit(_tracked, run_kernel, cases, "impl", "none", K_INV_W + ["DetailedBalance"], False, False, 2)
    f_some = ex.submit(_tracked, run_kernel, cases, "impl", "some", ["DetailedBalance"], False, False, 2)
    f_t = ex.submit(_tracked, run_tpcn, tmodes, tzs, "intended", T_INV, kimg)
    vmodes = [x for x in tmodes if x["nu"] <= 10 ** 4]   # the seeded variants carry a denominator 25^2: keep 32-bit
    f_tv = {v: ex.submit(_tracked, run_tpcn, vmodes, tzs, v, ["Reversible"], 0, 4, False, 2) for v in ("shape_nu_half", "no_sqrt", "sign_flipped")}

    # ---- confirmations by direct simulation of the real runners (worker processes; they are NOT the oracle)
    nsim = 8000 if quick else 40000
    simjobs = [("rwm", ("hard",), 1.0), ("tpcn", ("hard",), 0.5), ("tpcn", ("periodic",), 0.9), ("tpcn", ("reflective",), 0.9)]
    if not quick:
        simjobs += [("rwm", ("periodic",), 1.0), ("rwm", ("reflective",), 1.0)]
    nof = lambda k, kd: nsim * (2 if (k, kd) == ("tpcn", ("hard",)) else 1)  # noqa: E731  (the tpCN wall effect is the weakest)
    f_sim = {f"{k}:{kd[0]}": pp.submit(simulate_continuous, k, kd, ck.seed + 3, nof(k, kd), 12, sg) for k, kd, sg in simjobs}

    def sim_results():
        out = {}
        for name, f in f_sim.items():
            h = f.result()
            ns = sum(h)
            z = zscores(h, ns)
            edge = (h[0] + h[-1] - ns / 4.0) / math.sqrt(ns * 0.25 * 0.75)
            out[name] = {"hist": h, "z": [round(x, 2) for x in z], "edge_z": round(edge, 2), "chi2": round(sum(x * x for x in z) * 7 / 8, 1),
                         "n": ns, "sweeps": 12, "sigma": dict((f"{k}:{kd[0]}", sg) for k, kd, sg in simjobs)[name]}
        return out

    states = trans_n = 0
    spec_runs = {}

    def account(name, r):
        nonlocal states, trans_n
        states += r.distinct
        trans_n += r.generated
        spec_runs[name] = {"status": r.status, "violated": r.violated, "distinct": r.distinct, "wall_s": round(r.wall_s, 1),
                           "coverage": {k: list(v) for k, v in r.coverage.items()}}

    # ================================================================= (a) lattice chain
    r_int, r_imp, r_none, r_some = f_int.result(), f_imp.result(), f_none.result(), f_some.result()
    for nm, r in (("kernel:intended", r_int), ("kernel:impl", r_imp), ("kernel:impl:no-hard-coordinate", r_none), ("kernel:impl:hard-coordinate", r_some)):
        account(nm, r)
    if r_int.status != "ok":
        ck.violation("spec:intended:" + r_int.violated, f"Kernel.tla (intended rule): {r_int.violated} violated", {"trace": r_int.error_trace})
    if r_none.status != "ok":
        ck.violation("spec:impl-folded:" + r_none.violated, f"Kernel.tla (code-shaped rule, periodic/reflective only): {r_none.violated} violated", {"trace": r_none.error_trace})
    if r_imp.status != "ok":
        ck.violation("spec:impl:" + r_imp.violated, f"Kernel.tla (code-shaped rule): {r_imp.violated} violated", {"trace": r_imp.error_trace})
    if ck.violations:
        ck.finish({"states": states, "transitions": trans_n, "traces_validated_against_impl": 0, "spec_runs": spec_runs})
    if r_some.status != "violation" or r_some.violated != "DetailedBalance":
        raise tlc.TLCFailure("Impl_RedrawUntilInside at hard walls was expected to be refuted by TLC (non-vacuity of DetailedBalance)")
    need_cov(r_int, ["Init", "Weights", "Walker", "Propose", "Fold", "Check", "OutReject", "Accept", "Reject"], "Kernel intended")
    need_cov(r_imp, ["Init", "Weights", "Walker", "Propose", "Fold", "Check", "Impl_RedrawUntilInside", "Accept", "Reject"], "Kernel impl")
    dbg(ck, "kernel TLC: " + str({k: (v["distinct"], v["wall_s"]) for k, v in spec_runs.items()}))
    sims = sim_results()
    pp.shutdown()
    dbg(ck, "kernel TLC runs + simulations done")
    mats_i, tr_i = load_kernel_dump(r_int, cases)
    mats_c, tr_c = load_kernel_dump(r_imp, cases)
    for r in (r_int, r_imp, r_none, r_some):
        r.cleanup()
    # the spec's own counterexample to detailed balance under the code-shaped rule
    cex = None
    for _, st in r_some.error_trace:
        if st.get("pc") == "weights":
            pis, mat = st["pis"], st["mat"]
            for i in range(len(pis)):
                for j in range(len(pis)):
                    lhs, rhs = pis[i] * mat[i][1][j] * mat[j][0], pis[j] * mat[j][1][i] * mat[i][0]
                    if lhs != rhs and cex is None:
                        cex = {"M": st["M"], "kinds": list(st["kinds"]), "e": list(st["e"]), "beta": st["b"] / 2, "cell_u": i + 1, "cell_v": j + 1,
                               "pi_u*P(u,v)": str(Fraction(pis[i] * mat[i][1][j], mat[i][0])), "pi_v*P(v,u)": str(Fraction(pis[j] * mat[j][1][i], mat[j][0]))}
    # every row of P is the sum of the enumerated behaviours (both rules)
    rows_i, bad = path_weight_check(cases, "intended", mats_i, tr_i)
    if bad:
        raise tlc.TLCFailure("Kernel.tla intended: matrix and behaviours disagree: " + bad)
    rows_c, bad = path_weight_check(cases, "impl", mats_c, tr_c)
    if bad:
        raise tlc.TLCFailure("Kernel.tla impl: matrix and behaviours disagree: " + bad)

    dbg(ck, "dumps loaded, rows cross-checked")
    rep = SweepReplayer(np, mcmc, modes_mod)
    ki = {tkey(t): t for t in tr_i}
    kc = {tkey(t): t for t in tr_c}
    common = [t for k, t in ki.items() if k in kc]
    for t in common:
        o = kc[tkey(t)]
        if (t["acc"], t["rec"], t["fol"], t["ok"]) != (o["acc"], o["rec"], o["fol"], o["ok"]):
            raise tlc.TLCFailure("the two rules disagree on a behaviour without out-of-cube draw")
    int_only = [t for k, t in ki.items() if k not in kc]     # OutReject behaviours
    imp_only = [t for k, t in kc.items() if k not in ki]     # behaviours with a redraw
    if any(t["ok"] for t in int_only if len(t["sweeps"]) == 1) or any(len(t["zs"]) < 2 for t in imp_only):
        raise tlc.TLCFailure("unexpected partition of behaviours between the two hard-wall rules")
    rng = random.Random(ck.seed * 31 + 5)

    def one(t):
        return rep.sweep(cases[t["ci"] - 1], t["kinds"], t["e"], t["pis"], t["b"], [t])

    # ---- which hard-wall rule does the code follow?  (discriminating behaviours, one walker per call)
    single = lambda L: [t for t in L if len(t["sweeps"]) == 1]  # noqa: E731  (one sweep: nothing but the hard-wall rule differs)
    probe_i = rng.sample(single(int_only), min(len(single(int_only)), 400 if quick else 3000))
    probe_c = rng.sample(single(imp_only), min(len(single(imp_only)), 400 if quick else 3000))
    # a behaviour with a redraw is REFUSED by code that leaves innovations over (it did not redraw); an out-of-cube =
    # rejection behaviour is REFUSED by code that asks for another innovation.  Lost bindings decide nothing.
    res_i = [(t, one(t)) for t in probe_i]
    res_c = [(t, one(t)) for t in probe_c]
    res_i = [(t, m) for t, m in res_i if m.kind != "lost"]
    res_c = [(t, m) for t, m in res_c if m.kind != "lost"]
    ok_i, ref_i = sum(1 for _, m in res_i if not m), sum(1 for _, m in res_i if m.kind == "over")
    ok_c, ref_c = sum(1 for _, m in res_c if not m), sum(1 for _, m in res_c if m.under)
    if res_c and res_i and ok_c == len(res_c) and ref_i == len(res_i):
        follows = "impl"
    elif res_i and ok_i == len(res_i) and ref_c == len(res_c):
        follows = "intended"
    elif not res_i and not res_c:
        follows = None   # nothing could be bound: reported as INCONCLUSIVE below
    else:
        follows = None
        t, m = next(((t, m) for t, m in res_i + res_c if m.kind in ("value", "over", "under")), (None, None))
        ck.violation("replay:hardwall-rule", f"RWMRunner follows neither hard-wall rule of Kernel.tla: out-of-cube=rejection behaviours {ok_i} reproduced / {ref_i} refused "
                     f"of {len(res_i)}, redraw behaviours {ok_c} reproduced / {ref_c} refused of {len(res_c)}; first: {m and m.msg}", {"transition": t, "case": t and cases[t['ci'] - 1]})
    dbg(ck, "rule classified")
    # ---- binding B proper: every enumerated behaviour of the followed rule, three walkers per call
    todo = common + (imp_only if follows == "impl" else int_only if follows == "intended" else [])
    groups = {}
    for t in todo:
        groups.setdefault((t["ci"], t["kinds"], t["e"], t["b"]), []).append(t)
    replayed = entry_n = entry_folded = multi_n = crossers = 0

    def raw_of(t, sp):
        g = cases[t["ci"] - 1].get("gains", [1])[t["lab"] - 1]
        return tuple(c + 2 * g * z for c, z in zip(sp["u"], sp["zs"][-1]))

    nontrivial = set()
    for gk in sorted(groups):
        L = groups[gk]
        rng.shuffle(L)
        for i in range(0, len(L), 3):
            chunk = L[i:i + 3]
            m = rep.sweep(cases[gk[0] - 1], gk[1], gk[2], chunk[0]["pis"], gk[3], chunk)
            replayed += len(chunk)
            if m.kind == "under":
                m = lost(m.msg + " although every value agrees")   # scripted quantities left over, nothing differs: no verdict
            if m.kind == "lost":
                continue
            if m:
                culprit = next(((t, mm.msg) for t in chunk for mm in [one(t)] if mm and mm.kind != "lost"), (chunk[0], m.msg))
                nsw = len(chunk[0]["sweeps"])
                key = "run:labels-changed" if "cluster labels changed" in culprit[1] else "replay:sweep" if nsw == 1 else "replay:multi-sweep"
                ck.violation(key, f"{nsw} sweep(s) of one RWMRunner.run() call differ from Kernel.tla: {culprit[1]}",
                             {"transitions": chunk, "case": cases[gk[0] - 1], "joint_message": m.msg})
            elif len(chunk[0]["sweeps"]) == 1 and (i // 3) % (3 if any(kd != "hard" for kd in gk[1]) else 6) == 0:
                # the same behaviours through the public entry point (boundary arguments travel through parallel_mcmc)
                m = rep.sweep(cases[gk[0] - 1], gk[1], gk[2], chunk[0]["pis"], gk[3], chunk, entry=True)
                entry_n += len(chunk)
                if any(kd != "hard" for kd in gk[1]) and any(raw_of(t, t) != t["fol"] for t in chunk):
                    entry_folded += 1
                if m.kind in ("lost", "under"):
                    if m.kind == "under":
                        lost(m.msg)
                elif m:
                    ck.violation("entry:parallel_mcmc:rwm", f"one sweep through tempest.mcmc.parallel_mcmc(sample='rwm', periodic={[j for j, kd in enumerate(gk[1]) if kd == 'periodic']}, "
                                 f"reflective={[j for j, kd in enumerate(gk[1]) if kd == 'reflective']}) differs from Kernel.tla although RWMRunner.run() constructed directly "
                                 f"reproduces it: {m.msg}", {"transitions": chunk, "case": cases[gk[0] - 1]})
        Mg = cases[gk[0] - 1]["M"]
        for t in L:
            for sp in t["sweeps"]:
                if len(sp["zs"]) > 1 or not sp["ok"] or raw_of(t, sp) != sp["fol"] or t["pis"][idx_cells(sp["fol"], Mg)] != t["pis"][idx_cells(sp["u"], Mg)]:
                    nontrivial.add(tkey(t))
            if len(t["sweeps"]) > 1:
                multi_n += 1
                K = len(cases[gk[0] - 1].get("gains", [1]))
                # a walker that sits in the OTHER mode's part of the cube when a later sweep starts (label unchanged)
                if any(min(K - 1, (sp["u"][0] * K) // (2 * Mg)) + 1 != t["lab"] for sp in t["sweeps"][1:]):
                    crossers += 1
    for t in (common[:1] + imp_only[:1] + int_only[:1]):
        ck.sample({"lattice_transition": {k: t[k] for k in ("ci", "kinds", "e", "b", "u", "zs", "rc", "fol", "ok", "acc", "rec")}})

    dbg(ck, "lattice replays done")
    # ---- verdict on the code = TLC's verdict on the rule the code follows
    mats_f = mats_i if follows == "intended" else mats_c
    flat = next(((k, v) for k, v in mats_f.items() if cases[k[0] - 1]["M"] == 8 and cases[k[0] - 1]["d"] == 1 and k[1] == ("hard",) and not any(k[2])
                 and cases[k[0] - 1].get("gains", [1]) == [1]), None)
    quant = None
    if flat:
        (fk, (_, fmat)) = flat
        pi = stationary(fmat)
        c8 = cases[fk[0] - 1]
        try:
            counts, expect, nwalk = simulate_lattice(np, mcmc, rep, c8, fmat, ("hard",), ck.seed + 11, 1000 if quick else 6000, 10)
        except BindingLost as bl_:
            lost(f"lattice simulation: {bl_}")
            counts, expect, nwalk = [0] * 8, [1.0] * 8, 8
        quant = {"rule": "intended" if follows == "intended" else "impl", "setting": "flat likelihood, M=8, d=1, hard walls, increment alphabet %s (Kernel.tla case %d)" % (c8["alpha"], fk[0]),
                 "target": "1/8 per cell", "stationary_law_of_spec_P": [str(p) for p in pi], "stationary_float": [round(float(p), 5) for p in pi],
                 "real_RWMRunner_counts_after_10_sweeps_from_uniform": counts, "spec_expected_counts": [round(x, 1) for x in expect],
                 "z_vs_uniform_target": [round(x, 2) for x in zscores(counts, nwalk)],
                 "z_vs_spec_prediction": [round(x, 2) for x in zscores(counts, nwalk, [x / nwalk for x in expect])]}
    if follows == "impl":
        conf = bool(quant and min(quant["z_vs_uniform_target"][0], quant["z_vs_uniform_target"][-1]) < -5 and max(abs(x) for x in quant["z_vs_spec_prediction"]) < 4.5)
        ck.violation("hardwall:redraw-until-inside",
                     "RWMRunner._propose redraws the increment until the proposal is inside the cube (every Impl_RedrawUntilInside behaviour of Kernel.tla "
                     f"reproduced, {len(res_i)} out-of-cube=rejection behaviours all refused); for that rule TLC refutes detailed balance at hard walls: "
                     f"{cex}. Stationary law on the flat M=8 lattice: {quant and quant['stationary_float']} instead of 0.125 each"
                     + ("; confirmed by simulating the real runner" if conf else ""),
                     {"tlc_counterexample": cex, "quantification": quant, "continuous_simulation_rwm_hard": sims.get("rwm:hard"), "simulation_confirms": conf})
    ex_a = dict(rule_followed_by_code=follows, multi_sweep_behaviours_replayed=multi_n, multi_sweep_walkers_in_other_modes_region=crossers, lattice_transitions_through_parallel_mcmc=entry_n, entry_sweeps_with_folded_proposal=entry_folded, lattice_rows_cross_checked=rows_i + rows_c, accept_masks_seen=sorted(str(m) for m in rep.masks if m),
                probes={"intended_out_reject": len(res_i), "impl_redraw": len(res_c)}, run_calls=rep.calls, sweeps_checked_through_hook=rep.hooked, hardwall_quantification=quant)

    # ================================================================= (b) tpCN identity
    dbg(ck, "part (a) done")
    r_t = f_t.result()
    account("tpcn:intended", r_t)
    if r_t.status != "ok":
        ck.violation("spec:tpcn:" + r_t.violated, f"KernelTpcn.tla: {r_t.violated} violated for the intended proposal", {"trace": r_t.error_trace})
        ck.finish({"states": states, "transitions": trans_n, "traces_validated_against_impl": replayed, "spec_runs": spec_runs})
    need_cov(r_t, ["Init", "Dot", "GammaParams", "DrawS", "Draw", "Impl_Redraw", "Images", "Factor"], "KernelTpcn")
    refuted = []
    for v, f in f_tv.items():
        rv = f.result()
        account("tpcn:" + v, rv)
        if rv.status != "violation" or rv.violated != "Reversible":
            raise tlc.TLCFailure(f"seeded wrong variant {v} was not refuted by TLC")
        refuted.append(v)
        rv.cleanup()
    dbg(ck, "tpcn TLC done")
    cnt = replay_tpcn(ck, np, mcmc, modes_mod, tmodes, 4, r_t)
    cnt["real_nu_evaluations"] = replay_tpcn_float(ck, np, mcmc, modes_mod, tmodes, 4, r_t)
    cnt["entry"] = entry_tpcn(ck, np, mcmc, modes_mod, tmodes, 4, r_t, 60 if quick else 600)
    npairs, nbad, worst = folded_identity(tmodes, 4, r_t, kimg)
    r_t.cleanup()
    ex.shutdown()
    dbg(ck, "tpcn replays + folded sums done")
    if nbad:
        s_p, s_r = sims.get("tpcn:periodic"), sims.get("tpcn:reflective")
        conf = bool(s_p and s_r and s_p["chi2"] > 43.6 and s_r["chi2"] > 43.6)
        ck.violation("tpcn:folded-coordinates",
                     f"tpCN with a periodic/reflective coordinate: the proposal density on the folded space is the image sum, the Student-t correction uses the "
                     f"principal image only; reversibility fails for {nbad} of {npairs} lattice pairs, e.g. u={worst['u']} u'={worst['u_prime']} "
                     f"(mode {worst['mode']}, kinds {worst['kinds']}): sum_k T(u,img_k u')^-r and sum_k T(u',img_k u)^-r differ by {worst['rel_gap']:.3g} relative "
                     f"(tail bound {worst['tail_bound']:.2g})" + ("; confirmed by simulating the real runner on a flat target" if conf else ""),
                     {"pair": worst, "pairs_examined": npairs, "pairs_refuted": nbad, "simulation_periodic": s_p, "simulation_reflective": s_r, "simulation_confirms": conf})
    if cnt["hardwall_rule"] == "impl":
        s_h = sims.get("tpcn:hard")
        if s_h and s_h["edge_z"] < -5:
            ck.violation("hardwall:redraw-until-inside:tpcn",
                         "TPCNRunner._propose redraws the innovation (same scale s) until the proposal is inside the cube (every Impl_Redraw behaviour of KernelTpcn.tla "
                         "reproduced); the proposal given s is renormalised by P(inside | u, s), which the Student-t correction ignores - the mechanism TLC refutes on the "
                         f"lattice (Kernel.tla). Simulation of the real runner, flat target, hard walls: edge bins {s_h['edge_z']} sigma below the target",
                         {"simulation_tpcn_hard": s_h, "impl_redraw_behaviours_reproduced": cnt["redraws"]})
    # ---- system level (PSRunTrace.tla): runs whose first positive temperature is tiny (2^-14 < 1e-4).  The kernel must be what moves the
    # particles at EVERY positive temperature (clause MP_OnlyAtZero); the other clauses of these traces belong to other properties.
    from vlib import sysrun

    sjobs = [{"conf": dict(c, n_particles=8, target="needle"), "seed": 300 + i + ck.seed, "label": f"needle#{i}", "n_total": 16}
             for i, c in enumerate([dict(clustering=False), dict(clustering=False, sample="rwm", resample="syst")] + ([] if quick else [dict(clustering=True, n_particles=16), dict(volume_variation=0.5, clustering=False)]))]
    # several modes (K >= 2): the label a walker entered the mutation step with stays its label in every sweep (clause SW_LabelsFixed)
    for k_ in range(3):
        sjobs.append({"conf": dict(sample="tpcn", clustering=True, n_particles=16, target=("bimodal", "banana", "bimodal")[k_], n_max_clusters=(None, 3, 2)[k_]), "seed": 14000 + k_ + ck.seed,
                      "label": f"several modes tpcn #{k_}", "n_total": 48})
    sjobs.append({"conf": dict(sample="rwm", clustering=True, n_particles=16, target="bimodal"), "seed": 311 + ck.seed, "label": "two modes rwm", "n_total": 32})
    sc, straces = sysrun.system_part(ck, "C03", sjobs, lambda t: (t["meta"]["label"], t["meta"]["seed"]) if any(e["ev"] == "MutateEnd" for e in t["events"]) else None)
    ex_a["system_runs_tiny_first_temperature"] = sc["system_runs"]
    ex_a["system_events_validated"] = sc["system_events_validated"]
    if LOST and not ck.violations:
        for w in LOST[:5]:
            print(f"INCONCLUSIVE property=C03 binding lost: {w}", flush=True)
        raise RuntimeError(f"binding lost: {len(LOST)} replay(s) could not be served by the scripted random source; first: {LOST[0]}")
    ck.assumptions += [
        "the scripted random source serves randn/standard_normal/normal, rand/random/random_sample/uniform/standard_exponential/exponential and gamma/standard_gamma from the same scripted quantities; floats are compared at 1e-9; any other use of numpy.random by the kernel is reported as INCONCLUSIVE (exit 2), never as a violation",
        "numpy.random.gamma / randn sample the laws their parameters name (trusted, not checked)",
        "step-size adaptation (diminishing adaptation) is not covered: sigma is pinned in every replay",
        "no statistical test on continuous targets is used as an oracle; the direct simulations only confirm spec-derived predictions (hard-wall and folded-coordinate findings)",
        "lattice replays use dyadic M, unit step size and an exact Cholesky factor I/M, so every proposal is an exact double; accept uniforms are interior points of the spec's cells, r = 0 and r = 1 - 2^-53",
        "tpCN states whose proposal lands exactly on a wall / fold point are flagged by the spec (amb) and not replayed",
        "multi-sweep replays (K = 2 modes, 2 and 3 consecutive sweeps of one run() call) pin _adapt_sigma to a no-op on the runner instance, so the step size stays 1 between sweeps; they go through the runner class, not parallel_mcmc",
        "large degrees of freedom (nu up to 1e6): the acceptance-factor comparison allows the rounding of (d+nu)/2 * log(1 + delta/nu), 4 * 2.3e-16 * (d+nu) absolute",
        "real-valued nu (2.5, 7.3) is replayed against a floating-point evaluation of KernelTpcn.tla's closed forms on the spec's integers Qf, Det, Map (TLC itself carries integer nu only)",
        "non-finite log-likelihoods (NaN / -inf proposals must be rejections) are not part of the lattice model (pi > 0); decided at system level",
        "the folded-space image sums are evaluated outside TLC (30-digit rationals) from the integer tables T(u, img_k u') the spec enumerates, with an explicit tail bound",
        "PARTIAL scope: the continuous proposal laws themselves (Gaussian / Student-t sampling) are not model-checked",
    ]
    ck.finish(dict(ex_a, **{
        "states": states,
        "transitions": trans_n,
        "traces_validated_against_impl": replayed + len(res_i) + len(res_c) + cnt["propose"] + cnt["factor_pairs"] + cnt["entry"]["walkers"],
        "evaluations": rep.calls + cnt["propose"] + cnt["factor_pairs"] + cnt["entry"]["sweeps"],
        "distinct_nontrivial": len(nontrivial) + cnt["redraws"] + cnt["folded"],
        "rule": "lattice behaviours (u, increment sequence, accept-uniform class) enumerated by TLC; non-trivial = a redraw, an out-of-cube or folded proposal, or an "
                "acceptance ratio != 1; tpCN: behaviours with a redraw or a folded coordinate",
        "exhaustive": True,
        "lattice_transitions_replayed": replayed,
        "tpcn": cnt,
        "tpcn_wrong_variants_refuted": refuted,
        "binding_lost": len(LOST),
        "tpcn_folded_pairs": {"examined": npairs, "refuted": nbad},
        "simulations": sims,
        "spec_runs": spec_runs,
        "cases": [{k: (v if k not in ("tabs", "steptabs") else (len(v) if v is not None else "all")) for k, v in c.items()} for c in cases],
    }))


core.main_guard(main)
