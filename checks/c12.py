#!/venv/bin/python
"""C12 - run() postconditions and the posterior()/evidence() contract.

PSRun.tla: Terminate (TM_NearOne, TM_ESS, TM_Evidence) and the Posterior observation clauses
(PO_EqualLen, PO_Rows, PO_LogwRows, PO_Weights, PO_Uniform, PO_BlobsOnlyIfAsked) evaluated by TLC on
recorded runs: after every completed run all 2^4 flag combinations x trimming parameters are called.
"""
import os, sys
sys.path.insert(0, os.path.dirname(os.path.dirname(os.path.abspath(__file__))))
from vlib import core, sysrun, drivers  # noqa: E402

FACTORS = {
    "sample": ["tpcn", "rwm"],
    "resample": ["mult", "syst"],
    "clustering": [True, False],
    "evaluation": ["scalar", "vector", "blobs"],
    "metric": [{}, {"volume_variation": 0.5}],
    "n_total": [{"_nt": 24}, {"_nt": 64}],
}
TRIMS = [(0.99, 1000), (0.9, 10), (0.5, 10)]
FLAGS = [f + t for f in drivers.ALL_FLAGS for t in TRIMS]


def nontrivial(t):
    n = sum(1 for e in t["events"] if e["ev"] == "Posterior")
    done = any(e["ev"] == "Terminate" for e in t["events"])
    return (t["meta"]["label"], t["meta"]["seed"]) if (done and n >= 16) else None


def main():
    ck = core.Check("C12", "model_checking")
    cov = sysrun.model_part(ck, "C12", variants=[], tier=ck.tier)
    limit = 40 if ck.tier == "quick" else None
    jobs = sysrun.product_jobs(FACTORS, {"n_particles": 8}, ck.seed + 12, limit=limit, flags=FLAGS)
    for j in jobs:
        j["n_total"] = j["conf"].pop("_nt", 32)
    if ck.tier == "thorough":
        more = sysrun.product_jobs(FACTORS, {"n_particles": 12, "n_dim": 3, "target": "bimodal"}, ck.seed + 120, limit=96, flags=FLAGS)
        for j in more:
            j["n_total"] = j["conf"].pop("_nt", 32) * 2
        jobs += more
    sc, traces = sysrun.system_part(ck, "C12", jobs, nontrivial)
    cov.update(sc)
    cov.update(sysrun.selftest(traces[0]))
    cov.update({
        "traces_validated_against_impl": sc["system_runs"],
        "evaluations": sc["system_events_validated"],
        "distinct_nontrivial": sc["system_nontrivial"],
        "posterior_calls_validated": sc["system_event_counts"].get("Posterior", 0),
        "rule": "a run is non-trivial when it terminated and all 16 posterior() flag combinations (x 3 trimming parameter pairs) were observed; every Terminate and Posterior event is validated by TLC against the PSRun clauses",
        "exhaustive": False,
    })
    ck.assumptions += ["ESS >= n_total is compared with relative slack 1e-9 (ties at rounding level are not violations)",
                       "evidence() is compared with an independent reference of the MIS formula (validated against MISWeights.tla under C04) at 1e-9"]
    ck.finish(cov)


core.main_guard(main)
