#!/venv/bin/python
"""C12 - run() postconditions and the posterior()/evidence() contract.

PSRun.tla: Terminate (TM_NearOne, TM_ESS, TM_Evidence) and the Posterior observation clauses
(PO_EqualLen, PO_Rows, PO_LogwRows, PO_Weights, PO_Uniform, PO_BlobsOnlyIfAsked) evaluated by TLC on
recorded runs: after every completed run all 2^4 flag combinations x trimming parameters are called.
"""
import os, sys
sys.path.insert(0, os.path.dirname(os.path.dirname(os.path.abspath(__file__))))
sys.path.insert(0, os.path.dirname(os.path.abspath(__file__)))
from vlib import core, sysrun, drivers  # noqa: E402

FACTORS = {
    "sample": ["tpcn", "rwm"],
    "resample": ["mult", "syst"],
    "clustering": [True, False],
    "evaluation": ["scalar", "vector", "blobs"],
    "metric": [{}, {"volume_variation": 0.5}],
    "n_total": [{"_nt": 24}, {"_nt": 64}],
}
TRIMS = [(0.99, 1000), (0.9, 10), (0.5, 10), (0.9995, 2000)]
FLAGS = [f + t for f in drivers.ALL_FLAGS for t in TRIMS]


def nontrivial(t):
    n = sum(1 for e in t["events"] if e["ev"] == "Posterior")
    done = any(e["ev"] == "Terminate" for e in t["events"])
    return (t["meta"]["label"], t["meta"]["seed"]) if (done and n >= 16) else None


def _probe_job(job):
    """Synthetic history for the termination test: a completed run whose current temperature is set back to just
    below 1 (0.99 .. 0.99985), saved, and resumed in a fresh sampler with an n_total it already satisfies.
    run() must not return before the temperature is within 1e-4 of 1 again."""
    core.import_repo()
    import shutil
    import tempfile
    import warnings

    warnings.filterwarnings("ignore")
    import numpy as np
    from vlib import drivers as dr, psrun as ps

    out_dir = tempfile.mkdtemp(prefix="c12probe_")
    try:
        conf = job["conf"]
        rec = ps.Recorder(2, have_blobs=(conf.get("evaluation") == "blobs"), label=job["label"])
        _, s, tr0 = dr.record_run(conf, n_total=40, seed=job["seed"], label=job["label"] + "|base", out_dir=out_dir, rec=rec)
        traces = []
        for b in job["betas"]:
            s.state.set_current("beta", b)
            path = os.path.join(out_dir, f"tampered_{b}.state")
            with ps.hooks_on(rec):
                s.save_state(path)
            s2, _ = dr.build_sampler(conf, rec, out_dir=out_dir)
            rec.attach(s2)
            _, _, tr = dr.record_run(conf, n_total=16, seed=999, label=job["label"] + f"|resume beta={b}", resume=path, out_dir=out_dir, rec=rec, sampler=s2)
            tr["meta"]["probe_beta"] = b
            traces.append(tr)
        return traces
    finally:
        shutil.rmtree(out_dir, ignore_errors=True)


def _ess_probe_job(job):
    """The ESS side of the termination test: a completed run is saved and resumed in a fresh sampler with the smallest n_total its
    history does NOT yet satisfy (floor(ESS) + 1, so ESS is in [n_total - 1, n_total)): run() must go on until ESS >= n_total."""
    core.import_repo()
    import math
    import shutil
    import tempfile
    import warnings

    warnings.filterwarnings("ignore")
    import numpy as np
    from vlib import drivers as dr, psrun as ps

    out_dir = tempfile.mkdtemp(prefix="c12ess_")
    try:
        conf = job["conf"]
        rec = ps.Recorder(2, have_blobs=(conf.get("evaluation") == "blobs"), label=job["label"])
        _, s, tr0 = dr.record_run(conf, n_total=job["n_total"], seed=job["seed"], label=job["label"] + "|base", out_dir=out_dir, rec=rec)
        if tr0 is None or any(e["ev"] == "Raised" for e in tr0["events"]):
            return []
        logw, _ = s.state.compute_logw_and_logz(1.0)
        w = np.exp(logw - np.max(logw))
        E = float(np.sum(w) ** 2 / np.sum(w ** 2))
        path = os.path.join(out_dir, "done.state")
        with ps.hooks_on(rec):
            s.save_state(path)
        s2, _ = dr.build_sampler(conf, rec, out_dir=out_dir)
        rec.attach(s2)
        nt = int(math.floor(E)) + 1
        _, _, tr = dr.record_run(conf, n_total=nt, seed=998, label=job["label"] + f"|resume n_total={nt} (history ESS {E:.3f})", resume=path, out_dir=out_dir, rec=rec, sampler=s2)
        tr["meta"]["probe_ess"] = E
        return [tr]
    finally:
        shutil.rmtree(out_dir, ignore_errors=True)


def _two_samplers_job(job):
    """Several finished samplers alive in ONE process (a user comparing models), two of them with histories of the same length:
    posterior() / evidence() asked of one, then of the other, must each describe THAT sampler's own history (property level:
    weights and log-weights against the independent MIS reference, rows against the stored particles)."""
    core.import_repo()
    import warnings

    warnings.filterwarnings("ignore")
    import numpy as np
    from vlib import drivers as dr, psrun as ps

    live = {}
    pair = None
    for k in range(10):
        np.random.seed(job["seed"] + 17 * k)
        s, _ = dr.build_sampler(dict(job["conf"], shift=float(k)), None)
        try:
            s.run(n_total=job["n_total"], progress=False)
        except Exception:
            continue
        T = len(s.state._history["beta"])
        if T in live:
            pair = (live[T], s)
            break
        live[T] = s
    if pair is None:
        return {"skipped": "no two runs with equally long histories", "bad": []}
    bad = []
    for rnd in range(2):
        for name, smp in zip("AB", pair):
            H = smp.state._history
            ref_logw, ref_logz = ps.ref_logw_logz(H["logl"], H["beta"], H["logz"], 1.0)
            x, w, logl, logw = smp.posterior(resample=False, trim_importance_weights=False, return_logw=True)
            ev = float(smp.evidence()[0])
            flat_x = np.concatenate([np.asarray(b) for b in H["x"]])
            flat_l = np.concatenate([np.asarray(b, dtype=float) for b in H["logl"]])
            lw = np.asarray(logw, dtype=float)
            lw = lw - np.logaddexp.reduce(lw)
            if not (len(x) == len(flat_x) and np.array_equal(np.asarray(x), flat_x) and np.array_equal(np.asarray(logl, dtype=float), flat_l)):
                bad.append(f"sampler {name} (round {rnd}): posterior() rows are not its own stored particles")
            elif not np.allclose(lw, ref_logw, rtol=1e-9, atol=1e-9) or not np.allclose(np.asarray(w), np.exp(ref_logw), rtol=1e-9, atol=1e-12):
                bad.append(f"sampler {name} (round {rnd}): posterior() weights are not the MIS weights of its own history (max log-weight gap {float(np.max(np.abs(lw - ref_logw))):.3g})")
            if not abs(ev - ref_logz) <= 1e-9 * max(1.0, abs(ref_logz)):
                bad.append(f"sampler {name} (round {rnd}): evidence() {ev!r} is not the MIS evidence of its own history {ref_logz!r}")
    return {"skipped": None, "bad": bad, "T": len(pair[0].state._history["beta"])}


def two_samplers_part(ck):
    from vlib import procs

    jobs = [dict(conf=c, seed=1295 + i + 10 * ck.seed, n_total=24) for i, c in enumerate([dict(clustering=False, n_particles=8), dict(clustering=True, sample="rwm", n_particles=8)])]
    res = procs.run(_two_samplers_job, jobs, procs=len(jobs), timeout=600)
    done = 0
    for j, (st, r) in zip(jobs, res):
        if st != "ok":
            raise RuntimeError("two-samplers worker failed: " + str(r)[:400])
        if r["skipped"]:
            continue
        done += 1
        for b in r["bad"][:1]:
            ck.violation("two-samplers:posterior", f"two finished samplers in one process, equally long histories: {b} ({j['conf']}, seed {j['seed']})", {"job": j, "all": r["bad"]})
    return {"two_sampler_processes_checked": done}


def termination_probe(ck):
    from vlib import procs, psrun

    jobs = [dict(conf=c, seed=120 + i + ck.seed, label=f"termprobe#{i}", betas=[0.99, 0.995, 0.9995, 0.99985, 0.99995])
            for i, c in enumerate([dict(clustering=False), dict(clustering=True, sample="rwm"), dict(volume_variation=0.5, clustering=False)])]
    res = procs.run(_probe_job, jobs, procs=len(jobs), timeout=600)
    traces = []
    for st, r in res:
        if st != "ok":
            raise RuntimeError("termination probe worker failed: " + str(r)[:400])
        traces += r
    ejobs = [dict(conf=dict(c, n_particles=8), seed=1290 + i + 50 * ck.seed, label=f"essprobe#{i}", n_total=16 + 3 * i)
             for i, c in enumerate([dict(clustering=False), dict(clustering=True, sample="rwm"), dict(clustering=False, resample="syst"), dict(evaluation="vector"),
                                    dict(clustering=False, target="bimodal"), dict(clustering=False, n_dim=3), dict(sample="rwm", clustering=False), dict(clustering=False, ess_ratio=1.5)])]
    eres = procs.run(_ess_probe_job, ejobs, procs=len(ejobs), timeout=600)
    fracs = []
    for st, r in eres:
        if st != "ok":
            raise RuntimeError("ESS probe worker failed: " + str(r)[:400])
        traces += r
        fracs += [t["meta"]["probe_ess"] % 1.0 for t in r]
    fails, stt = psrun.validate(traces)
    sysrun.attribute(ck, "C12", traces, fails)
    return {"termination_probe_runs": len(traces), "termination_probe_states": stt["states"],
            "ess_probe_histories_with_fractional_part_above_half": sum(1 for f in fracs if f >= 0.5), "ess_probe_histories": len(fracs)}


def main():
    ck = core.Check("C12", "model_checking")
    import c12_posterior

    if ck.args.replay:
        import json as _json

        if _json.load(open(ck.args.replay)).get("key", "").startswith("replay:"):
            sys.exit(c12_posterior.replay_file(ck.args.replay))
        sysrun.replay(ck, "C12", ck.args.replay)
    comp = c12_posterior.component_part(ck)   # Posterior.tla: enumerated posterior() cases replayed into the real Sampler.posterior
    cov = sysrun.model_part(ck, "C12", variants=[], tier=ck.tier)
    cov["states"] += comp["states"]
    cov["transitions"] += comp["transitions"]
    cov.update({k: v for k, v in comp.items() if k.startswith("posterior_")})
    limit = 24 if ck.tier == "quick" else None
    jobs = sysrun.product_jobs(FACTORS, {"n_particles": 8}, ck.seed + 12, limit=limit, flags=FLAGS)
    for k_, j in enumerate(jobs):
        j["n_total"] = j["conf"].pop("_nt", 32)
        if k_ % 3 == 0:
            j["manual_iters"] = 2   # posterior() after the caller kept iterating with sample()
    if ck.tier == "thorough":
        more = sysrun.product_jobs(FACTORS, {"n_particles": 12, "n_dim": 3, "target": "bimodal"}, ck.seed + 120, limit=96, flags=FLAGS)
        for j in more:
            j["n_total"] = j["conf"].pop("_nt", 32) * 2
        jobs += more
    # synthetic histories that end inside the termination window but not at exactly beta = 1 (ESS-limited temperature in (1 - 1e-4, 1))
    for i, c in enumerate([dict(clustering=False), dict(clustering=True, sample="rwm", evaluation="vector")]):
        jobs.append({"conf": dict(c, n_particles=8), "seed": 1250 + i + ck.seed, "label": f"late-crossing#{i}", "n_total": 24, "oracle": "late_crossing", "flags": FLAGS[:4]})
    # run(n_total') called again on the SAME sampler after run() returned (PSRun!RunAgain keeps the history): the postconditions and
    # the posterior() contract hold for the second call too, for a larger and for a smaller n_total
    for i, (c, nt2) in enumerate([(dict(clustering=False), 96), (dict(clustering=True, evaluation="blobs"), 16), (dict(clustering=True, sample="rwm", metric="vv"), 64)]):
        c = {k: v for k, v in c.items() if k != "metric"}
        jobs.append({"conf": dict(c, n_particles=8), "seed": 1270 + i + ck.seed, "label": f"run-again#{i}", "n_total": 32, "rerun": nt2, "flags": FLAGS})
    # a FLAT likelihood (every supported point has the same value: the posterior weights are nearly uniform, ESS ~ N): the
    # resampling / trimming branches a shortcut for "weights already uniform enough" would take
    jobs.append({"conf": dict(clustering=False, n_particles=8, target="tophat"), "seed": 1285 + ck.seed, "label": "flat likelihood (tophat)", "n_total": 32, "flags": FLAGS})
    # a vectorised likelihood returning a single-precision batch: evidence and weights are still computed in double precision
    jobs.append({"conf": dict(clustering=False, n_particles=8, evaluation="vector_f32"), "seed": 1287 + ck.seed, "label": "float32 likelihood batch", "n_total": 32, "flags": FLAGS[:4]})
    # a LONG history (more than 64 iterations, not a multiple of 64): tiny first temperature, many annealing steps
    jobs.append({"conf": dict(clustering=False, n_particles=8, target="needle"), "seed": 1280 + ck.seed, "label": "long-history (needle)", "n_total": 96, "flags": FLAGS[:4]})
    sc, traces = sysrun.system_part(ck, "C12", jobs, nontrivial)
    cov.update(sc)
    cov.update(sysrun.selftest(traces[0]))
    cov.update(termination_probe(ck))
    cov.update(two_samplers_part(ck))
    # the postconditions also hold for resumed runs, including a resume that has nothing left to do (n_total already met)
    from vlib import procs, psrun

    rj = [dict(conf=c, seed=125 + i + 100 * ck.seed, label=f"c12resume#{i}", n_total=72, save_every=1, max_ckpt=2)
          for i, c in enumerate([dict(clustering=False, evaluation="vector"), dict(clustering=True, sample="rwm")])]
    rres = procs.run(sysrun.resume_job, rj, procs=len(rj), timeout=600)
    rtr = []
    for st_, r_ in rres:
        if st_ != "ok":
            raise RuntimeError("resume worker failed: " + str(r_)[:300])
        rtr += r_
    rfails, _rst = psrun.validate(rtr)
    sysrun.attribute(ck, "C12", rtr, rfails)
    cov["resumed_runs_validated"] = sum(1 for t in rtr if t["meta"].get("resumed"))
    cov.update({
        "traces_validated_against_impl": sc["system_runs"] + comp["replays"],
        "evaluations": sc["system_events_validated"] + comp["replays"],
        "distinct_nontrivial": sc["system_nontrivial"] + comp["distinct_nontrivial"],
        "posterior_calls_validated": sc["system_event_counts"].get("Posterior", 0),
        "rule": "a run is non-trivial when it terminated and all 16 posterior() flag combinations (x 3 trimming parameter pairs) were observed; every Terminate and Posterior event is validated by TLC against the PSRun clauses",
        "exhaustive": False,
    })
    ck.assumptions += ["ESS >= n_total is compared with relative slack 1e-9 (ties at rounding level are not violations)",
                       "evidence() is compared with an independent reference of the MIS formula (validated against MISWeights.tla under C04) at 1e-9"]
    ck.finish(cov)


core.main_guard(main)
