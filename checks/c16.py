#!/venv/bin/python
"""C16 - boundary maps fold every real number into the unit interval.

TLC enumerates specs/Fold.tla exhaustively (all lattice vectors, all index-subset assignments,
1-D and 2-row inputs) and checks the property invariants on the specification; every enumerated
state is then replayed into tempest.mcmc.apply_boundary_conditions / check_bounds with exactly
representable doubles and compared with the specification's successor state.  The IEEE-specific part
of the quantifier is decided against the specification's definitions evaluated in exact rational
arithmetic by an oracle that must first reproduce every TLC-enumerated state.
"""
import math
import os
import sys
from fractions import Fraction

sys.path.insert(0, os.path.dirname(os.path.dirname(os.path.abspath(__file__))))
from vlib import core, tlc  # noqa: E402

CFG = """INIT Init
NEXT Next
CONSTANTS
  Ms = {ms}
  Span = {span}
  Dims = {dims}
  MaxRows = 2
  Span2 = {span2}
INVARIANT TypeOK
INVARIANT Untouched
INVARIANT InUnit
INVARIANT Congruent
INVARIANT Idempotent
INVARIANT CodeAgrees
INVARIANT BoundsIff
INVARIANT AllSpecialAccepted
CHECK_DEADLOCK FALSE
"""


# ---- exact oracle: the spec's definitions over Fractions (validated against TLC's states below)
def wrap_exact(x: Fraction) -> Fraction:
    return x - math.floor(x)


def tri_exact(x: Fraction) -> Fraction:
    r = x - 2 * math.floor(x / 2)
    return r if r <= 1 else 2 - r


def fold_exact(kind, x: Fraction) -> Fraction:
    return {"hard": lambda v: v, "periodic": wrap_exact, "reflective": tri_exact}[kind](x)


def main():
    ck = core.Check("C16", "model_checking")
    core.import_repo()
    import numpy as np
    from tempest import mcmc

    if ck.tier == "quick":
        consts = dict(ms="{1, 2, 4}", span=3, dims="{1, 2}", span2=1)
    else:
        consts = dict(ms="{1, 2, 4, 8, 16}", span=4, dims="{1, 2, 3}", span2=2)
    res = tlc.run_tlc("Fold", CFG.format(**consts), dump=True, coverage=True)
    if res.status != "ok":
        ck.violation("spec:" + res.violated, f"TLC: {res.violated} violated on Fold.tla", {"trace": res.error_trace})
        res.cleanup()
        ck.finish({"states": max(res.distinct, 1), "transitions": max(res.generated, 1), "traces_validated_against_impl": 0})

    # unbounded part (Apalache, SMT over all integers k): code-shaped reflection = triangle wave, ranges, idempotence, periodicity
    apa, apa_text = tlc.run_apalache("FoldApa", "Inv", cinit="ConstInit", length=1, timeout=300)
    if apa == "violation":
        ck.violation("spec:FoldApa", "Apalache refutes an unbounded fold identity", {"apalache": apa_text})
    ulp1 = np.finfo(float).eps
    replayed = 0
    nontrivial = set()
    oracle_checked = 0
    for st in res.states():
        if st["pc"] != "checked":
            continue
        M = st["M"]
        kinds = st["kinds"]  # tuple (TLC prints functions on 1..n as sequences)
        d = len(kinds)
        periodic = [i for i in range(d) if kinds[i] == "periodic"]
        reflective = [i for i in range(d) if kinds[i] == "reflective"]
        rows = np.array([[k / M for k in row] for row in st["rows"]], dtype=float)
        want = np.array([[k / M for k in row] for row in st["out"]], dtype=float)
        want_ok = list(st["ok"])
        # oracle validation against the spec
        for r_in, r_out in zip(st["rows"], st["out"]):
            for i in range(d):
                assert fold_exact(kinds[i], Fraction(r_in[i], M)) == Fraction(r_out[i], M), "oracle != spec"
                oracle_checked += 1
        variants = []
        if len(rows) == 1:
            variants.append(("1d", rows[0], want[0], want_ok[0]))
        variants.append(("2d", rows, want, want_ok))
        if rows.ndim == 2 and rows.shape[0] >= 2 and rows.shape[1] >= 2:
            # the same batch in column-major memory layout (what `.T` of a stored array or numpy.asfortranarray gives)
            variants.append(("2d", np.asfortranarray(rows), want, want_ok))
        for shape, arr, w, wok in variants:
            for pa, ra in (
                (periodic or None, reflective or None),
                (np.array(periodic, dtype=int) if periodic else None, np.array(reflective, dtype=int) if reflective else None),
                # the index arguments are SETS of coordinates: repeating an index changes nothing
                ((periodic + periodic[:1]) or None, (tuple(reflective) + tuple(reflective[-1:])) or None),
            ):
                before = arr.copy()
                try:
                    got = mcmc.apply_boundary_conditions(arr, pa, ra)
                    gok = mcmc.check_bounds(got, pa, ra)
                except Exception as ex:  # an exception is an outcome no spec action matches
                    ck.violation("replay:raised", f"apply/check raised {ex!r}", {"state": st})
                    continue
                replayed += 1
                bad = None
                if not np.array_equal(arr, before):
                    bad = "input array modified"
                elif got.shape != w.shape or not np.array_equal(got, w):
                    bad = f"folded value differs: got {got.tolist()} want {w.tolist()}"
                elif shape == "1d" and bool(gok) != bool(wok):
                    bad = f"check_bounds {gok} want {wok}"
                elif shape == "2d" and list(map(bool, np.atleast_1d(gok))) != [bool(x) for x in wok]:
                    bad = f"check_bounds {gok} want {wok}"
                if bad:
                    if ck.violation("replay:lattice", bad, {"state": st, "shape": shape}):
                        pass
            if len(ck.samples) < 3 and (periodic or reflective):
                ck.sample({"M": M, "kinds": list(kinds), "rows": [list(r) for r in st["rows"]], "out": [list(r) for r in st["out"]], "ok": want_ok})
        if any(tuple(a) != tuple(b) for a, b in zip(st["rows"], st["out"])) or not all(want_ok):
            nontrivial.add((M, kinds, st["rows"]))
    res.cleanup()

    # ---- IEEE part: exact oracle vs code on special doubles (scale family of the fold invariance)
    rng = np.random.RandomState(ck.seed + 16)
    specials = [0.0, -0.0, 5e-324, -5e-324, 2.2250738585072014e-308, -2.2250738585072014e-308, 1e-300, -1e-300,
                0.5, 1.0, -1.0, 2.0 ** 52, 2.0 ** 53 - 2, 2.0 ** 53 + 2, -(2.0 ** 53) + 2, 2.0 ** 62, 2.0 ** 63, -(2.0 ** 63),
                2.0 ** 64, -(2.0 ** 64), 1e300, -1e300, 1.7976931348623157e308, -1.7976931348623157e308,
                0.1, -0.1, 0.9999999999999999, 1.0000000000000002, -1e-17, 1 - 1e-17]
    for n in range(1, 65):
        for s in (1.0, -1.0):
            v = s * n
            specials += [v, np.nextafter(v, np.inf), np.nextafter(v, -np.inf), v + s * 0.5, v + s * 0.25]
    nrand = 2000 if ck.tier == "quick" else 100000
    mant = rng.uniform(-1, 1, nrand)
    expo = rng.randint(-60, 70, nrand)
    specials += list(mant * 2.0 ** expo) + list(rng.uniform(-3, 4, nrand))
    # lattice images under period shifts (scale family): k/M + 2^p stays exactly representable
    for p in (20, 40, 52):
        for k in range(0, 9):
            specials += [k / 8 + 2.0 ** p, k / 8 - 2.0 ** p]
    ieee = 0
    for x in specials:
        x = float(x)
        fx = Fraction(x)
        for kind, pa, ra in (("periodic", [0], None), ("reflective", None, [0]), ("hard", None, None)):
            arr = np.array([x, 0.25])
            try:
                got = mcmc.apply_boundary_conditions(arr, pa, ra)
                got2 = mcmc.apply_boundary_conditions(got, pa, ra)
                gok = bool(mcmc.check_bounds(got, pa, ra))
            except Exception as ex:
                ck.violation("ieee:raised", f"{kind} fold of {x!r} raised {ex!r}", {"x": x, "kind": kind})
                continue
            ieee += 1
            g = float(got[0])
            want = fold_exact(kind, fx)
            bad = None
            if got[1] != 0.25:
                bad = "non-designated coordinate changed"
            elif kind == "hard":
                if g != x and not (x == 0 and g == 0):
                    bad = f"hard coordinate changed {x!r}->{g!r}"
                elif gok != (0 <= x <= 1):
                    bad = f"check_bounds({x!r})={gok}"
            else:
                if not (0.0 <= g <= 1.0) or math.isnan(g):
                    bad = f"{kind} fold of {x!r} = {g!r} outside [0,1]"
                else:
                    err = abs(Fraction(g) - want)
                    if kind == "periodic":
                        err = min(err, abs(Fraction(g) - want - 1), abs(Fraction(g) - want + 1))  # 0 == 1
                    if err > Fraction(ulp1):
                        bad = f"{kind} fold of {x!r} = {g!r}, exact {float(want)!r} (err {float(err):.3g} > 1 ulp(1))"
                    else:
                        # idempotence (periodic end points identified)
                        g2 = float(got2[0])
                        e2 = abs(g2 - g)
                        if kind == "periodic":
                            e2 = min(e2, abs(e2 - 1))
                        if e2 > ulp1:
                            bad = f"{kind} fold not idempotent at {x!r}: {g!r} -> {g2!r}"
                    if not gok:
                        bad = bad or "check_bounds rejected a folded designated coordinate"
            if bad:
                key = "ieee:" + kind + (":int64-overflow" if abs(x) >= 2.0 ** 63 else "")
                ck.violation(key, bad, {"x": x, "hex": x.hex(), "kind": kind})
    ck.sample({"ieee_inputs": [float(s).hex() for s in specials[:6]]})
    # ---- system layer: the configured boundary designation is what reaches the kernel (PSRun clause MB_Boundaries)
    from vlib import sysrun

    factors = {"bounds": [{"periodic": [0]}, {"reflective": [1]}, {"periodic": [1], "reflective": [0]}, {"periodic": [0, 1]}], "sample": ["tpcn", "rwm"]}
    jobs = sysrun.product_jobs(factors, {"n_particles": 8, "clustering": False}, ck.seed + 16, n_total=24)
    sc, _tr = sysrun.system_part(ck, "C16", jobs, lambda t: (t["meta"]["label"], t["meta"]["seed"]) if any(e["ev"] == "MutateBegin" for e in t["events"]) else None)
    # ---- the kernels fold with THE map: what a runner proposes for a designated coordinate is the specified fold of the raw
    # proposal, also far outside the cube (several box lengths beyond a wall).  Raw proposal = u + sigma * L z with scripted z.
    runner_cases = 0
    runner_skipped = 0
    import tempest.modes as _modes

    real_randn = np.random.randn
    for cls_name in ("RWMRunner", "TPCNRunner"):
        cls = getattr(mcmc, cls_name, None)
        if cls is None or cls_name == "TPCNRunner":
            continue   # tpCN's raw proposal involves a gamma draw: covered by C03's scripted replays on folded coordinates
        for per, refl in (([0], [1]), ([1], [0]), ([0, 1], None), (None, [0, 1])):
            for zs in ([3.75, -5.25], [-2.5, 2.25], [17.0, -40.5], [0.125, 1.5]):
                u0 = np.array([[0.5, 0.25]])
                try:
                    ms = _modes.ModeStatistics(means=np.array([[0.5, 0.5]]), covariances=np.array([np.eye(2)]), degrees_of_freedom=np.array([1e6]))
                    r = cls(u=u0, x=u0.copy(), logl=np.zeros(1), blobs=None, assignments=np.zeros(1, dtype=int), beta=1.0, mode_stats=ms,
                            log_likelihood=lambda X: (np.zeros(len(X)), None), prior_transform=lambda v: v, n_steps=1, n_max=1,
                            periodic=(np.array(per) if per else None), reflective=(np.array(refl) if refl else None), verbose=False)
                    r.sigmas = np.ones_like(np.asarray(r.sigmas, dtype=float))
                    np.random.randn = lambda *a, _z=zs: np.array(_z, dtype=float)
                    try:
                        got = np.asarray(r._propose(0), dtype=float)
                    finally:
                        np.random.randn = real_randn
                except Exception:
                    runner_skipped += 1   # the runner cannot be built / driven this way in this organisation of the code: no verdict
                    continue
                raw = u0[0] + np.asarray(zs)
                want_r = np.array([float(fold_exact("periodic" if (per and j in per) else "reflective" if (refl and j in refl) else "hard", Fraction(float(raw[j])))) for j in range(2)])
                runner_cases += 1
                if got.shape != (2,) or not np.allclose(got, want_r, rtol=0, atol=1e-12):
                    ck.violation("runner:fold", f"{cls_name}._propose with periodic={per} reflective={refl}: raw proposal {raw.tolist()} became {got.tolist()}, the specified fold gives {want_r.tolist()}",
                                 {"runner": cls_name, "periodic": per, "reflective": refl, "z": zs})
    ck.assumptions += [
        "numpy float64 arithmetic is IEEE-754 (floor, fmod and subtraction correctly rounded)",
        "lattice replays use dyadic M so k/M is exact in binary floating point",
    ]
    ck.finish({
        "states": res.distinct,
        "transitions": res.generated,
        "traces_validated_against_impl": replayed,
        "evaluations": replayed + ieee,
        "distinct_nontrivial": len(nontrivial),
        "rule": "TLC enumerates every (M, kinds, rows) of Fold.tla; non-trivial = the fold changes a coordinate or the bounds check rejects; each state replayed as 1-D and 2-D, list and ndarray index arguments",
        "exhaustive": True,
        "oracle_points_validated_against_spec": oracle_checked,
        "ieee_cases": ieee,
        "runner_level_fold_cases": runner_cases, "runner_level_fold_cases_not_drivable": runner_skipped,
        "apalache_unbounded_fold_identities": apa,
        "system_runs": sc["system_runs"], "system_events_validated": sc["system_events_validated"],
        "tlc_coverage": {k: list(v) for k, v in res.coverage.items()},
        "constants": consts,
    })


core.main_guard(main)
