#!/venv/bin/python
"""C08 - checkpoints restore exactly, resume continues the run, saves are crash-safe.

Checkpoint.tla: the save as a sequence of IO steps with Crash enabled everywhere; TLC checks
NeverTruncated / KeepsComplete / OldOrNew for the atomic protocol and refutes the in-place protocol.
Binding B (fault enumeration driven by the model): every crash point the spec enumerates - each IO call
boundary and byte offsets of the pickle stream - is injected into the real save_state(); afterwards the
final name must be absent, or loadable and equal to the old or the new snapshot.  The IO call sequence of
an uncrashed save is checked against the atomic protocol's action order.
Binding A: runs with save_every over configurations {clustering, blobs, pool, kernel, cadence}; every
checkpoint k is loaded into a freshly constructed sampler (Load event: restored == saved on every component)
and resumed to completion; the resumed trace is validated by TLC against PSRunTrace.tla (iteration
numbering, call counting, schedule, history prefix, run postconditions).
"""
import builtins
import glob
import os
import shutil
import sys
import tempfile

sys.path.insert(0, os.path.dirname(os.path.dirname(os.path.abspath(__file__))))
from vlib import core, psrun, sysrun, tlc  # noqa: E402

CK_CFG = ('INIT Init\nNEXT Next\nCONSTANTS\n Chunks = {chunks}\n MaxSnap = 3\n Protocol = "{proto}"\n'
          'INVARIANT NeverTruncated\nPROPERTY KeepsComplete\nPROPERTY OldOrNew\nPROPERTY OnlyByRename\n{extra}CHECK_DEADLOCK FALSE\n')


class _Crash(BaseException):
    """process death at an IO boundary (BaseException: not swallowed by `except Exception`)"""


class IOTap:
    """Intercepts the IO calls of a save below `root`: open (write modes), write, flush, fsync, close,
    rename/replace.  Records the op sequence; optionally dies at (op index) or after N written bytes."""

    def __init__(self, root, crash_op=None, crash_byte=None):
        self.root = os.path.realpath(root)
        self.ops = []
        self.crash_op = crash_op
        self.crash_byte = crash_byte
        self.written = 0
        self.fd_names = {}

    def _op(self, opname, **kw):
        idx = len(self.ops)
        self.ops.append(dict(op=opname, **kw))
        if self.crash_op is not None and idx == self.crash_op:
            raise _Crash(f"before op {idx} {opname}")

    def __enter__(self):
        self._open, self._replace, self._rename, self._fsync = builtins.open, os.replace, os.rename, os.fsync
        tap = self

        class Proxy:
            def __init__(self, f, name):
                self._f, self._name = f, name

            def write(self, b):
                b = bytes(b)
                tap._op("write", name=os.path.basename(self._name), n=len(b))
                if tap.crash_byte is not None and tap.written + len(b) > tap.crash_byte:
                    k = tap.crash_byte - tap.written
                    self._f.write(b[:k])
                    tap.written += k
                    raise _Crash(f"after byte {tap.crash_byte}")
                tap.written += len(b)
                return self._f.write(b)

            def flush(self):
                tap._op("flush", name=os.path.basename(self._name))
                return self._f.flush()

            def fileno(self):
                fd = self._f.fileno()
                tap.fd_names[fd] = self._name
                return fd

            def close(self):
                if not self._f.closed:
                    tap.ops.append(dict(op="close", name=os.path.basename(self._name)))
                return self._f.close()

            def __enter__(self):
                return self

            def __exit__(self, *a):
                self.close()
                return False

            def __getattr__(self, k):
                return getattr(self._f, k)

        def open_(file, mode="r", *a, **k):
            p = os.path.realpath(str(file)) if isinstance(file, (str, os.PathLike)) else None
            if p and p.startswith(tap.root) and any(c in mode for c in "wax+"):
                tap._op("open", name=os.path.basename(p), mode=mode)
                return Proxy(tap._open(file, mode, buffering=0), p)  # unbuffered: written bytes reach the OS
            return tap._open(file, mode, *a, **k)

        def replace_(src, dst, *a, **k):
            tap._op("replace", src=os.path.basename(str(src)), dst=os.path.basename(str(dst)),
                    same_dir=os.path.realpath(os.path.dirname(str(src))).startswith(os.path.realpath(os.path.dirname(str(dst)))))
            return tap._replace(src, dst, *a, **k)

        def rename_(src, dst, *a, **k):
            tap._op("rename", src=os.path.basename(str(src)), dst=os.path.basename(str(dst)),
                    same_dir=os.path.realpath(os.path.dirname(str(src))).startswith(os.path.realpath(os.path.dirname(str(dst)))))
            return tap._rename(src, dst, *a, **k)

        def fsync_(fd):
            tap._op("fsync", name=os.path.basename(tap.fd_names.get(fd, "?")))
            return tap._fsync(fd)

        def fdopen_(fd, mode="r", *a, **k):
            # temporary files created with mkstemp / os.open are wrapped too (path from /proc)
            if any(c in mode for c in "wax+"):
                try:
                    p = os.readlink(f"/proc/self/fd/{fd}")
                except OSError:
                    p = f"<fd {fd}>"
                tap._op("open", name=os.path.basename(p), mode=mode, dir=os.path.dirname(p))
                kk = dict(k)
                kk["buffering"] = 0
                return Proxy(tap._fdopen(fd, mode, **kk), p)
            return tap._fdopen(fd, mode, *a, **k)

        self._fdopen = os.fdopen
        os.fdopen = fdopen_
        builtins.open, os.replace, os.rename, os.fsync = open_, replace_, rename_, fsync_
        return self

    def __exit__(self, *exc):
        builtins.open, os.replace, os.rename, os.fsync = self._open, self._replace, self._rename, self._fsync
        os.fdopen = self._fdopen
        return False


def file_snapshot(path):
    """Load a checkpoint file; returns a digest of (_current, _history) or raises."""
    import dill
    import numpy as np

    with open(path, "rb") as f:
        d = dill.load(f)
    cur, hist = d["_current"], d["_history"]
    return psrun.digest(*[np.asarray(cur[k]) if cur[k] is not None else None for k in sorted(cur)],
                        *[np.asarray(b) for k in sorted(hist) for b in hist[k]]).hex()


def mem_snapshot(s):
    import numpy as np

    cur, hist = s.state._current, s.state._history
    return psrun.digest(*[np.asarray(cur[k]) if cur[k] is not None else None for k in sorted(cur)],
                        *[np.asarray(b) for k in sorted(hist) for b in hist[k]]).hex()


def protocol_ok(ops, final):
    """What the atomic protocol of Checkpoint.tla requires of the observed IO calls of an uncrashed save, stated at the
    level the property needs (process death, not power loss - fsync is therefore not demanded):
    the final name is never opened for writing; it changes only by ONE rename/replace whose source lies in the same
    directory tree as the final name (a rename is atomic only within one filesystem; a temporary file elsewhere makes
    it a copy that truncates the old checkpoint); everything written to the source is flushed or the file closed
    BEFORE that rename."""
    if any(o["op"] == "open" and o["name"] == final for o in ops):
        return "final name opened for writing (in-place protocol)"
    moves = [i for i, o in enumerate(ops) if o["op"] in ("rename", "replace") and o.get("dst") == final]
    if len(moves) != 1:
        return f"{len(moves)} renames onto the final name (expected exactly one)"
    mv = ops[moves[0]]
    if not mv.get("same_dir", True):
        return f"temporary file {mv['src']} is not in the checkpoint's directory: the rename is not atomic across filesystems"
    src = mv["src"]
    opened = [i for i, o in enumerate(ops) if o["op"] == "open" and o["name"] == src]
    if opened:
        writes = [i for i, o in enumerate(ops) if o["op"] == "write" and o["name"] == src]
        settle = [i for i, o in enumerate(ops) if o["op"] in ("flush", "close") and o.get("name") == src]
        if not writes:
            return "nothing written to the temporary file"
        if any(i > moves[0] for i in writes):
            return "data written to the temporary file after it was renamed onto the final name"
        if not any(max(writes) < i < moves[0] for i in settle):
            return "temporary file neither flushed nor closed between the last write and the rename"
    return None


def fault_part(ck):
    import numpy as np
    from vlib import drivers

    root = tempfile.mkdtemp(prefix="c08_")
    covered = 0
    distinct = set()
    try:
        for ci, conf in enumerate([dict(clustering=False, n_particles=8), dict(clustering=True, evaluation="blobs", n_particles=8, pool="perm")]):
            d = os.path.join(root, f"cfg{ci}")
            os.makedirs(d)
            np.random.seed(800 + ci + ck.seed)
            s, _ = drivers.build_sampler(conf, None, out_dir=d)
            s.run(n_total=24, progress=False)
            final = os.path.join(d, "ckpt.state")
            try:
                s.save_state(final)  # old snapshot
            except Exception as ex:
                ck.violation("save:raised", f"save_state raised {ex!r} in configuration {conf}", {"conf": repr(conf)})
                continue
            # "saving works": a path whose parent directories do not exist yet (the library creates them), and the written file is
            # plain data - it loads in another program that cannot import the module the user's model lives in
            nested = os.path.join(d, "results", "run7", "states", "nested.state")
            try:
                s.save_state(nested)
            except Exception as ex:
                ck.violation("save:nested-directory", f"save_state to a path whose parent directories do not exist raised {ex!r}", {"conf": repr(conf)})
            import subprocess

            pr = subprocess.run(["/venv/bin/python", "-c", "import sys, dill\nwith open(sys.argv[1], 'rb') as f:\n    d = dill.load(f)\nprint(type(d).__name__)", final],
                                cwd="/", env={"PATH": os.environ.get("PATH", ""), "PYTHONPATH": core.REPO, "PYTHONDONTWRITEBYTECODE": "1"}, capture_output=True, text=True, timeout=120)
            if pr.returncode != 0:
                ck.violation("save:needs-user-modules", "the checkpoint cannot be unpickled in a program that does not have the user's model module (the harness' own "
                             f"drivers) on its path: {pr.stderr.strip().splitlines()[-1] if pr.stderr.strip() else pr.returncode}", {"conf": repr(conf)})
            old_file = file_snapshot(final)
            old_copy = os.path.join(root, f"old{ci}.bin")
            shutil.copyfile(final, old_copy)
            old_mem = None
            s.sample()  # state moves on
            new_mem = mem_snapshot(s)
            # uncrashed save on a scratch name: learn the op sequence, total bytes, and check the protocol
            probe = os.path.join(d, "probe.state")
            with IOTap(d) as tap:
                s.save_state(probe)
            why = protocol_ok(tap.ops, "probe.state")
            if why:
                ck.violation("save:protocol", f"uncrashed save does not follow the atomic protocol: {why}", {"ops": tap.ops[:3] + tap.ops[-6:], "conf": repr(conf)})
            new_file = file_snapshot(probe)
            n_ops, n_bytes = len(tap.ops), tap.written
            ck.sample({"conf": repr(conf), "io_ops": [o["op"] for o in tap.ops if o["op"] != "write"], "writes": sum(1 for o in tap.ops if o["op"] == "write"), "bytes": n_bytes})
            # crash points: every op boundary that is not a write (+ a sample of write boundaries) and byte offsets
            op_points = [i for i, o in enumerate(tap.ops) if o["op"] != "write"] + [n_ops]
            rng = np.random.RandomState(ck.seed + 8)
            if ck.tier == "quick":
                byte_points = sorted(set([0, 1, 2, n_bytes // 2, n_bytes - 2, n_bytes - 1] + list(rng.randint(0, n_bytes, 58))))
            else:
                step = max(1, n_bytes // 4000)
                byte_points = list(range(0, n_bytes, step)) + [n_bytes - 1]
            points = [("op", i) for i in op_points] + [("byte", b) for b in byte_points]
            after_crash_saves = 0
            for kind, v in points:
                # restore the old checkpoint under the final name, then crash during the new save
                shutil.copyfile(old_copy, final)
                for leftover in set(glob.glob(final + "*tmp*") + glob.glob(os.path.join(d, "*.tmp")) + glob.glob(os.path.join(d, "*.temp"))):
                    os.remove(leftover)
                crashed = False
                try:
                    with IOTap(d, crash_op=v if kind == "op" else None, crash_byte=v if kind == "byte" else None):
                        s.save_state(final)
                except _Crash:
                    crashed = True
                covered += 1
                distinct.add((ci, kind, v))
                if not os.path.exists(final):
                    ck.violation("crash:final-lost", f"a crash at {kind} {v} removed the existing checkpoint under the final name", {"conf": repr(conf), "point": [kind, v]})
                    continue
                try:
                    got = file_snapshot(final)
                except BaseException as ex:
                    ck.violation("crash:truncated", f"a crash at {kind} {v} of the save left an unloadable file under the final name ({type(ex).__name__})",
                                 {"conf": repr(conf), "point": [kind, v], "size": os.path.getsize(final), "full_size": n_bytes})
                    continue
                if got not in (old_file, new_file):
                    ck.violation("crash:mixture", f"after a crash at {kind} {v} the final name holds neither the old nor the new snapshot", {"conf": repr(conf), "point": [kind, v]})
                if not crashed and got != new_file:
                    ck.violation("save:not-new", f"an uncrashed save ({kind} {v} beyond the end) did not install the new snapshot", {"conf": repr(conf), "point": [kind, v]})
                if crashed and covered % 7 == 0:
                    # the process restarts and saves again into the same directory, with whatever the crashed save left behind:
                    # "saving works" also then
                    try:
                        s.save_state(final)
                        if file_snapshot(final) != new_file:
                            ck.violation("save:after-crash-not-new", f"the save following a crash at {kind} {v} did not install the new snapshot", {"conf": repr(conf), "point": [kind, v]})
                    except Exception as ex:
                        ck.violation("save:after-crash-raised", f"the save following a crash at {kind} {v} (left-overs of the crashed save still present) raised {ex!r}",
                                     {"conf": repr(conf), "point": [kind, v]})
                    after_crash_saves += 1
            # a crash must also never break a FIRST save (no previous file): final absent or complete
            first = os.path.join(d, "first.state")
            for kind, v in points[:: max(1, len(points) // 25)]:
                if os.path.exists(first):
                    os.remove(first)
                try:
                    with IOTap(d, crash_op=v if kind == "op" else None, crash_byte=v if kind == "byte" else None):
                        s.save_state(first)
                except _Crash:
                    pass
                except Exception as ex:
                    ck.violation("save:after-crash-raised", f"a first save at {kind} {v} following an earlier crashed save raised {ex!r}", {"conf": repr(conf), "point": [kind, v]})
                    break
                covered += 1
                if os.path.exists(first):
                    try:
                        if file_snapshot(first) != new_file:
                            ck.violation("crash:mixture", f"first save crashed at {kind} {v}: final name holds a wrong snapshot", {"point": [kind, v]})
                    except BaseException as ex:
                        ck.violation("crash:truncated", f"first save crashed at {kind} {v}: unloadable file under the final name ({type(ex).__name__})",
                                     {"conf": repr(conf), "point": [kind, v]})
    finally:
        shutil.rmtree(root, ignore_errors=True)
    return {"crash_points_injected": covered, "crash_points_distinct": len(distinct)}


def resume_part(ck):
    import concurrent.futures as cf
    import multiprocessing as mp

    confs = [
        dict(clustering=False, random_state=5), dict(clustering=True), dict(clustering=True, cluster_every=3, random_state=0), dict(evaluation="blobs"),
        dict(pool="perm"), dict(pool="executor", clustering=False), dict(pool=1, sample="rwm"), dict(evaluation="vector", resample="syst", random_state=2 ** 32 - 1), dict(volume_variation=0.5, clustering=False),
        dict(sample="rwm", n_dim=3, n_particles=9, clustering=False),            # odd number of normals per sweep: a cached Gaussian in the stream
        dict(clustering=True, target="narrow", n_particles=32),                  # several cluster labels alive at the checkpoints
    ]
    if ck.tier == "thorough":
        confs += [dict(clustering=True, cluster_every=5, n_max_clusters=2, target="bimodal", n_particles=16), dict(pool=2), dict(reflective=[0], periodic=[1]),
                  dict(support=0.5, ess_ratio=3.0, n_particles=16)]
    jobs = [dict(conf=c, seed=80 + i + 100 * ck.seed, label=f"c08#{i}", n_total=32 if i % 3 else 80, save_every=1 if i % 2 == 0 else 2,
                 max_ckpt=4 if ck.tier == "quick" else None) for i, c in enumerate(confs)]
    for j in jobs:
        if j["conf"].get("n_dim") == 3:   # the stream holds a cached Gaussian only at some checkpoints: load every one of them
            j.update(max_ckpt=None, vary_n_total=False, save_every=1)
    results = [None] * len(jobs)
    with cf.ProcessPoolExecutor(max_workers=sysrun.PROCS, mp_context=mp.get_context("fork")) as ex:
        futs = {ex.submit(sysrun.resume_job, j): i for i, j in enumerate(jobs)}
        for fu in cf.as_completed(futs):
            results[futs[fu]] = fu.result()
    traces = [t for r in results for t in r]
    for t, j in ((t, jobs[i]) for i, r in enumerate(results) for t in r):
        if isinstance(j["conf"].get("pool"), int) and j["conf"]["pool"] > 1:
            t["meta"]["untracked"] = True
    fails, st = psrun.validate(traces)
    cnt = sysrun.attribute(ck, "C08", traces, fails)
    resumed = [t for t in traces if t["meta"].get("resumed")]
    loads = sum(1 for t in resumed for e in t["events"] if e["ev"] == "Load")
    saves = sum(1 for t in traces for e in t["events"] if e["ev"] == "SaveEnd")
    if resumed:
        t = resumed[0]
        ck.sample({"label": t["meta"]["label"], "first_events": [{k: v for k, v in e.items() if k != "hist"} for e in t["events"][:3]]})
    out = {"resume_base_runs": len(jobs), "resumed_runs": len(resumed), "load_events": loads, "save_events": saves,
           "resume_events_validated": sum(len(t["events"]) for t in traces), "resume_trace_states": st["states"]}
    out.update({"resume_" + k: v for k, v in cnt.items()})
    if loads != len(resumed) or not resumed:
        raise tlc.TLCFailure(f"vacuous: {loads} Load events for {len(resumed)} resumed runs")
    return out


def main():
    ck = core.Check("C08", "fault_enumeration")
    if ck.args.replay:
        from vlib import sysrun as _sr

        _sr.replay(ck, "C08", ck.args.replay)
    core.import_repo()
    import warnings

    warnings.filterwarnings("ignore")
    states = trans = 0
    for proto, extra, want in (("atomic", "", "ok"), ("inplace", "", "violation"), ("atomic", "INVARIANT NeverSecondCheckpoint\n", "violation")):
        r = tlc.run_tlc("Checkpoint", CK_CFG.format(chunks=3 if ck.tier == "quick" else 4, proto=proto, extra=extra), coverage=(want == "ok"))
        if proto == "atomic" and extra == "":
            if r.status != "ok":
                ck.violation("spec:Checkpoint:" + r.violated, "atomic save protocol violates " + r.violated, {"trace": r.error_trace})
            for a in ("Open", "Write", "AutoFlush", "Flush", "Fsync", "Close", "Rename", "Crash", "Restart"):
                if r.coverage.get(a, (0, 0))[1] == 0:
                    raise tlc.TLCFailure("Checkpoint: action never taken: " + a)
            states, trans = r.distinct, r.generated
        elif r.status != want:
            raise tlc.TLCFailure(f"Checkpoint {proto} {extra}: expected {want}, got {r.status}")
        r.cleanup()
    cov = {"states": states, "transitions": trans}
    # system model with atomic saves, process death and resume in a fresh process (MC_PSRun: ResumeExact, OneBatchPerIteration,
    # CallsExact, HistBetaMonotone keep holding across a resume; the `loadnothing` variant must be refuted)
    mc = sysrun.model_part(ck, "C08", variants=["loadnothing"], tier=ck.tier, crashes=1, maxiter=2 if ck.tier == "quick" else 3,
                           configs=[dict(clustering="TRUE", every=2, metric="ess", cap=0)] if ck.tier == "quick" else [dict(clustering="FALSE", every=1, metric="ess", cap=0)])
    cov["states"] += mc.pop("states")
    cov["transitions"] += mc.pop("transitions")
    cov.update(mc)
    cov.update(fault_part(ck))
    cov.update(resume_part(ck))
    cov.update({
        "evaluations": cov["crash_points_injected"] + cov["resume_events_validated"],
        "distinct_nontrivial": cov["crash_points_distinct"] + cov["resumed_runs"],
        "rule": "crash points: every IO call boundary of the real save (open, flush, fsync, close, rename, end) plus byte offsets of the pickle stream (quick: 64 seeded offsets; thorough: a fine grid), each with an existing old checkpoint under the final name, and a subset as first save; resume: every (or up to 4 per run in quick) checkpoint index of runs over the configuration list, each loaded into a fresh sampler and resumed to completion with the whole trace validated by TLC",
        "traces_validated_against_impl": cov["resumed_runs"] + cov["resume_base_runs"],
    })
    ck.assumptions += ["process death is simulated in-process by a BaseException raised from the intercepted IO call (written bytes are kept: files are opened unbuffered by the tap); power loss is out of scope",
                       "the temporary file left behind by a crashed save is not inspected (only the final name is the checkpoint)"]
    ck.finish(cov)


core.main_guard(main)
