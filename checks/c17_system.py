"""C17 system layer (binding A): real runs whose caller overwrites, between iterations, every array returned by
the public accessors (Sampler.sample-style state dictionary, results(), posterior(), state.to_dict(), the
getters); PSRunTrace.tla checks the append-only clauses (CM_Append, CM_OnePerKey, CM_PrefixSame) at every
commit, and Pair.tla validates the scribbled run against an unscribbled twin under the same seed."""
import os
import sys

sys.path.insert(0, os.path.dirname(os.path.dirname(os.path.abspath(__file__))))
from vlib import core, pairs, psrun, sysrun  # noqa: E402


def _scribble(obj, np, seen):
    """Overwrite every ndarray reachable from a returned object (dict / list / tuple / array)."""
    n = 0
    if isinstance(obj, np.ndarray):
        if id(obj) not in seen and obj.size and obj.flags.writeable:
            seen.add(id(obj))
            try:
                obj[...] = -777.25 if obj.dtype.kind == "f" else (0 if obj.dtype.kind in "iub" else obj)
                n += 1
            except Exception:
                pass
    elif isinstance(obj, dict):
        for v in list(obj.values()):
            n += _scribble(v, np, seen)
        try:
            obj["__scribble__"] = 1
        except Exception:
            pass
    elif isinstance(obj, (list, tuple)):
        for v in obj:
            n += _scribble(v, np, seen)
        if isinstance(obj, list):
            obj.append("scribble")
    return n


def _twin_job(job):
    core.import_repo()
    import warnings

    warnings.filterwarnings("ignore")
    import numpy as np
    from tempest import _verif
    from vlib import drivers

    conf, scribble = job["conf"], job["scribble"]
    have_blobs = dict(drivers.DEFAULTS, **conf)["evaluation"] == "blobs"
    rec = psrun.Recorder(dict(drivers.DEFAULTS, **conf)["n_dim"], have_blobs=have_blobs, label=job["label"])
    np.random.seed(job["seed"])
    s, c = drivers.build_sampler(conf, rec)
    rec.attach(s)
    counts = {"scribbled_arrays": 0, "accessor_calls": 0}

    def caller(event, refs):
        rec.sink(event, refs)
        if scribble and event == "committed":
            st = s.state
            rng_state = np.random.get_state()
            got = [st.get_current(), st.get_current("u"), st.get_current("logl"), st.to_dict(), s.results(), st.compute_results()]
            for k in ("u", "x", "logl", "beta", "logz"):
                got += [st.get_history(k), st.get_last_history(k)]
                if k in ("u", "x", "logl"):
                    got += [st.get_history(k, flat=True), st.get_history(k, index=0)]
            try:
                got.append(s.posterior(resample=False, return_logw=True, return_blobs=True))
                got.append(s.posterior(trim_importance_weights=False))
            except Exception:
                pass
            got.append(st.compute_logw_and_logz(1.0))
            np.random.set_state(rng_state)
            counts["accessor_calls"] += len(got)
            pre = rec.snapshot(st)
            seen = set()
            for g in got:
                counts["scribbled_arrays"] += _scribble(g, np, seen)
            post = rec.snapshot(st)
            rec._emit("Accessor", name="getters/to_dict/results/posterior", stable=bool(pre == post))

    hk = psrun.hooks_on(rec)
    with hk:
        _verif.set_sink(caller)
        try:
            s.run(n_total=job["n_total"], progress=False)
            # the caller keeps stepping with the public sample(): its return value is handed to the user too
            for _ in range(2):
                _verif.set_sink(rec.sink)          # no scribbling from inside the iteration itself here
                ret = s.sample()
                _verif.set_sink(caller)
                if scribble:
                    pre = rec.snapshot(s.state)
                    counts["scribbled_arrays"] += _scribble(ret, np, set())
                    counts["accessor_calls"] += 1
                    post = rec.snapshot(s.state)
                    rec._emit("Accessor", name="Sampler.sample()", stable=bool(pre == post))
        except Exception as ex:
            rec.raised(ex)
    tr = rec.end_run()
    tr["meta"]["conf"] = {k: (v if isinstance(v, (int, float, str, bool, type(None), list)) else repr(v)) for k, v in c.items()}
    tr["meta"]["seed"] = job["seed"]
    tr["meta"]["scribble"] = scribble
    try:
        summ = pairs.summarize(s)
        broken = None
    except Exception as ex:   # the stored history itself is no longer readable (e.g. the caller's scribbles ended up inside it)
        summ = {"iters": [], "weights": [], "evidence": float("nan")}
        broken = repr(ex)
    return {"trace": tr, "summary": dict(summ, job=job, raised=None), "counts": counts, "history_unreadable": broken}


def _failed_iteration_job(job):
    """The user's likelihood raises ONCE part-way through an iteration of a sampler stepped with the public sample(); the caller catches
    the error (whatever type it surfaces as) and keeps stepping.  The iteration that failed appends nothing: afterwards every recorded
    quantity holds exactly the batches of the iterations that completed, and every later iteration that completes appends one batch as
    usual (a library that refuses to go on after the failure is fine: nothing is appended then either)."""
    core.import_repo()
    import warnings

    warnings.filterwarnings("ignore")
    import numpy as np
    from tempest import Sampler
    from vlib import drivers

    tgt = drivers.Target(2)
    state = {"n": 0, "armed": True}

    def ll(x):
        state["n"] += 1
        if state["armed"] and state["n"] == job["fail_at"]:
            state["armed"] = False
            raise FloatingPointError("user likelihood failed (injected by the harness)")
        return tgt._logl_point(x)

    np.random.seed(job["seed"])
    s = Sampler(prior_transform=tgt.prior_transform, log_likelihood=ll, n_dim=2, n_particles=8, clustering=False, sample=job["kernel"])
    s.state.update_current({"iter": 0, "calls": 0, "beta": 0.0, "logz": 0.0})   # what run() sets before its first iteration
    lens = []
    failed_at = None
    for k in range(40):
        H = s.state._history
        before = {kk: len(v) for kk, v in H.items()}
        was_armed = state["armed"]
        try:
            s.sample()
        except Exception as ex:
            fired_now = was_armed and not state["armed"]
            if fired_now:
                failed_at = k
            after = {kk: len(v) for kk, v in s.state._history.items()}
            if after != before:
                what = "in which the user's likelihood raised" if fired_now else f"that raised {type(ex).__name__} after the failed iteration {failed_at}"
                return {"job": job, "bad": f"the iteration {what} changed the history lengths: {[(kk, before[kk], after.get(kk)) for kk in before if before[kk] != after.get(kk)]}"}
            if fired_now:
                continue
            break   # the library does not go on after the failure (or failed for a reason of its own): nothing more to observe
        after = {kk: len(v) for kk, v in s.state._history.items()}
        grown = {kk: after[kk] - before[kk] for kk in after}
        if any(g not in (0, 1) for g in grown.values()) or grown.get("beta") != 1 or grown.get("u") != 1 or grown.get("logl") != 1:
            return {"job": job, "bad": f"iteration {k} (after a failed iteration at {failed_at}) appended {grown}"}
        if s.state.get_current("beta") == 1.0 and failed_at is not None and k > failed_at + 2:
            break
    return {"job": job, "bad": None, "failed_at": failed_at}


def system_part(ck):
    import concurrent.futures as cf
    import multiprocessing as mp

    confs = [dict(clustering=False), dict(clustering=True), dict(evaluation="blobs"), dict(evaluation="vector", sample="rwm", resample="syst"),
             dict(volume_variation=0.5), dict(evaluation="vector_reuse"), dict(clustering=True, cluster_every=2, target="bimodal", n_particles=16)]
    if ck.tier == "thorough":
        confs += [dict(pool="perm"), dict(reflective=[0]), dict(support=0.5, ess_ratio=3.0, n_particles=16), dict(n_dim=3, n_particles=12)]
    jobs = []
    for i, c in enumerate(confs):
        for scribble in (False, True):
            jobs.append(dict(conf=c, seed=170 + i + 100 * ck.seed, label=f"c17#{i} scribble={scribble}", n_total=32, scribble=scribble))
    with cf.ProcessPoolExecutor(max_workers=sysrun.PROCS, mp_context=mp.get_context("fork")) as ex:
        res = list(ex.map(_twin_job, jobs))
    for r, j in zip(res, jobs):
        if r.get("history_unreadable"):
            ck.violation("scribble:history-unreadable" if j["scribble"] else "history-unreadable",
                         f"the committed history of run {j['label']!r} cannot be read back ({r['history_unreadable']})" + (": what the caller wrote into returned objects is inside it" if j["scribble"] else ""),
                         {"job": j})
    fj = [dict(fail_at=fa, kernel=kern, seed=1780 + i + ck.seed) for i, (fa, kern) in enumerate([(3, "tpcn"), (37, "tpcn"), (90, "rwm"), (150, "tpcn")])]
    with cf.ProcessPoolExecutor(max_workers=4, mp_context=mp.get_context("fork")) as ex:
        fres = list(ex.map(_failed_iteration_job, fj))
    for r_ in fres:
        if r_["bad"]:
            ck.violation("failed-iteration:history", r_["bad"], {"job": r_["job"]})
    if not any(r_.get("failed_at") is not None for r_ in fres) and not ck.violations:
        raise RuntimeError("failed-iteration scenario vacuous: the injected failure never fired")
    traces = [r["trace"] for r in res]
    # run() called a second time on the same sampler: the batches committed by the first call are still there (append-only across calls)
    traces += sysrun.run_jobs([{"conf": dict(clustering=False, n_particles=8), "seed": 1790 + ck.seed, "label": "run-again (C17)", "n_total": 24, "rerun": 40},
                               {"conf": dict(clustering=True, n_particles=8, evaluation="blobs"), "seed": 1791 + ck.seed, "label": "run-again blobs (C17)", "n_total": 24, "rerun": 16}])
    fails, st = psrun.validate(traces)
    cnt = sysrun.attribute(ck, "C17", traces, fails)
    P, meta = [], []
    for k in range(0, len(res), 2):
        P.append(pairs.project_pair(res[k]["summary"], res[k + 1]["summary"], kind="same", exact=True))
        meta.append(jobs[k + 1])
    pf, pst = pairs.validate_pairs(P)
    seen = set()
    for f in pf:
        if f["pid"] in seen:
            continue
        seen.add(f["pid"])
        j = meta[f["pid"] - 1]
        ck.violation("scribble:" + f["clauses"][0],
                     f"overwriting the arrays returned by the accessors changed the run (iteration {f['i']}, {f['clauses']}) for {j['conf']}",
                     {"job": j, "clauses": f["clauses"], "iteration": f["i"]})
    scrib = sum(r["counts"]["scribbled_arrays"] for r in res)
    if scrib == 0:
        raise RuntimeError("vacuous: nothing was scribbled")
    ck.sample({"scribbled_run": jobs[1]["label"], "arrays_overwritten": res[1]["counts"]["scribbled_arrays"], "accessor_calls": res[1]["counts"]["accessor_calls"]})
    out = {"scribble_pairs": len(P), "scribbled_arrays": scrib, "accessor_calls": sum(r["counts"]["accessor_calls"] for r in res),
           "system_events_validated": sum(len(t["events"]) for t in traces), "pair_states": pst["states"], "trace_states": st["states"],
           "traces_validated_against_impl": len(traces) + len(P), "evaluations": st["states"] + pst["states"], "distinct_nontrivial": len(P)}
    out.update({"system_" + k: v for k, v in cnt.items()})
    return out


if __name__ == "__main__":
    def main():
        ck = core.Check("C17", "model_checking")
        cov = system_part(ck)
        cov.update({"states": cov["trace_states"], "transitions": cov["trace_states"], "rule": "scribbled/unscribbled twin runs"})
        ck.finish(cov)

    core.main_guard(main)
