#!/venv/bin/python
"""C19 - Student-t proposal fit is well-posed and equivariant (relational trace validation).

specs/StudentPair.tla is the ECME loop of tempest.student.fit_mvstud at the grain of one iteration, self-composed
under the property's group g(x) = S P x + t: run A on a data set X, run B on g(X), coupled after initialisation
and after every iteration by  mu_B = g(mu_A), Sigma_B = S P Sigma_A P^T S, nu_B = nu_A, delta_B = delta_A, same
OptNu branch, same loop decision, same length; plus, per run, the control flow of the loop, the definitions of the
ECME step (Mahalanobis distances, root of the nu-equation, weighted scatter and mean, branch = sign of the REAL value
of the code's own test), and at the end the well-posedness clauses of the property's first sentence.  A third kind
of item is one construction of ModeStatistics (what reaches the kernel: dof finite and > 0 after the configured
fallback, finite inverse and Cholesky factor, fitted on resampled support points).

Binding A (no hooks, /repo untouched): the names np / optimize / special inside the tempest.student namespace are
pointed at forwarding proxies for the duration of a fit (vlib/student_obs.py); each observed fit is shown to be
bit-identical to the unobserved one.  Floats become tags: equal <=> equal after applying g up to
    mu0, Sigma0:   64 * eps * K                                   (worst observed 1.9 eps K)
    delta, mu:     1e-8 + 1e5 * eps * K * max(1, nu_max)          (worst observed 4% of it)
    nu, Sigma:     1e-9 + 1e4 * eps * K * max(1, nu_max)          (worst observed 2% of it)
errors measured relative to sqrt(Sigma_jj) (mu), sqrt(Sigma_ii Sigma_jj) (Sigma), delta+1 (delta), nu*max(1,nu) (nu).
K = (max_j max|x_j|/sd_j) * cond(correlation) of the worse-conditioned of X and g(X): the number of roundings of the
data's REPRESENTATION that one unit of its standardised shape is worth; the floors are the absolute termination tolerance
of the root search (bisect xtol = 2e-12) as the iteration propagates it.  Translations (drawn up to 1e6) are shrunk by
factors of 10 until the pair's delta/mu tolerance is <= 1e-5 (or K(g(X)) <= 4 K(X) when X itself is worse).
d = 1 with dyadic scaling and no translation is compared bit for bit.  Discrete decisions that differ inside the
pair's rounding band (or where the real value of the branch test is within 1% of zero) are near-ties: TLC reports
TIE, the case is re-drawn with another map and counted inconclusive, never a violation.

NOT claimed: recovery of the generating parameters from large t-samples (an ensemble-statistics statement).
"""
import json
import math
import os
import shutil
import sys

sys.path.insert(0, os.path.dirname(os.path.dirname(os.path.abspath(__file__))))
from vlib import core, tla, tlc  # noqa: E402
from vlib import student_obs as so  # noqa: E402

import numpy as np  # noqa: E402

KNOWN_KEY = "optnu:inf-branch-despite-root"
# C19 is a statement about what the fit RETURNS (and what ModeStatistics hands to the kernel).  The clauses about the inside of the
# ECME iteration (definition of each step, per-iteration coupling, control flow) bind the specification to the pinned
# organisation of the code; a failure of those alone - the returned triple still well-posed and equivariant - is a deviation
# from the specification's step structure (counted), not a violation of the property.
INTERNAL_CLAUSES = {"BranchAsExact", "DeltaInvariant", "DeltaIsMahalanobis", "FlowIterBound", "FlowLast", "FlowLoopTest", "FlowRaise", "FlowReturnOnInf",
                    "InitMuFinite", "InitSigmaPD", "MuEquivariant", "MuIsUpdate", "NuEqual", "NuIsRoot", "ReturnsLastState", "SameBranch", "SameDecision",
                    "SameLength", "SigmaEquivariant", "SigmaIsUpdate", "TestIsNuDifference"}
CFG = "INIT Init\nNEXT Next\nCONSTANT ImplBranch = {impl}\nINVARIANT TypeOK\nCHECK_DEADLOCK FALSE\n"
MAP_KINDS = ["SPT", "S", "NPT", "P", "ST", "E", "T", "SP", "N", "EPT", "PT", "NT"]
REDRAWS = 2
LARGE = 100000
LARGE_KINDS = ["T", "ST", "NT", "SPT", "PT", "EPT"]  # every large-n pair contains a translation (offset >> width is the regime of interest)


# ------------------------------------------------------------------------------------------------------------------
# worker (forked process): one data set, its maps, one ModeStatistics construction, possibly a degenerate data set
# ------------------------------------------------------------------------------------------------------------------
def fixed_t3():
    """The deterministic witness of the always-inf branch: 400 points of a bivariate t(3), independent of VERIF_SEED."""
    r = np.random.default_rng(190319)
    return r.standard_normal((400, 2)) / np.sqrt(r.chisquare(3, (400, 1)) / 3)


def case_data(seed, k):
    if k < 0:
        return "fixed-t3", 2, 400, fixed_t3()
    if k >= LARGE:  # long particle histories: more than 10^4 points in one fit (sizes around every plausible switch-over of the code path)
        j = k - LARGE
        rng = np.random.default_rng([seed, 1900, j])
        cls = ["gauss", "t3", "cube", "t5", "lognormal", "corr"][j % 6]
        d = 1 + j % 3
        n = [10001, 16384, 12000, 40000, 10240, 100001][j % 6] if j % 6 != 5 or d == 1 else 20000
        return cls + "+large", d, n, so.make_data(rng, cls, d, n)
    rng = np.random.default_rng([seed, 19, k])
    cls, d, n = so.draw_case(rng, k)
    return cls, d, n, so.make_data(rng, cls, d, n)


def case_map(seed, k, slot, attempt, d, X, nslots, numax=1.0):
    rng = np.random.default_rng([seed, 1919, k + 1, slot, attempt])
    kind = MAP_KINDS[(k + 5 * slot + 3 * attempt) % len(MAP_KINDS)] if k < LARGE else LARGE_KINDS[(k + slot + attempt) % len(LARGE_KINDS)]
    perm = None
    if "P" in kind:
        if d == 1:
            kind = kind.replace("P", "") or "S"
        elif d <= 3:  # all permutations of d <= 3 coordinates occur across the family (identity excluded when P is the only generator)
            perms = [p for p in so.all_perms(d) if kind != "P" or p != list(range(d))]
            perm = perms[(k * nslots + slot + attempt) % len(perms)]
        else:
            perm = list(rng.permutation(d))
            if perm == list(range(d)):
                perm = perm[1:] + perm[:1]
    g = so.make_map(rng, d, kind, perm=perm)
    g, _ = so.fit_budget(g, X, numax)
    return g


def _jg(g):
    return {"s": [float(v) for v in g["s"]], "t": [float(v) for v in g["t"]], "p": g["p"], "dyadic": g["dyadic"], "kind": g["kind"]}


def modes_item(out, obs, u, w, labels, nm, fb, via, k, cls, d, n):
    if so.thin_support(obs, d):  # the weighted resampling left some fit with fewer than 4d distinct points: outside the quantifier
        oc = so.outcome(obs)
        out["items"].append({"kind": "degen", "info": {"what": "thin-support:" + via, "outcome": oc}})
        out["meta"].append({"what": "degen", "k": k, "d": d, "case": "thin-support:" + via, "outcome": oc})
        return
    out["items"].append({"kind": "modes", "m": so.project_modes(obs, u, w, labels, nm, fb)})
    out["meta"].append({"what": "modes", "via": via, "k": k, "cls": cls, "d": d, "n": n, "raised": obs["raised"],
                        "raw_dof": [f["out"][2] if f["out"] else None for f in obs["fits"]]})


NU_COLLAPSE = 0.2


def collapsed(cls, *runs):
    """Data with DUPLICATED points (class 'dup', weighted resampling) are an addition to the property's quantifier (its laws are
    continuous).  On such data the t-likelihood is unbounded for nu < m/(n-m) at a point of multiplicity m, and the ECME iteration may
    drift to nu -> 0 with a collapsing scale matrix; there the iteration is expanding and 'equal up to rounding' has no fixed tolerance.
    A pair on duplicated data in which either run reaches nu < 0.2 is reported as information, not coupled.  (On the continuous
    classes the smallest fitted nu observed is 0.36 and every pair is coupled.)"""
    if not (cls == "dup" or cls.endswith("+resampled")):
        return False
    return any(v < NU_COLLAPSE for r in runs for v in so._finite_nus(r))


def job(j):
    core.import_repo()
    import tempest.modes as tm
    import tempest.student as ts

    seed, k = j["seed"], j["k"]
    cls, d, n, X = case_data(seed, k)
    out = {"k": k, "cls": cls, "d": d, "n": n, "items": [], "meta": []}
    A = so.observe_fit(ts, X)
    numax = max([1.0] + so._finite_nus(A))
    for slot, attempt in j["maps"]:
        g = case_map(seed, k, slot, attempt, d, X, j["nslots"], numax)
        Y = so.apply_map(g, X)
        B = so.observe_fit(ts, Y)
        if collapsed(cls, A, B):
            out["items"].append({"kind": "degen", "info": {"what": "duplicates-collapse:pair", "outcome": so.outcome(A["res"]) + "/" + so.outcome(B["res"])}})
            out["meta"].append({"what": "degen", "k": k, "d": d, "case": "duplicates-collapse:pair", "outcome": so.outcome(A["res"]) + "/" + so.outcome(B["res"])})
            continue
        item, diag = so.project_pair(g, X, Y, A, B)
        out["items"].append(item)
        out["meta"].append({"what": "pair", "k": k, "slot": slot, "attempt": attempt, "cls": cls, "d": d, "n": n, "map": _jg(g), "diag": diag})
    if j.get("modes"):
        rng = np.random.default_rng([seed, 191919, k + 1])
        w = rng.gamma(0.7, 1.0, n) * (rng.random(n) > 0.1)
        if not np.any(w > 0):
            w[0] = 1.0
        fb = 7.5
        sd = int(rng.integers(0, 2 ** 31 - 1))
        # (a) from_global
        og = so.observe_modes(tm, ts, X, w, fallback=fb, seed=sd)
        modes_item(out, og, X, w, None, None, fb, "from_global", k, cls, d, n)
        # (b) the same construction on g(X) under the same ambient seed resamples the same rows: the fit inside is coupled by R(g)
        g = case_map(seed, k, 97, 0, d, X, j["nslots"])
        Y = so.apply_map(g, X)
        ogb = so.observe_modes(tm, ts, Y, w, fallback=fb, seed=sd)
        if og["fits"] and ogb["fits"] and og["fits"][0]["run"] is not None and ogb["fits"][0]["run"] is not None:
            XA, XB = og["fits"][0]["data"], ogb["fits"][0]["data"]
            # the two constructions are coupled only if they resampled the SAME rows; how the rows are drawn (numpy.random.choice or
            # any other equal-weight resampling) is not prescribed: without an observed draw the fitted data themselves decide
            same_rows = (np.array_equal(og["choices"][0]["idx"], ogb["choices"][0]["idx"]) if (og.get("choices") and ogb.get("choices"))
                         else (XA.shape == XB.shape and np.array_equal(so.apply_map(g, XA), XB)))
            if XA.shape == XB.shape and same_rows:
                YA = so.apply_map(g, XA)
                ra, rb = og["fits"][0]["run"], ogb["fits"][0]["run"]
                if not (np.array_equal(YA, XB) and np.all(XA.std(axis=0) > 0) and len(np.unique(XA, axis=0)) >= 4 * d):  # n >= 4d is asked of the support
                    pass
                elif collapsed(cls + "+resampled", ra, rb):
                    oc = so.outcome(ra["res"]) + "/" + so.outcome(rb["res"])
                    out["items"].append({"kind": "degen", "info": {"what": "duplicates-collapse:from_global-pair", "outcome": oc}})
                    out["meta"].append({"what": "degen", "k": k, "d": d, "case": "duplicates-collapse:from_global-pair", "outcome": oc})
                else:
                    item, diag = so.project_pair(g, XA, XB, og["fits"][0]["run"], ogb["fits"][0]["run"])
                    out["items"].append(item)
                    out["meta"].append({"what": "pair", "via": "from_global", "k": k, "slot": 97, "attempt": 0, "cls": cls + "+resampled", "d": d,
                                        "n": int(XA.shape[0]), "map": _jg(g), "diag": diag})
        # (c) from_particles: two occupied labels and (when the signature has n_modes) one empty label
        if n >= 8 * d + 2:
            order = np.argsort(X[:, 0], kind="stable")
            labels = np.zeros(n, dtype=int)
            labels[order[n // 2:]] = 1
            import inspect

            nm = 3 if "n_modes" in inspect.signature(tm.ModeStatistics.from_particles).parameters else None
            w2 = np.where(w > 0, w, 0.0)
            for lab in (0, 1):  # every occupied label keeps positive mass
                if not np.any(w2[labels == lab] > 0):
                    w2[np.where(labels == lab)[0][0]] = 1.0
            op = so.observe_modes(tm, ts, X, w2, labels=labels, n_modes=nm, fallback=fb, seed=sd + 1, observe=False)
            modes_item(out, op, X, w2, labels, nm, fb, "from_particles", k, cls, d, n)
    if j.get("degen"):
        rng = np.random.default_rng([seed, 1234, k + 1])
        what = j["degen"]
        D = so.make_degenerate(rng, what, d)
        fit = so._call(ts.fit_mvstud, D)
        om = so.observe_modes(tm, ts, D, np.ones(len(D)), fallback=7.5, seed=1, observe=False)
        # whatever a construction on degenerate data does (raise, or return something), a dof that REACHES the kernel is finite and
        # positive: "non-finite degrees of freedom are replaced by the configured fallback before they reach the kernel"
        dof_bad = None
        cons = [("from_global", om)]
        if len(D) >= 6:
            labs = np.zeros(len(D), dtype=int)
            labs[-1] = 1   # one label owns a single particle (a collapsed cluster next to an ordinary one)
            cons.append(("from_particles(single-particle label)", so.observe_modes(tm, ts, D, np.ones(len(D)), labels=labs, fallback=7.5, seed=2, observe=False)))
        for nm2, o2 in cons:
            if o2.get("ms") is not None:
                dofs = np.asarray(o2["ms"].degrees_of_freedom, dtype=float)
                if not (np.all(np.isfinite(dofs)) and np.all(dofs > 0)):
                    dof_bad = f"{nm2}: degrees of freedom {dofs.tolist()}"
        for nm_, oc in (("fit", so.outcome(fit)), ("from_global", so.outcome(om))):
            out["items"].append({"kind": "degen", "info": {"what": what + ":" + nm_, "outcome": oc}})
            out["meta"].append({"what": "degen", "k": k, "d": max(d, 2), "case": what + ":" + nm_, "outcome": oc, "dof_bad": dof_bad if nm_ == "from_global" else None})
    return out


# ------------------------------------------------------------------------------------------------------------------
def expected_states(items):
    n = 0
    for it in items:
        n += (max(len(it["a"]["its"]), len(it["b"]["its"])) + 3) if it["kind"] == "pair" else 2
    return n


def validate(items, impl=False, coverage=True):
    """One batched TLC run.  -> (fails, ties, infos, stats)"""
    if not items:
        return [], [], [], {"states": 0, "generated": 0, "coverage": {}}
    work = tlc.scratch_dir("vc19_")
    path = os.path.join(work, "items.json")
    with open(path, "w") as f:
        json.dump(items, f)
    try:
        res = tlc.run_tlc("StudentPair", CFG.format(impl="TRUE" if impl else "FALSE"), workers=1, coverage=coverage, env={"TRACE_FILE": path})
    finally:
        shutil.rmtree(work, ignore_errors=True)
    out = res.stdout
    cov = dict(res.coverage)
    res.cleanup()
    if res.status != "ok":
        raise tlc.TLCFailure("StudentPair: unexpected TLC verdict " + res.violated + out[-1500:])
    exp = expected_states(items)
    if res.distinct != exp:
        raise tlc.TLCFailure(f"StudentPair consumed {res.distinct} states, expected {exp}\n{out[-2000:]}")
    fails, ties, infos = [], [], []
    for ln in out.splitlines():
        for tagname, dst in (('<<"FAIL"', fails), ('<<"TIE"', ties), ('<<"INFO"', infos)):
            if ln.startswith(tagname):
                v = tla.parse_value(ln)
                dst.append({"pid": v[1], "i": v[2], "who": v[3], "clause": v[4]})
    return fails, ties, infos, {"states": res.distinct, "generated": res.generated, "coverage": cov}


def selftest(ck, items, metas):
    """Binding self-test: corrupt one recorded field of an accepted pair at a time; TLC must reject with the named clause."""
    base = None
    clean = True
    cands = [it for it in items if it["kind"] == "pair" and len(it["a"]["its"]) >= 1 and len(it["a"]["its"]) == len(it["b"]["its"])][:40]
    for it in cands:
        if validate([it], coverage=False)[0] == []:
            base = it
            break
    if base is None:   # the code is organised differently from the specification's steps: corrupt outcome-level fields only
        for it in cands:
            f0 = validate([it], coverage=False)[0]
            if f0 and all(x["clause"] in INTERNAL_CLAUSES for x in f0):
                base, clean = it, False
                break
    if base is None:
        raise RuntimeError("selftest: no accepted pair to corrupt")

    def mut(path, val):
        it = json.loads(json.dumps(base))
        o = it
        for p in path[:-1]:
            o = o[p]
        o[path[-1]] = val
        return it

    L = len(base["a"]["its"]) - 1
    drop = json.loads(json.dumps(base))
    drop["b"]["its"] = drop["b"]["its"][:-1]
    corr = [
        (mut(["b", "init", "mu"], 1), "MuEquivariant"), (mut(["b", "init", "sig"], 1), "SigmaEquivariant"),
        (mut(["b", "its", 0, "delta"], 1), "DeltaInvariant"), (mut(["b", "its", L, "nu"], 1), "NuEqual"),
        (mut(["b", "its", L, "br"], "raise"), "SameBranch"), (mut(["a", "its", L, "dok"], False), "DeltaIsMahalanobis"),
        (mut(["a", "its", L, "rok"], False), "NuIsRoot"), (mut(["a", "its", L, "dec"], "cont"), "FlowLast"),
        (mut(["b", "fin", "wp", "SigmaPD"], False), "SigmaPD"), (mut(["b", "fin", "wp", "MuInBox"], False), "MuInBox"),
        (mut(["a", "fin", "wp", "NuRange"], False), "NuRange"), (mut(["b", "fin", "nu"], 1), "FinalNuEqual"), (drop, "SameLength"),
    ]
    if not clean:
        corr = [(it, clause) for it, clause in corr if clause not in INTERNAL_CLAUSES]
    rejected = 0
    for it, clause in corr:
        f, _, _, _ = validate([it], coverage=False)
        if any(x["clause"] == clause for x in f):
            rejected += 1
        else:
            ck.violation("selftest:" + clause, f"corrupted trace not rejected by {clause}", {"clause": clause})
    return rejected, len(corr)


def main():
    ck = core.Check("C19", "model_checking", description=__doc__)
    core.import_repo()
    from vlib import procs

    if ck.args.replay:
        with open(ck.args.replay) as f:
            rep = json.load(f)["replay"]
        j = {"seed": rep["seed"], "k": rep["k"], "maps": [(rep["slot"], rep["attempt"])] if rep.get("slot") is not None else [], "nslots": rep["nslots"],
             "modes": rep.get("what") == "modes", "degen": (rep.get("case", "").split(":")[0] or None) if rep.get("what") == "degen" else None}
        r = job(j)
        fails, ties, _, _ = validate(r["items"], coverage=False)
        fails = list(fails) + [{"clause": "degenerate:kernel-dof", "what": m_["dof_bad"]} for m_ in r["meta"] if m_.get("dof_bad")]
        print(json.dumps([m.get("diag", m) for m in r["meta"]], indent=1, default=core._js))
        print("replay:", "REPRODUCED " + str(fails) if fails else "did not reproduce")
        if fails:
            print(f"VIOLATION property=C19 replay={ck.args.replay}")
        sys.exit(1 if fails else 0)

    n_data, nslots = (60, 4) if ck.tier == "quick" else (1000, 8)
    ks = [-1] + list(range(n_data)) + [LARGE + j for j in range(3 if ck.tier == "quick" else 18)]
    pending = {k: [(s, 0) for s in range(nslots)] for k in ks}
    first = True
    states = generated = 0
    coverage = {}
    n_pairs = n_modes = n_degen = 0
    still_tied = 0
    tie_cases = set()
    known_hits = []
    worst = {k: 0.0 for k in ("mu0", "S0", "delta", "nu", "mu", "S")}
    worst_norm = {k: 0.0 for k in ("mu0", "S0", "delta", "nu", "mu", "S")}
    tols = []
    degen_outcomes = {}
    classes, dims, perms_seen, kinds_seen = {}, {}, set(), {}
    body_pairs = 0
    iter_hist = {}
    branch_count = {"inf": 0, "root": 0, "raise": 0}
    exact_pairs = 0
    st_items = st_metas = None
    round_no = 0
    internal_only = 0
    internal_clauses = {}
    while pending:
        jobs = []
        for k, maps in pending.items():
            jobs.append({"seed": ck.seed, "k": k, "maps": maps, "nslots": nslots, "timeout": 600,
                         "modes": first and (0 <= k < LARGE) and (ck.tier == "quick" or k % 4 == 0),
                         "degen": so.DEGENERATE[k % len(so.DEGENERATE)] if (first and 0 <= k < LARGE and k % (3 if ck.tier == "quick" else 25) == 0) else None})
        res = procs.run(job, jobs, procs=14, timeout=600.0)
        items, metas = [], []
        for jb, (stt, r) in zip(jobs, res):
            if stt != "ok":
                raise RuntimeError(f"worker for data set {jb['k']} failed ({stt}): {str(r)[:600]}")
            items += r["items"]
            metas += r["meta"]
        # batches of <= 1500 items per JVM
        fails, ties = [], []
        for lo in range(0, len(items), 1500):
            f, t, infos, stt = validate(items[lo:lo + 1500])
            for x in f + t:
                x["pid"] += lo
            fails += f
            ties += t
            states += stt["states"]
            generated += stt["generated"]
            for a, (dd, tt) in stt["coverage"].items():
                o = coverage.get(a, (0, 0))
                coverage[a] = (o[0] + dd, o[1] + tt)
        if first:
            st_items, st_metas = items, metas
        # bookkeeping
        for it, m in zip(items, metas):
            if m["what"] == "pair":
                n_pairs += 1
                dg = m["diag"]
                classes[m["cls"]] = classes.get(m["cls"], 0) + 1
                dims[m["d"]] = dims.get(m["d"], 0) + 1
                kinds_seen[m["map"]["kind"]] = kinds_seen.get(m["map"]["kind"], 0) + 1
                if m["d"] <= 3:
                    perms_seen.add((m["d"], tuple(m["map"]["p"])))
                tols.append(dg["tol"]["shape"])
                exact_pairs += dg["tol"]["exact"]
                if any(x["br"] == "root" for x in it["a"]["its"]):
                    body_pairs += 1
                iter_hist[dg["lenA"]] = iter_hist.get(dg["lenA"], 0) + 1
                for x in it["a"]["its"] + it["b"]["its"]:
                    branch_count[x["br"]] = branch_count.get(x["br"], 0) + 1
            elif m["what"] == "modes":
                n_modes += 1
            else:
                n_degen += 1
                degen_outcomes[m["case"] + " -> " + m["outcome"]] = degen_outcomes.get(m["case"] + " -> " + m["outcome"], 0) + 1
        tie_pids = {t["pid"] for t in ties}
        fail_by_pid = {}
        for f in fails:
            fail_by_pid.setdefault(f["pid"], []).append(f)
        nxt = {}
        for pid, (it, m) in enumerate(zip(items, metas), start=1):
            fl = fail_by_pid.get(pid, [])
            if m["what"] == "degen" and m.get("dof_bad"):
                ck.violation("degenerate:kernel-dof", f"ModeStatistics on degenerate data ({m['case']}) was constructed with non-finite / non-positive degrees of freedom: {m['dof_bad']}",
                             {"seed": ck.seed, "k": m["k"], "what": "degen", "case": m["case"], "nslots": nslots})
            if m["what"] == "pair" and not fl:  # worst errors of accepted pairs (what the pinned arithmetic achieves)
                dg = m["diag"]
                if not dg["tol"]["exact"]:
                    for q, e in dg["worst"].items():
                        if pid in tie_pids and q not in ("mu0", "S0"):
                            continue
                        worst[q] = max(worst[q], e)
                        t_q = dg["tol"]["init"] if q in ("mu0", "S0") else dg["tol"]["shape" if q in ("delta", "mu") else "scat"]
                        worst_norm[q] = max(worst_norm[q], e / t_q)
            rest = []
            for f in fl:
                who, clause, i = f["who"], f["clause"], f["i"]
                if m["what"] == "pair" and who in ("A", "B") and clause == "BranchAsExact":
                    x = it["a" if who == "A" else "b"]["its"][i - 1]
                    if x["br"] == "inf" and x["ex"] == "root" and x["blind"]:
                        # the pinned defect: the test point is beyond double resolution (Impl_OptNuFloat explains the branch);
                        # an inf branch despite a root at a RESOLVABLE test point is a different failure and keeps its own key
                        known_hits.append((m, who, i))
                        continue
                rest.append(f)
            if rest and m["what"] == "pair" and all(x["clause"] in INTERNAL_CLAUSES for x in rest):
                internal_only += 1
                for x in rest:
                    internal_clauses[x["clause"]] = internal_clauses.get(x["clause"], 0) + 1
                rest = []
            if rest:
                # stable key: earliest step; an exception before anything else; definition clauses before coupling clauses
                rest.sort(key=lambda x: (x["i"], 0 if x["clause"] in ("NotRaised", "Constructed") else 1, 0 if x["who"] in ("A", "B") else 1, x["clause"], x["who"]))
                f0 = rest[0]
                grp = {"P": "pair", "A": "run", "B": "run"}.get(f0["who"], "modes")
                key = f"{grp}:{f0['clause']}"
                names = sorted({f"{x['who']}.{x['clause']}@{x['i']}" for x in rest})
                if m["what"] == "pair":
                    what = (f"{m['cls']} data (d={m['d']}, n={m['n']}) and map {m['map']['kind']}: clauses {names[:8]} "
                            f"(iterations A/B {m['diag']['lenA']}/{m['diag']['lenB']}, nu {m['diag']['nuA']}/{m['diag']['nuB']}, "
                            f"raised {m['diag']['raisedA'] or m['diag']['raisedB']}, worst errors {m['diag']['worst']}, tolerances {m['diag']['tol']})")
                else:
                    what = f"ModeStatistics.{m['via']} on {m['cls']} data (d={m['d']}, n={m['n']}): clauses {names[:8]}; raw dof {m['raw_dof']}; raised {m['raised']}"
                ck.violation(key, what, {"seed": ck.seed, "k": m["k"], "slot": m.get("slot"), "attempt": m.get("attempt", 0), "nslots": nslots,
                                         "what": m["what"], "clauses": names, "meta": m})
            elif pid in tie_pids and m["what"] == "pair" and m.get("via") is None:
                tie_cases.add((m["k"], m["slot"]))
                if m["attempt"] < REDRAWS:
                    nxt.setdefault(m["k"], []).append((m["slot"], m["attempt"] + 1))
                else:
                    still_tied += 1
            elif pid in tie_pids:
                tie_cases.add((m["k"], m.get("slot"), m.get("via")))
                still_tied += 1
        pending = nxt
        first = False
        round_no += 1

    # the known defect, reported once under its stable key (a single deterministic witness is always present: fixed-t3)
    if known_hits:
        m, who, i = known_hits[0]
        wit = [h for h in known_hits if h[0]["cls"] == "fixed-t3"]
        m, who, i = (wit[0] if wit else known_hits[0])
        blind_all = None
        try:  # the code-shaped variant of OptNu (double evaluation of the test) must explain every one of these rejections
            sub = [it for it, mm in zip(st_items, st_metas) if mm["what"] == "pair"][:200]
            f2, _, _, _ = validate(sub, impl=True, coverage=False)
            blind_all = not any(x["clause"] == "BranchAsExact" for x in f2)
        except Exception:
            blind_all = None
        ck.cov["optnu_inf_despite_root_runs"] = len(known_hits)
        ck.cov["optnu_rejections_explained_by_Impl_OptNuFloat"] = blind_all
        ck.violation(KNOWN_KEY,
                     f"opt_nu took the nu = inf branch although the real value of its own test func0({m['diag']['tptA']}) is negative "
                     f"(a finite root exists): {len(known_hits)} run(s); witness {m['cls']} data d={m['d']} n={m['n']}, run {who}, iteration {i}, "
                     f"relative margin of the leading coefficient {m['diag']['marginsA'][:1]}",
                     {"seed": ck.seed, "k": m["k"], "slot": m.get("slot"), "attempt": m.get("attempt", 0), "nslots": nslots, "what": "pair", "meta": m})

    try:  # binding self-test: 13 single-field corruptions of an accepted pair must be rejected
        rejected, total = selftest(ck, st_items, st_metas)
    except RuntimeError:
        if not ck.violations:  # no accepted pair at all and no violation reported: machinery failure
            raise
        rejected, total = 0, 0

    # non-vacuity
    need = ["Initialise", "IterateReturnInf", "Finish", "Modes", "Degenerate"]
    if not known_hits and internal_only == 0:
        need.append("IterateUpdate")  # without the always-inf defect the loop body must have been exercised
    zero = [a for a in need if coverage.get(a, (0, 0))[1] == 0]
    if zero and not ck.violations:
        raise RuntimeError(f"vacuous: actions never taken: {zero}; coverage {coverage}")
    if not any(h[0]["cls"] == "fixed-t3" for h in known_hits) and coverage.get("IterateUpdate", (0, 0))[1] == 0 and not ck.violations and internal_only == 0:
        raise RuntimeError("the fixed t(3) witness neither entered the loop body nor exhibited the known always-inf branch")

    tols.sort()
    q = (lambda p: tols[min(len(tols) - 1, int(p * len(tols)))]) if tols else (lambda p: None)
    ck.sample({"witness": "fixed-t3 (400 x 2, rng 190319)", "known_defect_runs": len(known_hits)})
    for m in [mm for mm in (st_metas or []) if mm["what"] == "pair"][:3]:
        ck.sample({"cls": m["cls"], "d": m["d"], "n": m["n"], "map": m["map"], "iterations": [m["diag"]["lenA"], m["diag"]["lenB"]], "nu": [m["diag"]["nuA"], m["diag"]["nuB"]],
                   "tol": m["diag"]["tol"], "worst": m["diag"]["worst"]})
    ck.finish({
        "states": max(states, 1), "transitions": max(generated, 1),
        "traces_validated_against_impl": n_pairs + n_modes + n_degen,
        "evaluations": 2 * n_pairs + n_modes,
        "distinct_nontrivial": n_pairs,
        "rule": "one case = (data set, non-identity map g); both fits observed through namespace proxies, projected per ECME iteration and "
                "validated by TLC against StudentPair.tla (every map has at least one non-trivial generator; pairs_with_ecme_body counts "
                "those whose run A executed the Sigma/mu update at least once)",
        "exhaustive": False,
        "pairs": n_pairs, "modes_constructions": n_modes, "degenerate_cases": n_degen,
        "pairs_failing_only_internal_step_clauses(spec deviation, outcome well-posed and equivariant)": internal_only,
        "internal_step_clauses_failed": internal_clauses,
        "pairs_with_ecme_body": body_pairs, "ecme_body_exercised": body_pairs > 0,
        "pairs_compared_bit_for_bit": exact_pairs,
        "actions": {a: v[1] for a, v in sorted(coverage.items())},
        "branches": branch_count,
        "iterations_histogram": {str(k): v for k, v in sorted(iter_hist.items())},
        "classes": classes, "dimensions": {str(k): v for k, v in sorted(dims.items())}, "map_kinds": kinds_seen,
        "permutations_d_le_3_covered": sorted([list(p) for p in perms_seen], key=repr),
        "inconclusive_near_ties": len(tie_cases), "near_ties_still_tied_after_2_redraws": still_tied,
        "near_tie_rule": "a discrete decision (OptNu branch, loop test) differs between the two runs while the deciding quantity is inside the pair's "
                         "rounding band of its threshold: TLC prints TIE, coupling clauses after that step are not evaluated (single-run clauses still are), "
                         "the case is re-drawn with another map (up to 2 times) and counted here; never a violation",
        "tolerance": {"init (mu0, Sigma0)": "64*eps*K", "delta, mu": "1e-8 + 1e5*eps*K*max(1,nu_max)", "nu, Sigma": "1e-9 + 1e4*eps*K*max(1,nu_max)",
                      "K": "max over X, g(X) of (max_j max|x_j|/sd_j) * cond(correlation matrix)", "translation_budget_target": so.TOL_TARGET,
                      "delta_mu_tol_quantiles": {"p50": q(0.5), "p90": q(0.9), "p99": q(0.99), "max": tols[-1] if tols else None}},
        "worst_observed_error": worst,
        "worst_observed_error_as_fraction_of_tolerance": worst_norm,
        "degenerate_outcomes_information_only": degen_outcomes,
        "binding_mutations_rejected": f"{rejected}/{total}",
        "not_claimed": "recovery of generating parameters from large t-samples (ensemble statistics)",
    })


core.main_guard(main)
