#!/venv/bin/python
"""C20 - weight utilities of tempest.tools: ESS, trimming, volume-variation metric.

ESS and trimming (specs/Trim.tla).  TLC enumerates integer weight vectors, the while-loop of trim_weights (one action
per iteration; numpy's linear-interpolated percentile over rationals) and checks the property invariants on the
specification.  Binding B: every terminal state whose floating-point decisions are robust (the spec flags exact
ties / narrow margins; flagged states are counted, not replayed) is replayed into tools.trim_weights at the scales
2^-400, 1, 2^400, and every enumerated weight vector into tools.effective_sample_size / tools.compute_ess.
Outcomes are judged against the property text (upper set, ESS ratio, normalisation, alignment: violations) and
against the spec's code-shaped result (a different but property-conforming subset is a *deviation*: counted,
not a violation).

A Python transliteration of the Trim operators (class TrimSpec, same operator names) is validated against EVERY
TLC-enumerated state of every run (each dumped state must be a state of the transliterated behaviour of its input,
and the total number of states must agree with an independent enumeration of the inputs) and is then used as the
oracle for inputs TLC cannot hold in 32-bit integers: geometric weight vectors 2^-sj with dynamic range up to
2^996 (~1e300), lengths up to 1e4, and seeded random skewed integer vectors.

Volume-variation metric (specs/VolVar.tla).  Samples on a small integer lattice (d = 1, 2; N <= 4), integer weights,
everything in exact gcd-reduced rationals as the code computes it (normalised weights, mean, centred samples,
covariance, inverse by adjugate/determinant, Mahalanobis distances).  CV^2 is kept as the sequence of its signed
roots (v_i/W)(d_i^2 - n_dim)/2 because the sum itself does not fit 32-bit integers; TLC checks exactly, on every
non-degenerate instance: positive-definiteness and positive denominators (CV^2 is a sum of squares), invariance of
the roots under weight rescaling, permutation (equivariance), integer translations, a set of invertible integer
linear maps and their compositions, the trace identity sum p_i d_i^2 = n_dim, and that the one-pass covariance
E[xx^T] - mm^T is the same matrix in exact arithmetic.  Three seeded wrong definitions must be refuted by TLC.
Binding B: every enumerated instance is replayed into tools.volume_variation and compared with sqrt(CV^2) (the sum of
the dumped roots' squares, exact fractions), then through a SCALE FAMILY of exact (dyadic) affine images whose
expected value is the spec's value of the small instance: translations by 1e3/1e6/1e8 x spread, isotropic scalings
2^-20 / 2^20, anisotropic scalings of condition number ~1e6, a dyadic similarity and shear, a rotated anisotropic map,
weight rescalings 2^-996 / 2^996.  Degenerate instances (guard, singular covariance -> regularisation branch) are
checked for guard value / finiteness / non-negativity only.  Tolerances: VV_TOL (fixed; >= 100 x the worst error
of the pinned implementation over the exhaustive thorough domains except the 1e-5 cap at translations by 1e8 x spread,
where the margin is 28 x; the family is deterministic apart from one exact permutation).  The rotated anisotropic
map of condition number 1e6 is inside the property's quantifier and is judged at 1e-6 like its siblings; the pinned
implementation misses it (explicit inverse of a covariance of condition ~1e12): all its failures are reported ONCE per
run under the single key `volvar:invariance:rotated-cond1e6` (worst instance in the replay file).
"""
import itertools
import json
import math
import multiprocessing as mp
import os
import signal
import sys
import time
from concurrent.futures import ThreadPoolExecutor
from fractions import Fraction

sys.path.insert(0, os.path.dirname(os.path.dirname(os.path.abspath(__file__))))
from vlib import core, tla, tlc  # noqa: E402

CFG = """INIT Init
NEXT Next
CONSTANTS
  Vals = {vals}
  MinLen = {minlen}
  MaxLen = {maxlen}
  Bins = {bins}
  EssPct = {ess}
  MarginInv = {margin}
INVARIANT TypeOK
INVARIANT EssBounds
INVARIANT EssScale
INVARIANT EssUniform
INVARIANT EssFracBounds
INVARIANT SortedOK
INVARIANT ExactTieOnly
INVARIANT InterpStrict
INVARIANT NeverNegative
INVARIANT StopsAtZero
INVARIANT UpperSet
INVARIANT ThresholdSet
INVARIANT EssRatio
INVARIANT Renormalised
INVARIANT Aligned
INVARIANT FirstFromTop
PROPERTY MaskGrows
PROPERTY Progress
CHECK_DEADLOCK FALSE
"""

REL = 1e-12          # ESS / weight comparisons: spec rational vs double ("up to rounding")
MARGIN = 10 ** 9     # decisions replayed only when the exact margin exceeds 1e-9 (relative)
SHIFTS = (-400, 0, 400)   # scale family a = 2^shift (exact in binary floating point)
EPS = 2.0 ** -52


def setfmt(xs):
    return "{" + ", ".join(str(x) for x in xs) + "}"


# =============================================================================================
# Transliteration of specs/Trim.tla (operator names as in the module).  Python ints are unbounded,
# so the same operators evaluate inputs far outside TLC's 32-bit range.  Validated against every
# TLC-enumerated state before it is used as an oracle (see process_range / main).
# =============================================================================================
class TrimSpec:
    def __init__(self, w, bins, margin_inv=MARGIN):
        self.w = tuple(w)
        self.N = len(self.w)
        self.bins = bins
        self.MarginInv = margin_inv
        self.Sorted = sorted(self.w)
        self.S = sum(self.w)
        self.Q = sum(x * x for x in self.w)
        self.D = 100 * max(bins - 1, 1)
        self._ev = {}

    # ---- helpers
    def Robust(self, x, y):
        return x != y and (max(x, y) // abs(x - y)) < self.MarginInv

    def Close(self, x, y):
        return x != y and not self.Robust(x, y)

    def S1(self, m):  # m: set of 1-based positions
        return sum(self.w[j - 1] for j in m)

    def S2(self, m):
        return sum(self.w[j - 1] * self.w[j - 1] for j in m)

    # ---- percentile threshold
    def PIdx(self, k):
        return k if k >= 0 else self.bins + k

    def VNum(self, k):
        return (self.N - 1) * 99 * self.PIdx(k)

    def Lo(self, k):
        return self.VNum(k) // self.D

    def Gn(self, k):
        return self.VNum(k) % self.D

    def OrderStat(self, r):
        return self.Sorted[r]

    def LoVal(self, k):
        return self.OrderStat(self.Lo(k))

    def HiVal(self, k):
        return self.OrderStat(min(self.Lo(k) + 1, self.N - 1))

    def ThetaN(self, k):
        a = self.LoVal(k)
        return a * self.D + (self.HiVal(k) - a) * self.Gn(k)

    def MaskAt(self, k):
        t, d = self.ThetaN(k), self.D
        return frozenset(j + 1 for j, x in enumerate(self.w) if x * d >= t)

    def RatioL(self, m):
        s = self.S1(m)
        return s * s * self.Q * 100

    def RatioR(self, m, essp):
        return essp * self.S2(m) * self.S * self.S

    # ---- flags
    def ThreshFlags(self, k):
        f = set()
        if self.Gn(k) == 0 and self.VNum(k) != 0:
            f.add("thresh_tie")
        t, d = self.ThetaN(k), self.D
        if any(self.Close(x * d, t) for x in self.w):
            f.add("thresh_close")
        return f

    def RatioFlags(self, m, essp, _l=None, _r=None):
        l = self.RatioL(m) if _l is None else _l
        r = self.RatioR(m, essp) if _r is None else _r
        f = set()
        if l == r:
            f.add("ratio_tie")
        if self.Close(l, r):
            f.add("ratio_close")
        return f

    # ---- one loop iteration evaluated once per k (shared by all essp)
    def _eval(self, k):
        e = self._ev.get(k)
        if e is None:
            m = self.MaskAt(k)
            s1, s2 = self.S1(m), self.S2(m)
            e = (m, self.ThetaN(k), frozenset(self.ThreshFlags(k)), s1 * s1 * self.Q * 100, s2 * self.S * self.S)
            self._ev[k] = e
        return e

    def behaviour(self, essp):
        """States (i, pc, mask, thN, amb) of the behaviour from Init, in order (Init, then Accept/Retreat)."""
        i, pc, mask, thN, amb = self.bins - 1, "loop", frozenset(), 0, frozenset()
        out = [(i, pc, mask, thN, amb)]
        while pc == "loop" and i >= -self.bins:  # Indexable
            m, t, tf, l, r0 = self._eval(i)
            r = essp * r0
            amb = amb | tf | self.RatioFlags(m, essp, l, r)
            mask, thN = m, t
            if l >= r:      # Accept
                pc = "done"
            else:           # Retreat
                i -= 1
            out.append((i, pc, mask, thN, amb))
        return out

    def EssFrac(self):
        return Fraction(self.S * self.S, self.Q)


# =============================================================================================
# Judging an outcome of trim_weights against the property text (exact on the integer weights)
# =============================================================================================
def judge_trim(w, essp, ids, w_out, row_ok, expected_ids, margin_inv=MARGIN):
    """w: integer weights (the doubles passed were w * 2^shift); ids: returned sample ids (0-based, as returned);
    w_out: returned weights (floats).  Returns (violations [(key, what)], deviation or None, inconclusive or None)."""
    N = len(w)
    bad = []
    if len(ids) != len(w_out):
        return [("trim:length_mismatch", f"{len(ids)} samples but {len(w_out)} weights returned")], None, None
    if len(ids) == 0:
        return [("trim:empty", "empty subset returned")], None, None
    if any((not 0 <= j < N) for j in ids) or len(set(ids)) != len(ids):
        return [("trim:ids_invalid", f"returned samples are not distinct input samples: {list(ids)[:12]}")], None, None
    if not row_ok:
        bad.append(("trim:sample_rows_mixed", "a returned sample row is not a row of the input"))
    ret = set(ids)
    rest = [w[k] for k in range(N) if k not in ret]
    lo = min(w[j] for j in ids)
    if rest and max(rest) >= lo:
        bad.append(("trim:not_upper_set",
                    f"returned set is not {{i : w_i >= theta}}: min kept weight {lo} <= max dropped weight {max(rest)}"))
    S, Q = sum(w), sum(x * x for x in w)
    St, Qt = sum(w[j] for j in ids), sum(w[j] * w[j] for j in ids)
    inconclusive = None
    if St == 0:
        bad.append(("trim:zero_mass", "returned subset has zero total weight"))
    else:
        L, R = St * St * Q * 100, essp * Qt * S * S
        if L < R:
            if (R // (R - L)) < margin_inv:
                bad.append(("trim:ess_ratio_below",
                            f"ESS ratio {float(Fraction(L, R) * essp / 100):.12g} < ess {essp / 100}"))
            else:
                inconclusive = "ratio below ess within margin"
        tot = math.fsum(w_out)
        if not abs(tot - 1.0) <= REL:
            bad.append(("trim:not_normalised", f"returned weights sum to {tot!r}"))
        for k, j in enumerate(ids):
            want = Fraction(w[j], St)
            got = w_out[k]
            if not (math.isfinite(got) and abs(Fraction(got) - want) <= Fraction(REL) * want):
                bad.append(("trim:misaligned_weights",
                            f"returned weight {k} = {got!r} but sample {j} has weight {float(want)!r} after renormalisation"))
                break
    deviation = None
    if not bad and expected_ids is not None and tuple(ids) != tuple(expected_ids):
        deviation = f"property holds but subset {list(ids)[:12]} differs from the spec's {list(expected_ids)[:12]}"
    return bad, deviation, inconclusive


def to_doubles(np, w, shift):
    """w_j * 2^shift as float64; exact by construction (asserted)."""
    arr = np.array([math.ldexp(float(x), shift) for x in w], dtype=float)
    return arr


def assert_exact(w, arr, shift):
    sc = Fraction(2) ** shift
    for x, a in zip(w, arr):
        if Fraction(float(a)) != Fraction(x) * sc:
            raise RuntimeError(f"witness not exactly representable: {x} * 2^{shift}")


_CUR = {"case": None}


class Hang(Exception):
    pass


def _alarm(signum, frame):
    raise Hang()


def run_trim(tools, np, w, shift, bins, essp, expected_ids, variant):
    """Call tools.trim_weights on a COPY of the weights; judge.  Returns dict(viol, dev, inc, inplace)."""
    N = len(w)
    arr = to_doubles(np, w, shift)
    arg = arr.copy()
    if variant == "rows":
        samples = np.stack([np.arange(N, dtype=float), 7.0 * np.arange(N) + 3.0], axis=1)
    else:
        samples = np.arange(N)
    _CUR["case"] = {"w": [int(x) for x in w[:64]], "N": N, "shift": shift, "bins": bins, "essp": essp}
    try:
        s_out, w_out = tools.trim_weights(samples, arg, ess=essp / 100, bins=bins)
    except Hang:
        raise
    except Exception as ex:
        return {"viol": [("trim:raised", f"trim_weights raised {ex!r}")], "dev": None, "inc": None, "inplace": None}
    s_out = np.asarray(s_out)
    w_out = np.asarray(w_out, dtype=float)
    row_ok = True
    if variant == "rows":
        if s_out.ndim != 2 or s_out.shape[1] != 2:
            return {"viol": [("trim:sample_shape", f"samples returned with shape {s_out.shape}")], "dev": None, "inc": None, "inplace": None}
        ids = [int(v) if float(v).is_integer() else -1 for v in s_out[:, 0]]
        row_ok = bool(np.array_equal(s_out[:, 1], 7.0 * s_out[:, 0] + 3.0))
    else:
        ids = [int(v) for v in s_out.ravel()]
    viol, dev, inc = judge_trim(w, essp, ids, [float(v) for v in w_out.ravel()], row_ok, expected_ids)
    # information only: the documented in-place normalisation of the caller's array
    inplace = (not np.array_equal(arg, arr)) and abs(float(np.sum(arg)) - 1.0) <= 1e-9
    return {"viol": viol, "dev": dev, "inc": inc, "inplace": inplace}


def check_ess(tools, np, w, shifts):
    """effective_sample_size / compute_ess against ESS(w) = S^2/Q at every scale.  Returns [(key, what, detail)]."""
    N = len(w)
    S, Q = sum(w), sum(x * x for x in w)
    want = Fraction(S * S, Q)
    npos = sum(1 for x in w if x > 0)
    out = []
    n_eval = 0
    for sh in shifts:
        arr = to_doubles(np, w, sh)
        keep = arr.copy()
        try:
            got = float(tools.effective_sample_size(arr))
        except Exception as ex:
            out.append(("ess:raised", f"effective_sample_size raised {ex!r}", {"shift": sh}))
            continue
        n_eval += 1
        if not (math.isfinite(got) and abs(Fraction(got) - want) <= Fraction(REL) * want):
            if math.isfinite(got) and got < 1 - REL:
                key = "ess:below_one"
            elif math.isfinite(got) and got > N * (1 + REL):
                key = "ess:above_N"
            else:
                key = "ess:value"
            out.append((key, f"effective_sample_size = {got!r}, exact {float(want)!r} (N={N}, scale 2^{sh})", {"shift": sh}))
        if not np.array_equal(arr, keep):
            out.append(("ess:argument_modified", "effective_sample_size modified its argument", {"shift": sh}))
        # log-weight variant: (a) positive entries only, (b) zeros as -inf; shift c = sh * ln 2
        c = sh * math.log(2.0)
        base = np.log(to_doubles(np, [x for x in w if x > 0], 0))
        for name, logw, n_in in (("pos", base + c, npos),
                                 ("neginf", np.array([math.log(float(x)) + c if x > 0 else -math.inf for x in w]), N)):
            wantf = want / n_in
            fin = logw[np.isfinite(logw)]
            tol = REL + 4 * EPS * (float(np.max(np.abs(fin))) + float(np.max(fin) - np.min(fin)))
            try:
                gotf = float(tools.compute_ess(logw))
            except Exception as ex:
                out.append(("ess_log:raised", f"compute_ess raised {ex!r}", {"shift": sh, "variant": name}))
                continue
            n_eval += 1
            if not (math.isfinite(gotf) and abs(Fraction(gotf) - wantf) <= Fraction(tol) * wantf):
                out.append(("ess_log:value", f"compute_ess = {gotf!r}, exact {float(wantf)!r} (n={n_in}, shift {c:.6g}, {name})",
                            {"shift": sh, "variant": name}))
    return out, n_eval


# =============================================================================================
# Dump processing (parallel): parse, validate the transliteration, replay terminal states
# =============================================================================================
def parse_block(block):
    st = {}
    for ln in block.split("\n"):
        if not ln.startswith("/\\ "):
            if ln.strip():
                raise ValueError(f"unexpected dump line {ln!r}")
            continue
        name, _, val = ln[3:].partition(" = ")
        val = val.strip()
        if name in ("essp", "i", "bins", "thN"):
            st[name] = int(val)
        elif name == "w":
            st[name] = tuple(int(x) for x in val[2:-2].split(","))
        elif name == "pc":
            st[name] = val[1:-1]
        elif name == "mask":
            st[name] = frozenset(int(x) for x in val[1:-1].split(",")) if val != "{}" else frozenset()
        elif name == "amb":
            st[name] = frozenset(x.strip()[1:-1] for x in val[1:-1].split(",")) if val != "{}" else frozenset()
        else:
            raise ValueError(f"unknown variable {name}")
    if len(st) != 8:
        raise ValueError(f"incomplete state {block!r}")
    return st


def split_ranges(path, parts):
    size = os.path.getsize(path)
    cuts = [0]
    with open(path, "rb") as f:
        for p in range(1, parts):
            pos = max(cuts[-1], size * p // parts)
            f.seek(pos)
            buf = f.read(1 << 16)
            k = buf.find(b"\nState ")
            if k < 0:
                continue
            cut = pos + k + 1
            if cut > cuts[-1]:
                cuts.append(cut)
    cuts.append(size)
    return [(a, b) for a, b in zip(cuts[:-1], cuts[1:]) if b > a]


_W = {}


def _worker_init():
    core.import_repo()
    import numpy as np
    from tempest import tools

    _W["np"], _W["tools"] = np, tools
    signal.signal(signal.SIGALRM, _alarm)


def process_range(job):
    """Parse dump bytes [a, b); every state must belong to the transliterated behaviour of its input;
    replay un-flagged terminal states.  Returns counters and failure records."""
    path, a, b, margin_inv, min_bins, min_ess, fam, replay_budget = job
    np, tools = _W["np"], _W["tools"]
    with open(path, "rb") as f:
        f.seek(a)
        text = f.read(b - a).decode()
    r = {"states": 0, "terminal": 0, "flag_counts": {}, "replayed": 0, "evals": 0, "nontrivial": 0, "retreated": 0,
         "viol": [], "dev": 0, "dev_sample": None, "inc": 0, "inplace": 0, "mismatch": [], "ess_vectors": 0,
         "crosscheck": 0, "samples": [], "skipped_budget": 0}
    specs, behs = {}, {}
    signal.alarm(1800)
    try:
        for n_blk, block in enumerate(text.split("State ")):
            if not block.strip():
                continue
            body = block.split("\n", 1)[1] if "\n" in block else ""
            st = parse_block(body)
            if n_blk % 997 == 1:  # fast parser cross-checked against the general TLA+ value parser
                ref = tla.parse_state_block([ln for ln in body.split("\n") if ln.strip()])
                if ref != st:
                    raise RuntimeError(f"fast parser disagrees with vlib.tla on {body!r}")
                r["crosscheck"] += 1
            r["states"] += 1
            w, bins, essp = st["w"], st["bins"], st["essp"]
            key = (w, bins, essp)
            bset = behs.get(key)
            if bset is None:
                sp = specs.get((w, bins))
                if sp is None:
                    if len(specs) > 50000:
                        specs.clear()
                    sp = specs[(w, bins)] = TrimSpec(w, bins, margin_inv)
                if len(behs) > 200000:
                    behs.clear()
                bset = behs[key] = set(sp.behaviour(essp))
            if (st["i"], st["pc"], st["mask"], st["thN"], st["amb"]) not in bset:
                if len(r["mismatch"]) < 3:
                    r["mismatch"].append({"tlc": {k: (sorted(v) if isinstance(v, frozenset) else v) for k, v in st.items()}})
                continue
            if st["pc"] != "done":
                continue
            r["terminal"] += 1
            if len(st["mask"]) < len(w):
                r["nontrivial"] += 1
            if st["i"] < bins - 1:
                r["retreated"] += 1
            if bins == min_bins and essp == min_ess:  # once per weight vector
                fails, ne = check_ess(tools, np, w, SHIFTS)
                r["evals"] += ne
                r["ess_vectors"] += 1
                for key_, what, det in fails:
                    r["viol"].append((key_, what, {"w": list(w), **det}))
            fk = ",".join(sorted(st["amb"]))
            r["flag_counts"][fk] = r["flag_counts"].get(fk, 0) + 1
            if st["amb"]:
                continue
            if replay_budget is not None and (hash((w, bins, essp)) % 1000) >= replay_budget:
                r["skipped_budget"] += 1
                continue
            exp = tuple(j - 1 for j in sorted(st["mask"]))
            r["replayed"] += 1
            for sh in SHIFTS:
                # the 2-column tagged-rows variant once per (w, bins): sample handling does not depend on ess
                for variant in (("ids", "rows") if sh == 0 and essp == min_ess else ("ids",)):
                    o = run_trim(tools, np, w, sh, bins, essp, exp, variant)
                    r["evals"] += 1
                    for key_, what in o["viol"]:
                        if len(r["viol"]) < 50:
                            r["viol"].append((key_, what, {"kind": "trim", "family": fam, "w": list(w), "shift": sh, "bins": bins,
                                                           "essp": essp, "variant": variant, "spec_ids": list(exp)}))
                    if o["dev"]:
                        r["dev"] += 1
                        r["dev_sample"] = r["dev_sample"] or {"w": list(w), "bins": bins, "essp": essp, "shift": sh, "what": o["dev"]}
                    if o["inc"]:
                        r["inc"] += 1
                    if o["inplace"]:
                        r["inplace"] += 1
            if len(r["samples"]) < 2 and len(st["mask"]) < len(w) and len(w) >= 4:
                r["samples"].append({"family": fam, "w": list(w), "bins": bins, "ess": essp / 100, "loop_index_at_break": st["i"],
                                     "theta": f"{st['thN']}/({100 * max(bins - 1, 1)}*{sum(w)})", "kept_ids": list(exp)})
    except Hang:
        r["viol"].append(("trim:hang", "trim_weights did not return (chunk time-out)", {"kind": "trim", **(_CUR["case"] or {})}))
    finally:
        signal.alarm(0)
    return r


def process_big(job):
    """Oracle = validated transliteration.  job: (label, w (python ints), base_shift, bins, essp)."""
    label, w, base, bins, essp, do_ess = job
    np, tools = _W["np"], _W["tools"]
    r = {"label": label, "viol": [], "flagged": None, "replayed": 0, "evals": 0, "dev": 0, "inc": 0, "nontrivial": 0, "N": len(w)}
    pos = [x for x in w if x > 0]
    emin = min(x.bit_length() - 1 for x in pos) + base      # floor(log2) of the smallest positive double
    emax = max(x.bit_length() for x in pos) + base
    shifts = sorted({base, base + (-1022 - emin), base + (1000 - emax)})
    signal.alarm(1800)
    try:
        for sh in shifts:
            assert_exact(w[:50], to_doubles(np, w[:50], sh), sh)
        if do_ess:
            fails, ne = check_ess(tools, np, w, shifts)
            r["evals"] += ne
            for key_, what, det in fails:
                r["viol"].append((key_, what, {"kind": "ess", "label": label, "N": len(w), **det}))
        sp = TrimSpec(w, bins, MARGIN)
        beh = sp.behaviour(essp)
        i, pc, mask, thN, amb = beh[-1]
        if pc != "done":
            raise RuntimeError("transliterated behaviour did not terminate")
        if amb:
            r["flagged"] = ",".join(sorted(amb))
            return r
        exp = tuple(j - 1 for j in sorted(mask))
        r["replayed"] = 1
        r["nontrivial"] = int(len(mask) < len(w))
        for sh in shifts:
            o = run_trim(tools, np, w, sh, bins, essp, exp, "ids")
            r["evals"] += 1
            for key_, what in o["viol"]:
                r["viol"].append((key_, what, {"kind": "trim", "label": label, "N": len(w), "w_head": [int(x) for x in w[:16]],
                                               "shift": sh, "bins": bins, "essp": essp}))
            r["dev"] += bool(o["dev"])
            if o["dev"]:
                r["dev_sample"] = {"label": label, "N": len(w), "bins": bins, "essp": essp, "shift": sh, "what": o["dev"]}
            r["inc"] += bool(o["inc"])
        r["kept"] = len(mask)
        r["i"] = i
    except Hang:
        r["viol"].append(("trim:hang", "trim_weights did not return (time-out)", {"kind": "trim", "label": label}))
    finally:
        signal.alarm(0)
    return r


# =============================================================================================
def count_inputs(vals, minlen, maxlen, bins, ess, margin):
    """Independent enumeration of the inputs; number of states the transliteration generates in total."""
    total = 0
    ninit = 0
    for n in range(minlen, maxlen + 1):
        for w in itertools.product(vals, repeat=n):
            if sum(w) <= 0:
                continue
            for b in bins:
                sp = TrimSpec(w, b, margin)
                for e in ess:
                    total += len(sp.behaviour(e))
                    ninit += 1
    return ninit, total


def _count_job(job):
    vals, n, bins, ess, margin, first = job
    total = ninit = 0
    for rest in itertools.product(vals, repeat=n - 1):
        w = (first,) + rest
        if sum(w) <= 0:
            continue
        for b in bins:
            sp = TrimSpec(w, b, margin)
            for e in ess:
                total += len(sp.behaviour(e))
                ninit += 1
    return ninit, total


def selftest(ck):
    """The judge must reject property-violating outcomes and accept the correct one."""
    w = (1, 4, 2, 4, 0, 3)
    S4 = [1, 3]  # ids of weight 4
    cases = [
        ("correct", [1, 3, 5], [4 / 11, 4 / 11, 3 / 11], True, None, 30),
        ("trim:not_upper_set", [1, 5], [4 / 7, 3 / 7], True, "trim:not_upper_set", 30),
        ("trim:not_upper_set", [0, 1, 3], [1 / 9, 4 / 9, 4 / 9], True, "trim:not_upper_set", 30),
        ("trim:misaligned_weights", [1, 3, 5], [3 / 11, 4 / 11, 4 / 11], True, "trim:misaligned_weights", 30),
        ("trim:not_normalised", [1, 3, 5], [4.0, 4.0, 3.0], True, "trim:not_normalised", 30),
        ("trim:ess_ratio_below", S4, [0.5, 0.5], True, "trim:ess_ratio_below", 99),
        ("trim:length_mismatch", [1, 3, 5], [0.5, 0.5], True, "trim:length_mismatch", 30),
        ("trim:sample_rows_mixed", [1, 3, 5], [4 / 11, 4 / 11, 3 / 11], False, "trim:sample_rows_mixed", 30),
        ("trim:ids_invalid", [1, 1, 5], [4 / 11, 4 / 11, 3 / 11], True, "trim:ids_invalid", 30),
    ]
    ok = True
    for name, ids, wout, row_ok, want_key, essp in cases:
        bad, dev, inc = judge_trim(w, essp, ids, wout, row_ok, None)
        keys = [k for k, _ in bad]
        good = (keys == [] if want_key is None else want_key in keys)
        print(f"selftest {name}: {'ok' if good else 'FAILED'} {keys}")
        ok &= good
    # the transliteration on a hand-computed case: w=(1,2,3,4), bins=2: p=99 -> v=2.97, theta=(3+0.97)/10
    sp = TrimSpec((1, 2, 3, 4), 2)
    ok &= sp.Lo(1) == 2 and sp.Gn(1) == 97 and sp.ThetaN(1) == 3 * 100 + 97 and sp.MaskAt(1) == frozenset({4})
    print("selftest transliteration hand case:", "ok" if ok else "FAILED")
    sys.exit(0 if ok else 2)


def do_replay(ck, path):
    import json

    core.import_repo()
    import numpy as np
    from tempest import tools

    with open(path) as f:
        rp = json.load(f)["replay"]
    if rp.get("kind") == "volvar":
        x = np.array(rp["pts"], dtype=float)
        w = np.array(rp["wts"], dtype=float)
        for name, x2, w2 in vv_family(np, x, w, np.random.RandomState(ck.seed)):
            if name == rp["member"]:
                with np.errstate(all="ignore"):
                    got = float(tools.volume_variation(x2.copy(), w2.copy()))
                print(f"member {name}: x'={x2.tolist()} w'={w2.tolist()} -> {got!r}; recorded got={rp.get('got')!r} exact={rp.get('want')!r}")
                if "want" in rp:
                    n, d = x.shape
                    sw = sum(rp["wts"])
                    omega = 0.5 * d * math.sqrt(sum((v / sw) ** 2 for v in rp["wts"]))
                    err = abs(got - rp["want"]) / max(rp["want"], omega)
                    if not (math.isfinite(got) and err <= VV_TOL[name]):
                        ck.violation(VV_ROT1E6_KEY if name in VV_ROT1E6 else "volvar:invariance:replay",
                                     f"error {err:.3g} > {VV_TOL[name]:g}", rp)
        ck.args.no_evidence = True
        ck.finish({"states": 0, "transitions": 0, "traces_validated_against_impl": 1})
    if rp.get("kind") != "trim" or "w" not in rp:
        print("replay file carries no re-runnable trim case:", rp)
        sys.exit(2)
    w = tuple(rp["w"])
    sp = TrimSpec(w, rp["bins"])
    beh = sp.behaviour(rp["essp"])
    exp = tuple(j - 1 for j in sorted(beh[-1][2]))
    signal.signal(signal.SIGALRM, _alarm)
    o = run_trim(tools, np, w, rp["shift"], rp["bins"], rp["essp"], exp, rp.get("variant", "ids"))
    print("spec behaviour:", beh)
    print("outcome:", o)
    for key, what in o["viol"]:
        ck.violation(key, what, rp)
    ck.args.no_evidence = True
    ck.finish({"states": 0, "transitions": 0, "traces_validated_against_impl": 1})


# =============================================================================================
# Volume-variation clause: specs/VolVar.tla (exact rationals on an integer lattice) + scale family
# =============================================================================================
VV_CFG = """INIT Init
NEXT Next
CONSTANTS
  Dims = {dims}
  NMin = {nmin}
  NMax = {nmax}
  CMin = {cmin}
  CMax = {cmax}
  WMin = {wmin}
  WMax = {wmax}
  Variant = "{variant}"
{invs}
CHECK_DEADLOCK FALSE
"""
VV_INVS = ["TypeOK", "NonNegative", "DegenerateIff", "InvWeightScale", "InvPermute", "InvTranslate", "InvLinear",
           "InvAffine", "MeanDevZero", "OnePassEqual"]
# seeded wrong definitions and the invariant by which TLC must refute each of them
VV_WRONG = {"nocentre": "InvTranslate", "unnormcov": "InvWeightScale", "dminus1": "MeanDevZero"}

# Acceptance thresholds for |got - want| / max(want, omega), omega = 0.5 n_dim sqrt(sum p_i^2) (the size of the terms
# before the cancellation d2 - n_dim).  Decided from the property's quantifier (affine maps with condition number up to
# 1e6; any weight scale) as >= 100 x the worst error the pinned implementation shows on the whole thorough family under
# several seeds, and never above 1e-5.  The measured worst errors are recorded in the evidence on every run.
VV_TOL = {
    # exact dyadic images (worst observed 2.6e-14 on the thorough domains)
    "base": 1e-11, "perm": 1e-11, "w*2^-996": 1e-11, "w*2^996": 1e-11,
    "iso*2^-20": 1e-11, "iso*2^20": 1e-11, "scale*-3*2^20": 1e-11,
    "aniso(1,2^-20)": 1e-11, "aniso(2^10,2^-10)": 1e-11, "rot(.5,.75)": 1e-11, "shear(.375)": 1e-11,
    # translations by t x spread: worst observed 4.1e-12 / 5.7e-9 / 3.6e-7 (rounding of the mean, ~ eps * t)
    "shift1e3": 1e-9, "shift1e6": 1e-6, "shift1e8": 1e-5,
    "aniso(1,2^-20)+shift1e6": 1e-6,          # worst observed 5.7e-9
    "rot*aniso(2^5,2^-5)": 1e-6,              # condition number 1e3, not axis-aligned: worst observed 4.2e-9
}
# non-axis-aligned maps of condition number 1e6: judged with the tolerance of their well-behaved siblings (the rotated
# cond-1e3 member and the axis-aligned cond-1e6 members meet 1e-6 with a margin > 100); all failures of these members
# are ONE defect site and are reported once per run under this key (worst instance), not once per instance
VV_ROT1E6 = ("rot*aniso(2^10,2^-10)",)
VV_ROT1E6_KEY = "volvar:invariance:rotated-cond1e6"
for _m in VV_ROT1E6:
    VV_TOL[_m] = 1e-6


def vv_family(np, x, w, rng):
    """(name, x', w') : exact affine images of the integer instance (all entries dyadic, exactly representable)."""
    n, d = x.shape
    spread = float(max(1.0, np.max(np.ptp(x, axis=0))))
    out = [("base", x, w)]
    p = rng.permutation(n)
    out.append(("perm", x[p], w[p]))
    out.append(("w*2^-996", x, w * 2.0 ** -996))
    out.append(("w*2^996", x, w * 2.0 ** 996))
    out.append(("iso*2^-20", x * 2.0 ** -20, w))
    out.append(("iso*2^20", x * 2.0 ** 20, w))
    dirs = ([1.0], [-1.0]) if d == 1 else ([1.0, 0.0], [0.0, -1.0], [1.0, 1.0])
    for t, nm in ((1e3, "shift1e3"), (1e6, "shift1e6"), (1e8, "shift1e8")):
        for dr in dirs:
            out.append((nm, x + t * spread * np.array(dr), w))
    if d == 2:
        R = np.array([[0.5, -0.75], [0.75, 0.5]])
        out.append(("aniso(1,2^-20)", x * np.array([1.0, 2.0 ** -20]), w))
        out.append(("aniso(2^10,2^-10)", x * np.array([2.0 ** 10, 2.0 ** -10]), w))
        out.append(("rot(.5,.75)", x @ R.T, w))
        out.append(("shear(.375)", x @ np.array([[1.0, 0.375], [0.0, 1.0]]).T, w))
        out.append(("aniso(1,2^-20)+shift1e6", x * np.array([1.0, 2.0 ** -20]) + 1e6 * spread * np.array([1.0, 2.0 ** -20]), w))
        out.append(("rot*aniso(2^5,2^-5)", (x * np.array([2.0 ** 5, 2.0 ** -5])) @ R.T, w))
        out.append(("rot*aniso(2^10,2^-10)", (x * np.array([2.0 ** 10, 2.0 ** -10])) @ R.T, w))
    else:
        out.append(("scale*-3*2^20", x * -3.0 * 2.0 ** 20, w))
    return out


def vv_worker(job):
    """job: list of (pts, wts, st, roots) from the TLC dump; returns worst errors per family member and failures."""
    insts, seed = job
    np, tools = _W["np"], _W["tools"]
    rng = np.random.RandomState(seed)
    r = {"ok": 0, "singular": 0, "guard": 0, "evals": 0, "worst": {}, "viol": [], "nontrivial": 0,
         "rot_judged": 0, "rot_failed": 0, "rot_worst": (-1.0, None)}
    for pts, wts, st, roots in insts:
        x = np.array(pts, dtype=float)
        w = np.array(wts, dtype=float)
        n, d = x.shape
        r[st] += 1
        if st == "ok":
            cv2 = sum(Fraction(a, b) ** 2 for a, b in roots)
            want = math.sqrt(cv2)
            sw = sum(wts)
            omega = 0.5 * d * math.sqrt(sum(Fraction(v, sw) ** 2 for v in wts))
            r["nontrivial"] += int(cv2 > 0)
        for name, x2, w2 in vv_family(np, x, w, rng):
            try:
                with np.errstate(all="ignore"):
                    got = float(tools.volume_variation(x2.copy(), w2.copy()))
            except Exception as ex:
                r["viol"].append(("volvar:raised", f"volume_variation raised {ex!r} ({name})",
                                  {"kind": "volvar", "pts": pts, "wts": wts, "member": name}))
                continue
            r["evals"] += 1
            if st == "guard":
                if got != 1e10:
                    r["viol"].append(("volvar:guard", f"n < d+1 but volume_variation = {got!r} ({name})",
                                      {"kind": "volvar", "pts": pts, "wts": wts, "member": name}))
                continue
            if not (math.isfinite(got) and got >= 0):
                r["viol"].append(("volvar:not_nonnegative", f"volume_variation = {got!r} ({name}, {st})",
                                  {"kind": "volvar", "pts": pts, "wts": wts, "member": name}))
                continue
            if st != "ok":
                continue
            err = abs(got - want) / max(want, omega)
            if err > r["worst"].get(name, (-1.0,))[0]:
                r["worst"][name] = (err, pts, wts, got, want)
            if name in VV_ROT1E6:
                r["rot_judged"] += 1
                if not err <= VV_TOL[name]:
                    r["rot_failed"] += 1
                    if err > r["rot_worst"][0] or math.isnan(err):
                        r["rot_worst"] = (err, {"kind": "volvar", "pts": pts, "wts": wts, "member": name, "got": got, "want": want})
                continue
            if err > VV_TOL[name]:
                if len(r["viol"]) < 40:
                    r["viol"].append(("volvar:value" if name == "base" else "volvar:invariance:" + name.split("1e")[0].split("(")[0].split("*")[0],
                                      f"volume_variation = {got!r} on the image '{name}' of an instance whose exact value is "
                                      f"{want!r} (error {err:.3g} > {VV_TOL[name]:g})",
                                      {"kind": "volvar", "pts": pts, "wts": wts, "member": name, "got": got, "want": want}))
                else:
                    r["viol"].append(("volvar:invariance:more", "further invariance failures", {}))
        if st == "ok" and not r.get("sample") and n == 4 and d == 2 and cv2 > 0:
            r["sample"] = {"volvar_instance": {"pts": pts, "wts": wts}, "roots": roots, "CV2": str(cv2), "cv": want}
    return r


def volvar_tlc(tier):
    """TLC runs on VolVar.tla (thread-safe: subprocesses and dump parsing only).  Returns the data for volvar_replay.
    The intended definition on the enumeration domains, a statement-coverage run, and three wrong definitions that
    TLC must refute.  A 32-bit overflow inside TLC is a TLCFailure (exit 2), never a silent wrap-around."""
    quick = tier == "quick"
    if quick:
        doms = {
            "V1": dict(dims=[1, 2], nmin=2, nmax=3, cmin=0, cmax=2, wmin=1, wmax=2),
            "V2": dict(dims=[2], nmin=4, nmax=4, cmin=0, cmax=2, wmin=1, wmax=1),
        }
    else:
        doms = {
            "V1": dict(dims=[1, 2], nmin=2, nmax=4, cmin=0, cmax=2, wmin=1, wmax=3),
            "V2": dict(dims=[2], nmin=4, nmax=4, cmin=0, cmax=3, wmin=1, wmax=1),
            "V3": dict(dims=[2], nmin=3, nmax=3, cmin=0, cmax=3, wmin=1, wmax=3),
        }
    tiny = dict(dims=[2], nmin=3, nmax=3, cmin=0, cmax=1, wmin=1, wmax=2)
    # TLC's -coverage builds a cost model per call site of every (deeply nested) operator and switches off the caching
    # of LET definitions: on this module it costs a fixed ~25-40 s whatever the domain (measured: 37 initial states,
    # 2 s without, 40 s with).  The statement-coverage run therefore uses the smallest domain in which every action
    # fires; on the enumeration domains the action counts are measured exactly from the dump (res.st names the action).
    covdom = dict(dims=[1, 2], nmin=2, nmax=3, cmin=0, cmax=1, wmin=1, wmax=1)

    def cfg(c, variant, invs):
        return VV_CFG.format(dims=setfmt(c["dims"]), nmin=c["nmin"], nmax=c["nmax"], cmin=c["cmin"], cmax=c["cmax"],
                             wmin=c["wmin"], wmax=c["wmax"], variant=variant, invs="\n".join("INVARIANT " + i for i in invs))

    t0 = time.time()
    runs = {}
    try:
        with ThreadPoolExecutor(8) as ex:
            futs = {k: ex.submit(tlc.run_tlc, "VolVar", cfg(c, "code", VV_INVS), dump=True, coverage=False, workers=8)
                    for k, c in doms.items()}
            futs["cov"] = ex.submit(tlc.run_tlc, "VolVar", cfg(covdom, "code", ["TypeOK"]), coverage=True, workers=2)
            for v, inv in VV_WRONG.items():
                futs["wrong:" + v] = ex.submit(tlc.run_tlc, "VolVar", cfg(tiny, v, [inv]), workers=2)
            errs = []
            for k, fu in futs.items():
                try:
                    runs[k] = fu.result()
                except Exception as ex_:
                    errs.append(ex_)
            if errs:
                raise errs[0]
        rcov = runs["cov"]
        if rcov.status != "ok":
            raise RuntimeError(f"VolVar coverage run: {rcov.status} {rcov.violated}")
        cov_actions = {a: list(rcov.coverage.get(a, (0, 0))) for a in ("Init", "Guard", "Regularise", "Evaluate")}
        if any(v[1] <= 0 for v in cov_actions.values()):
            raise RuntimeError(f"vacuity: VolVar action with zero TLC coverage: {cov_actions}")
        cov_info = {"constants": covdom, "states": rcov.distinct, "tlc_action_coverage": cov_actions}
        ctrl = {}
        for v, inv in VV_WRONG.items():
            res = runs["wrong:" + v]
            ctrl[v] = {"expected_violation": inv, "tlc_status": res.status, "violated": res.violated}
            if not (res.status == "violation" and res.violated == inv):
                raise RuntimeError(f"VolVar negative control: variant {v} should violate {inv}: {ctrl[v]}")
        states = trans = 0
        insts, fam, spec_viol = [], {}, []
        for k in doms:
            res = runs[k]
            states += res.distinct
            trans += res.generated
            if res.status != "ok":
                spec_viol.append(("spec:volvar:" + res.violated, f"TLC: {res.violated} violated on VolVar.tla ({k})", {"trace": res.error_trace}))
                continue
            nd = 0
            acts = {"Init": 0, "Guard": 0, "Regularise": 0, "Evaluate": 0}
            for st in res.states():
                if st["pc"] != "done":
                    acts["Init"] += 1
                    continue
                nd += 1
                acts[{"guard": "Guard", "singular": "Regularise", "ok": "Evaluate"}[st["res"]["st"]]] += 1
                insts.append((st["pts"], st["wts"], st["res"]["st"], st["res"]["roots"]))
            need = ["Init", "Regularise", "Evaluate"] + (["Guard"] if doms[k]["nmin"] < max(doms[k]["dims"]) + 1 else [])
            if any(acts[a] <= 0 for a in need) or acts["Init"] != nd:
                raise RuntimeError(f"vacuity: VolVar run {k} action counts {acts}")
            fam[k] = {"constants": doms[k], "tlc_distinct": res.distinct, "tlc_generated": res.generated, "instances": nd,
                      "tlc_wall_s": round(res.wall_s, 1), "action_counts_from_dump": acts}
        return {"states": states, "transitions": trans, "insts": insts, "runs": fam, "ctrl": ctrl, "cov": cov_info,
                "spec_viol": spec_viol, "tlc_wall_s": round(time.time() - t0, 1)}
    finally:
        for res_ in runs.values():
            res_.cleanup()


def volvar_replay(ck, pool, data):
    """Every enumerated instance through tools.volume_variation and through the scale family (workers of `pool`)."""
    t0 = time.time()
    for key_, what, rp in data["spec_viol"]:
        ck.violation(key_, what, rp)
    insts = data["insts"]
    agg = {"ok": 0, "singular": 0, "guard": 0, "evals": 0, "nontrivial": 0, "rot_judged": 0, "rot_failed": 0}
    worst = {}
    rot_worst = (-1.0, None)
    if not data["spec_viol"]:
        chunk = max(1, len(insts) // 256 + 1)
        jobs = [(insts[i:i + chunk], ck.seed * 1000003 + i) for i in range(0, len(insts), chunk)]
        for r in pool.imap_unordered(vv_worker, jobs):
            for k in agg:
                agg[k] += r[k]
            for name, rec in r["worst"].items():
                if rec[0] > worst.get(name, (-1.0,))[0]:
                    worst[name] = rec
            for key_, what, rp in r["viol"]:
                ck.violation(key_, what, rp)
            if r.get("sample"):
                ck.sample(r["sample"], limit=7)
            if r["rot_worst"][1] is not None and (r["rot_worst"][0] > rot_worst[0] or rot_worst[1] is None):
                rot_worst = r["rot_worst"]
        if agg["rot_failed"]:
            e, rp = rot_worst
            ck.violation(VV_ROT1E6_KEY,
                         f"volume_variation is not invariant under a rotated affine map of condition number 1e6: "
                         f"{agg['rot_failed']} of {agg['rot_judged']} instances exceed {VV_TOL[VV_ROT1E6[0]]:g}; worst error {e:.3g} "
                         f"(got {rp['got']!r}, exact {rp['want']!r}) at pts {rp['pts']}, weights {rp['wts']}, member {rp['member']}",
                         dict(rp, failed=agg["rot_failed"], judged=agg["rot_judged"], worst_error=e))
    return {
        "states": data["states"], "transitions": data["transitions"], "instances": len(insts),
        "nondegenerate_replayed": agg["ok"], "regularised_instances": agg["singular"], "guard_instances": agg["guard"],
        "evaluations": agg["evals"], "nontrivial_cv_positive": agg["nontrivial"], "runs": data["runs"],
        "tlc_coverage_run": data["cov"], "wrong_variants_refuted_by_tlc": data["ctrl"], "tolerances": VV_TOL,
        "worst_observed_error": {n: {"err": float(f"{rec[0]:.3g}"), "pts": rec[1], "wts": rec[2]} for n, rec in sorted(worst.items())},
        "rotated_cond1e6": {"members": list(VV_ROT1E6), "key": VV_ROT1E6_KEY, "judged": agg["rot_judged"],
                            "failed": agg["rot_failed"], "worst_error": rot_worst[0] if rot_worst[1] else None},
        "error_metric": "|got - sqrt(CV2)| / max(sqrt(CV2), 0.5 n_dim sqrt(sum p_i^2))",
        "wall_s": {"tlc_concurrent_with_trim_runs": data["tlc_wall_s"], "replay": round(time.time() - t0, 1)},
    }


def volvar_part(ck):
    """Stand-alone driver (C20_PART=volvar); main() overlaps volvar_tlc with the Trim.tla runs instead."""
    data = volvar_tlc(ck.tier)
    pool = mp.get_context("fork").Pool(16, initializer=_worker_init)
    try:
        return volvar_replay(ck, pool, data)
    finally:
        pool.terminate()
        pool.join()


def main():
    ck = core.Check("C20", "model_checking")
    if ck.args.selftest:
        selftest(ck)
    if ck.args.replay:
        do_replay(ck, ck.args.replay)
    core.import_repo()
    import numpy as np
    from tempest import tools

    if os.environ.get("C20_PART") == "volvar":  # development aid: the volume-variation part alone, never writes evidence
        ck.args.no_evidence = True
        vv = volvar_part(ck)
        print(json.dumps({k: vv[k] for k in ("worst_observed_error", "wall_s", "instances", "nondegenerate_replayed", "evaluations") if k in vv}, default=str))
        ck.finish({"states": vv.get("states", 0), "transitions": vv.get("transitions", 0),
                   "traces_validated_against_impl": vv.get("nondegenerate_replayed", 0), "volume_variation": vv})
    quick = ck.tier == "quick"
    ess = [30, 60, 90, 99]
    if quick:
        fams = {
            "A": dict(vals=[0, 1, 2, 3, 4], minlen=1, maxlen=5, bins=[2, 3, 5], ess=ess, margin=MARGIN, budget=None),
            "B": dict(vals=[0, 1, 2, 4, 8, 16], minlen=1, maxlen=4, bins=[1, 2, 5], ess=ess, margin=MARGIN, budget=None),
            "C": dict(vals=[0, 1, 2], minlen=5, maxlen=5, bins=[100], ess=ess, margin=50, budget=None),
        }
    else:
        fams = {
            "A": dict(vals=[0, 1, 2, 3, 4, 5], minlen=1, maxlen=6, bins=[3, 9], ess=ess, margin=MARGIN, budget=None),
            "B": dict(vals=[0, 1, 2, 4, 8, 16], minlen=1, maxlen=5, bins=[1, 2, 3, 5, 8], ess=ess, margin=MARGIN, budget=None),
            "C": dict(vals=[0, 1, 2, 3], minlen=5, maxlen=5, bins=[34, 100], ess=ess, margin=50, budget=None),
        }
    # negative control of the specification: with ess > 1 (outside the quantifier) the loop index does go below 0
    ctrl = dict(vals=[0, 1], minlen=1, maxlen=2, bins=[2], ess=[110], margin=MARGIN)

    def cfg_of(c):
        return CFG.format(vals=setfmt(c["vals"]), minlen=c["minlen"], maxlen=c["maxlen"], bins=setfmt(c["bins"]),
                          ess=setfmt(c["ess"]), margin=c["margin"])

    ctx = mp.get_context("fork")
    pool = ctx.Pool(16, initializer=_worker_init)
    results = {}
    phase = {}
    t_ph = time.time()
    vv_ex = ThreadPoolExecutor(1)
    vv_fut = vv_ex.submit(volvar_tlc, ck.tier)   # VolVar.tla runs overlap the Trim.tla runs (subprocesses only)
    try:
        # the independent input enumeration runs in the pool while TLC runs
        count_jobs = {}
        for name, c in fams.items():
            jobs = [(c["vals"], n, c["bins"], c["ess"], c["margin"], first)
                    for n in range(c["minlen"], c["maxlen"] + 1) for first in c["vals"]]
            count_jobs[name] = pool.map_async(_count_job, jobs)
        with ThreadPoolExecutor(4) as ex:
            futs = {name: ex.submit(tlc.run_tlc, "Trim", cfg_of(c), dump=True, coverage=True, workers=8 if name != "A" else 16)
                    for name, c in fams.items()}
            fctrl = ex.submit(tlc.run_tlc, "Trim", cfg_of(ctrl), dump=False, coverage=False, workers=2)
            errs = []
            for name, fu in futs.items():
                try:
                    results[name] = fu.result()
                except Exception as ex_:  # collect, so that the other runs' scratch dirs are still cleaned up
                    errs.append(ex_)
            try:
                rctrl = fctrl.result()
                results["_ctrl"] = rctrl
            except Exception as ex_:
                errs.append(ex_)
            if errs:
                raise errs[0]
            del results["_ctrl"]

        phase['tlc_all_runs_concurrent'] = round(time.time() - t_ph, 1)
        t_ph = time.time()
        tot_states = tot_trans = 0
        for name, res in results.items():
            tot_states += res.distinct
            tot_trans += res.generated
            if res.status != "ok":
                ck.violation("spec:" + res.violated, f"TLC: {res.violated} violated on Trim.tla (family {name})", {"trace": res.error_trace})
        if ck.violations:
            for res in results.values():
                res.cleanup()
            rctrl.cleanup()
            ck.finish({"states": max(tot_states, 1), "transitions": max(tot_trans, 1), "traces_validated_against_impl": 0})
        ctrl_ok = rctrl.status == "violation" and rctrl.violated in ("NeverNegative", "StopsAtZero")
        ctrl_info = {"constants": {k: ctrl[k] for k in ("vals", "maxlen", "bins", "ess")}, "tlc_status": rctrl.status,
                     "violated": rctrl.violated, "trace_len": len(rctrl.error_trace)}
        rctrl.cleanup()
        if not ctrl_ok:
            raise RuntimeError(f"negative control: TLC should reject ess=110% via NeverNegative/StopsAtZero, got {ctrl_info}")

        # ---- every dumped state: transliteration membership + replay
        agg = {"states": 0, "terminal": 0, "flag_counts": {}, "replayed": 0, "evals": 0, "nontrivial": 0, "retreated": 0,
               "dev": 0, "inc": 0, "inplace": 0, "ess_vectors": 0, "crosscheck": 0, "skipped_budget": 0}
        per_family = {}
        dev_sample = None
        for name, res in results.items():
            c = fams[name]
            rngs = split_ranges(res.dump_path, 64 if quick else 256)
            jobs = [(res.dump_path, a, b, c["margin"], min(c["bins"]), min(c["ess"]), name, c["budget"]) for a, b in rngs]
            fam = {"states": 0, "terminal": 0, "replayed": 0, "flag_counts": {}, "nontrivial": 0}
            for r in pool.imap_unordered(process_range, jobs):
                if r["mismatch"]:
                    raise RuntimeError(f"transliteration disagrees with TLC (family {name}): {r['mismatch'][0]}")
                for k in agg:
                    if k == "flag_counts":
                        for fk, v in r[k].items():
                            agg[k][fk] = agg[k].get(fk, 0) + v
                            fam[k][fk] = fam[k].get(fk, 0) + v
                    else:
                        agg[k] += r[k]
                        if k in fam:
                            fam[k] += r[k]
                for key_, what, rp in r["viol"]:
                    ck.violation(key_, what, rp)
                dev_sample = dev_sample or r["dev_sample"]
                for s in r["samples"]:
                    ck.sample(s, limit=4)
            ninit, total = map(sum, zip(*count_jobs[name].get()))
            if fam["states"] != res.distinct or total != res.distinct or ninit != fam["terminal"]:
                raise RuntimeError(f"family {name}: TLC {res.distinct} distinct states, parsed {fam['states']}, transliteration "
                                   f"generates {total} from {ninit} inputs, terminal {fam['terminal']}")
            fam.update(tlc_distinct=res.distinct, tlc_generated=res.generated, tlc_depth=res.depth, tlc_wall_s=round(res.wall_s, 1),
                       inputs=ninit, constants={k: c[k] for k in ("vals", "minlen", "maxlen", "bins", "ess", "margin")},
                       coverage={k: list(v) for k, v in res.coverage.items()})
            for act in ("Init", "Accept", "Retreat"):
                if res.coverage.get(act, (0, 0))[1] <= 0:
                    raise RuntimeError(f"vacuity: action {act} has zero coverage in family {name}: {res.coverage}")
            per_family[name] = fam
            res.cleanup()

        phase['parse_validate_replay'] = round(time.time() - t_ph, 1)
        t_ph = time.time()
        # ---- inputs beyond TLC's integers: geometric 2^-sj vectors and seeded random skewed vectors
        rng = np.random.RandomState(ck.seed + 20)
        big = []
        geo = [(2, 996), (3, 498), (5, 249), (8, 142), (20, 52), (100, 10), (200, 5), (997, 1)]
        for N, s in geo:
            for perm in ("desc", "asc", "shuf"):
                w = [1 << (s * (N - 1 - j)) for j in range(N)]
                if perm == "asc":
                    w.reverse()
                elif perm == "shuf":
                    w = [w[j] for j in rng.permutation(N)]
                for bins in ((2, 5, 100) if N <= 200 else (2, 20)):
                    for e in ess:
                        big.append((f"geo:N={N},s={s},{perm}", tuple(w), -s * (N - 1), bins, e, bins == 2 and e == 30))
        nrand = 60 if quick else 1000
        for t in range(nrand):
            N = int(rng.choice([2, 3, 5, 8, 13, 50, 101, 200]))
            E = int(rng.choice([0, 3, 30, 300, 990]))
            m = rng.randint(0, 8, N)
            if rng.rand() < 0.3:
                m[rng.rand(N) < 0.3] = 0
            ex = rng.randint(0, E + 1, N)
            if rng.rand() < 0.5:  # geometric decay with ties
                ex = np.sort(ex)[::-1]
            if m.max() == 0:
                m[0] = 1
            w = tuple(int(a) << int(b) for a, b in zip(m, ex))
            bins = int(rng.choice([1, 2, 3, 5, 10, 100, 1000]))
            e = int(rng.choice(ess + list(range(1, 100))))
            big.append((f"rand:{t}", w, -int(max(ex)), bins, e, True))
        # lengths up to 1e4
        for t, N in enumerate([1000, 10000]):
            m = rng.randint(0, 8, N)
            m[0] = 1
            ex = np.sort(rng.randint(0, 100, N))[::-1]
            w = tuple(int(a) << int(b) for a, b in zip(m, ex))
            for bins in (2, 20):
                for e in (60, 99):
                    big.append((f"long:N={N}", w, -99, bins, e, bins == 2 and e == 60))
        bigagg = {"cases": len(big), "replayed": 0, "evals": 0, "flagged": {}, "dev": 0, "inc": 0, "nontrivial": 0, "max_N": 0}
        for r in pool.imap_unordered(process_big, big, chunksize=4):
            for key_, what, rp in r["viol"]:
                ck.violation(key_, what, rp)
            dev_sample = dev_sample or r.get("dev_sample")
            if r["flagged"]:
                bigagg["flagged"][r["flagged"]] = bigagg["flagged"].get(r["flagged"], 0) + 1
            for k in ("replayed", "evals", "dev", "inc", "nontrivial"):
                bigagg[k] += r[k]
            bigagg["max_N"] = max(bigagg["max_N"], r["N"])
            if r["replayed"] and r["label"].startswith("geo:N=100") and len(ck.samples) < 6:
                ck.sample({"big_case": r["label"], "kept": r["kept"], "loop_index_at_break": r["i"]})
        phase['beyond_tlc_inputs'] = round(time.time() - t_ph, 1)
        t_ph = time.time()
        vv = volvar_replay(ck, pool, vv_fut.result())
        phase['volume_variation_wait_and_replay'] = round(time.time() - t_ph, 1)
    finally:
        pool.terminate()
        pool.join()
        vv_ex.shutdown(wait=True)
        for res_ in results.values():  # idempotent; keeps nothing under /tmp on any exit path
            res_.cleanup()

    # ---- information only (not part of the verdict)
    info = {}
    w0 = (1, 2, 3, 4, 0)
    sp0 = TrimSpec(w0, 5)
    exp0 = tuple(j - 1 for j in sorted(sp0.behaviour(90)[-1][2]))
    signal.signal(signal.SIGALRM, _alarm)
    ext = {}
    for sh in (-1074, -1000, 1000, 1021):
        try:
            with np.errstate(all="ignore"):
                o = run_trim(tools, np, w0, sh, 5, 90, exp0, "ids")
                e = float(tools.effective_sample_size(to_doubles(np, w0, sh)))
            ext[f"2^{sh}"] = {"trim": "as spec" if not o["viol"] and not o["dev"] else [k for k, _ in o["viol"]] or "deviates",
                              "effective_sample_size": e}
        except Exception as ex_:  # noqa
            ext[f"2^{sh}"] = repr(ex_)
    info["extreme_scales_w=(1,2,3,4,0)"] = ext
    try:
        tools.trim_weights(np.arange(3), np.array([1, 2, 3]), ess=0.9, bins=3)
        info["integer_dtype_weights"] = "accepted"
    except Exception as ex_:
        info["integer_dtype_weights"] = f"raises {type(ex_).__name__} (in-place true division of an integer array)"
    n_trim_calls = agg["evals"]
    info["caller_array_normalised_in_place"] = f"{agg['inplace']} of the replayed calls left the passed array normalised (documented `weights /= sum`)"

    # ---- additional monitoring (random clouds, d up to 5): volume_variation non-negativity and the n < d+1 guard
    mon = {"evaluated": 0, "guard_cases": 0, "guard_returned_1e10": 0, "nonnegative_finite": 0, "nan": 0, "negative": 0}
    for d in (1, 2, 3, 5):
        for n in (1, d, d + 1, d + 2, 10, 50):
            for wk in ("none", "ints", "geo"):
                x = rng.standard_normal((n, d))
                wv = None if wk == "none" else (rng.randint(1, 5, n).astype(float) if wk == "ints" else 2.0 ** -np.arange(n))
                try:
                    with np.errstate(all="ignore"):
                        v = float(tools.volume_variation(x, wv))
                except Exception as ex_:
                    mon.setdefault("raised", []).append(repr(ex_)[:80])
                    continue
                mon["evaluated"] += 1
                if n < d + 1:
                    mon["guard_cases"] += 1
                    mon["guard_returned_1e10"] += int(v == 1e10)
                if math.isnan(v):
                    mon["nan"] += 1
                elif v < 0:
                    mon["negative"] += 1
                    ck.violation("monitor:volume_negative", f"volume_variation = {v!r} < 0 (n={n}, d={d}, weights {wk})",
                                 {"kind": "volume", "n": n, "d": d, "weights": wk})
                else:
                    mon["nonnegative_finite"] += int(math.isfinite(v))

    ndev = agg["dev"] + bigagg["dev"]
    if ndev:
        print(f"DEVIATION (not a violation): {ndev} replayed calls returned a subset that satisfies the property text but is "
              f"not the one the code-shaped specification computes, e.g. {dev_sample}", flush=True)
    ck.assumptions += [
        "numpy float64 arithmetic is IEEE-754; np.percentile(method='linear') computes floor((N-1)*q) and a + (b-a)*g "
        "(resp. b - (b-a)*(1-g) for g >= 0.5) as read in numpy/lib/_function_base_impl.py (_lerp), so equal neighbours give an exact threshold",
        "replayed weights are integers times a power of two (exact doubles); scaling by 2^k is exact, so the scale family "
        "2^-400, 1, 2^400 presents the same rational problem to the code",
        "decisions are replayed only where the exact relative margin exceeds 1e-9 (flagged states counted, not replayed)",
        "the Python transliteration TrimSpec is trusted only as far as its agreement with every TLC-enumerated state "
        "(set equality of the state spaces of all runs) extends to larger integers: the operators are polynomial in the entries",
        "volume_variation: decided on lattice instances with d <= 2, N <= 4 and their exact dyadic affine images; the "
        "acceptance thresholds VV_TOL are fixed constants chosen from the measured accuracy of the pinned implementation",
    ]
    ck.finish({
        "states": tot_states + vv.get("states", 0),
        "transitions": tot_trans + vv.get("transitions", 0),
        "traces_validated_against_impl": agg["replayed"] + bigagg["replayed"] + vv.get("nondegenerate_replayed", 0),
        "evaluations": agg["evals"] + bigagg["evals"] + vv.get("evaluations", 0),
        "distinct_nontrivial": agg["nontrivial"] + bigagg["nontrivial"] + vv.get("nontrivial_cv_positive", 0),
        "rule": "one behaviour per (w, bins, ess); non-trivial = the accepted mask is a proper subset of the samples "
                "(something is trimmed); each un-flagged terminal state is replayed into trim_weights at 3 scales "
                "(ids as samples; at scale 1 and the smallest ess also 2-column tagged rows); each enumerated vector goes through "
                "effective_sample_size and compute_ess (positive entries / zeros as -inf) at 3 scales",
        "exhaustive": True,
        "scope": "ESS, trimming, and the volume-variation clause on lattice instances + exact scale family (d <= 2, N <= 4); "
                 "degenerate instances only for guard value / finiteness / non-negativity",
        "behaviours_terminal": agg["terminal"],
        "behaviours_with_retreat": agg["retreated"],
        "flagged_not_replayed": {k: v for k, v in agg["flag_counts"].items() if k},
        "unflagged_terminal": agg["flag_counts"].get("", 0),
        "deviations_within_property": agg["dev"] + bigagg["dev"],
        "deviation_sample": dev_sample,
        "inconclusive_near_ties": agg["inc"] + bigagg["inc"],
        "weight_vectors_through_ess_functions": agg["ess_vectors"],
        "transliteration_validated_against_tlc_states": agg["states"],
        "transliteration_validation": "every dumped state of every TLC run is a state of TrimSpec.behaviour of its input, and an "
                                      "independent Python enumeration of the inputs generates exactly TLC's number of distinct states",
        "fast_parser_crosschecked_states": agg["crosscheck"],
        "families": per_family,
        "beyond_tlc_inputs": bigagg,
        "spec_negative_control": ctrl_info,
        "information_only": info,
        "volume_variation": vv,
        "monitoring_only_volume_variation": mon,
        "trim_calls": n_trim_calls,
        "phase_wall_s": phase,
    })


core.main_guard(main)
