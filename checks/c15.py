#!/venv/bin/python
"""C15 - weighted mixture and hierarchical clustering models satisfy their invariants (PARTIAL).

Decided with the specification (specs/HGMSplit.tla, specs/HGMTrace.tla): the hierarchical sentence -
every training point exactly one label in [0,K), K <= cap (= max_iterations + 1), no accepted split with
a child below min_points, a cluster below min_points is never split, predict in [0,K) for any query.

  * TLC explores HGMSplit exhaustively over all oracles (BIC-improvement rank vs threshold, child
    partition) within small bounds and checks the invariants; seeded wrong variants of the spec
    (Mut_...) must each be refuted (non-vacuity of the invariants).  The oracle is a FUNCTION OF THE
    CLUSTER by construction (state variable `oracle`, extended on first consultation, reused
    afterwards; invariant OracleIsFunction): the mixture fits are seeded identically, so an
    implementation may evaluate a cluster once and remember the answer or re-evaluate it in every pass.
  * Binding B: every terminal behaviour enumerated by TLC is replayed into the real
    HierarchicalGaussianMixture.fit/predict/predict_proba with the name `GaussianMixture` of the
    tempest.cluster namespace pointed at a scripted fake that is CONTENT-ADDRESSED and order-free: it
    answers bic() of the 1-component model of a cluster and predict() of its 2-component model from the
    behaviour's oracle, for any call, in any order, any number of times (a cluster the specification
    never consulted gets an adversarial default).  Nothing is asserted about the PROTOCOL (call order,
    call counts, which instances are asked, final per-cluster fits, message wording); what the property
    states is compared: n_clusters_ = K <= cap, labels_ = the specification's labelling AS A PARTITION
    (up to the relabelling pi: spec label -> code label, which must be a bijection on [0,K) - the
    numbering of the clusters is free), the accepted splits if the verbose output can be parsed (parent
    positions only when pi is the identity), predict / predict_proba ranges and centre queries
    (predict at the centre of spec cluster j gives pi(j); never an exact tie: scripted centres are
    >= 12.5 sigma apart), also on refits of one object.
    Children >= min_points and "small clusters are never split" follow from the equality with the
    specification's labelling, whose invariants TLC checks.
  * Binding A: real fits on seeded generated data with a logging subclass of GaussianMixture installed
    the same way.  From everything it saw (keyed by the CONTENT of the data set a model was fitted on)
    the observed oracle is built as a function of the cluster (order ranks of improvement / threshold,
    child labels where a partition was produced) and handed to TLC as data; HGMTrace.tla (which
    conjoins the original HGMSplit actions) runs the specification deterministically with it and
    compares its K / labelling (as a partition, up to a relabelling) / accepted splits / prediction
    range with the outcome of the fit
    (total verdicts with the failing clause named).  A specification run that needs an oracle value
    the code never computed is INCONCLUSIVE (counted); observed answers that differ for the same data
    set are reported as information.

Decided relationally (specs/GMMPair.tla, replication_part): "integer sample weights are equivalent to
replicating points" for GaussianMixture - fit(X, k) and fit(repeat(X, k)) run in lock-step at the grain of one
EM iteration (same k-means++ picks, equal parameters / lower bound up to 1e-9 after every iteration, same
convergence decisions, same fitted model, predictions - away from exact / rounding-level posterior ties - and BIC).  The hierarchical model is not coupled
(bic() ignores sample weights by construction, so replication legitimately changes the split decisions).

Only MONITORED (not decided by the model, labelled `monitor:` in the evidence): the other EM mixture
predicates of the first sentence, logged for every real GaussianMixture.fit ('full' and 'diag').
Excluded: 'tied' / 'spherical'.
"""
import contextlib
import io
import itertools
import json
import math
import os
import re
import sys
import time
import warnings
from concurrent.futures import ThreadPoolExecutor

sys.path.insert(0, os.path.dirname(os.path.dirname(os.path.abspath(__file__))))
from vlib import core, tla, tlc  # noqa: E402

INVARIANTS = ["TypeOK", "ClustersPartition", "LabelsPartition", "CapRespected", "SplitChildrenOK",
              "NeverSplitSmall", "AcceptedAboveThreshold", "PredictInRange", "OneSplitPerIteration", "OracleIsFunction"]

CFG = """INIT Init
NEXT Next
CONSTANTS
  Ns = {ns}
  MinPtsSet = {mp}
  MaxIterSet = {mi}
  R = {R}
  LowKinds = {low}
  Variant = "{variant}"
""" + "".join(f"INVARIANT {i}\n" for i in INVARIANTS) + "CHECK_DEADLOCK FALSE\n"

# seeded wrong variants of the specification and the invariant each must violate
SPEC_MUTANTS = {
    "Mut_NoChildSize": {"SplitChildrenOK", "ClustersPartition"},
    "Mut_CapOffByOne": {"CapRespected"},
    "Mut_NoSizeGuard": {"NeverSplitSmall"},
    "Mut_GeThreshold": {"AcceptedAboveThreshold"},
    "Mut_LabelFromOne": {"LabelsPartition"},
    "Mut_ForgetfulOracle": {"OracleIsFunction"},     # needs a third pass: a cluster is consulted again
}
ALL_LOW = '{"nan", "neginf", "thr"}'
MUT_CONSTS = dict(ns="{1, 3, 4}", mp="{1, 2}", mi="{1, 2, 3}", R=1, low=ALL_LOW)


def spec_jobs(tier):
    """(name, constants) of the exhaustive generator runs."""
    jobs = [
        ("small-family", dict(ns="{1, 2, 3, 4}", mp="{1, 2, 3}", mi="{0, 1, 2}", R=2, low=ALL_LOW)),
        ("n5", dict(ns="{5}", mp="{2}", mi="{2}", R=1 if tier == "quick" else 2, low=ALL_LOW)),
        # four passes over four points: clusters are consulted again in later passes (a remembering implementation answers from
        # memory, a re-evaluating one asks again), two clusters qualify in one pass and the lower-positioned one wins
        ("n4-deep", dict(ns="{4}", mp="{1}", mi="{4}", R=1, low='{"thr"}')),
    ]
    if tier == "thorough":
        jobs += [
            ("n3-deep", dict(ns="{3}", mp="{1}", mi="{3}", R=1, low=ALL_LOW)),
            ("n4-deep-all", dict(ns="{4}", mp="{1}", mi="{3}", R=1, low=ALL_LOW)),
            ("n6-deep", dict(ns="{6}", mp="{2}", mi="{3}", R=1, low='{"thr"}')),
            ("n5-r3", dict(ns="{5}", mp="{2}", mi="{1, 2}", R=3, low=ALL_LOW)),
            ("n6", dict(ns="{6}", mp="{2, 3}", mi="{1, 2}", R=2, low=ALL_LOW)),
            ("n7", dict(ns="{7}", mp="{3}", mi="{2}", R=2, low=ALL_LOW)),
            ("n8", dict(ns="{8}", mp="{4}", mi="{2}", R=1, low=ALL_LOW)),
            ("n8-one", dict(ns="{8}", mp="{2, 3}", mi="{1}", R=2, low=ALL_LOW)),
        ]
    return jobs


# --------------------------------------------------------------------------- dump reading
_HDR = re.compile(r"^State (\d+):")


def iter_dump_blocks(path):
    block = []
    with open(path) as f:
        for ln in f:
            ln = ln.rstrip("\n")
            if _HDR.match(ln):
                if block:
                    yield block
                block = []
            elif ln.startswith("/\\") or (block and ln.strip()):
                block.append(ln)
    if block:
        yield block


def block_pc(block):
    for ln in block:
        if ln.startswith("/\\ pc = "):
            return ln[len("/\\ pc = "):].strip().strip('"')
    return None


# --------------------------------------------------------------------------- binding B: scripted fake
class Script:
    """One spec behaviour driving the fake mixture model.  CONTENT-ADDRESSED and order-free: the oracle of the behaviour
    (the `oracle` variable of its terminal state) is a function of the cluster = set of point ids; any call is served, in any
    order, any number of times, on any instance.  Nothing is asserted about the protocol (which models are fitted, which get
    bic() / predict(), how often, in which order) - only what fit() finally DECIDED is compared with the specification.
    A cluster the specification never consulted gets an adversarial default answer (a conforming implementation may ask
    for it, but its decisions cannot depend on it: the specification's do not)."""

    def __init__(self, np, oracle, n, d, ctype, variant):
        self.np = np
        self.oracle = oracle      # frozenset(ids) -> {"imp", "thr", "known", "c1"}
        self.n = n
        self.d = d
        self.ctype = ctype
        self.variant = variant
        self.hgm = None
        self.cov_variant = "good"
        self.calls = {"fit1": 0, "fit2": 0, "bic1": 0, "bic2": 0, "predict2": 0, "unconsulted_bic": 0, "unconsulted_predict": 0}
        # iterations are not part of the oracle any more: "the only candidate above the threshold" is judged over the whole behaviour
        self.n_gt = sum(1 for e in oracle.values() if e["imp"] >= 2)

    def imp_value(self, ids, thr):
        np = self.np
        e = self.oracle.get(frozenset(ids))
        if e is None:     # never consulted by the specification: a large improvement (3 of 4 variants) or exactly the threshold
            self.calls["unconsulted_bic"] += 1
            return thr if self.variant % 4 == 3 else 1.0e6 + 50.0
        r = e["imp"]
        if r == -1:
            return float("nan")
        if r == 0:  # a value below the threshold that can never be the best
            return [-math.inf, thr - 1.0, float(np.nextafter(thr, -np.inf))][self.variant % 3]
        if r == 1:  # exactly the threshold: `>` must reject
            return thr
        if self.variant % 2 == 1 and self.n_gt == 1:
            return float(np.nextafter(thr, np.inf))  # single qualifying candidate: just above threshold
        return 1.0e6 + r

    def partition(self, ids):
        e = self.oracle.get(frozenset(ids))
        if e is None or not e["known"]:   # never requested by the specification: a balanced partition (the most acceptable one)
            self.calls["unconsulted_predict"] += 1
            srt = sorted(ids)
            c1 = set(srt[: len(srt) // 2])
        else:
            c1 = e["c1"]
        return self.np.array([0 if i in c1 else 1 for i in ids], dtype=int)


def make_fake(script):
    np = script.np

    class FakeGaussianMixture:
        def __init__(self, n_components=1, covariance_type="full", max_iter=1000, n_init=1, tol=1e-3,
                     reg_covar=1e-6, random_state=None):
            self.n_components = n_components
            self.covariance_type = covariance_type
            self.max_iter, self.n_init, self.tol, self.reg_covar, self.random_state = max_iter, n_init, tol, reg_covar, random_state
            self.ids = None
            self.weights_ = None
            self.means_ = None
            self.covariances_ = None
            self.n_iter_ = 1
            self.converged_ = True
            self.lower_bound_ = 0.0

        def fit(self, X, sample_weight=None):
            s = script
            X = np.asarray(X, dtype=float)
            if sample_weight is None:
                raise RuntimeError("scripted replay: the fake mixture needs the sample weights (they carry the point ids)")
            ids = tuple(int(round(float(w))) for w in sample_weight)
            if len(ids) != X.shape[0]:
                raise RuntimeError("scripted replay: data and weights differ in length")
            self.ids = ids
            d = X.shape[1]
            k = self.n_components
            s.calls["fit1" if k == 1 else "fit2"] += 1
            cv = s.cov_variant
            if cv == "good":
                full = np.eye(d) * 1e-4
            elif cv == "nan":
                full = np.full((d, d), np.nan)
            elif cv == "negdef":
                full = -np.eye(d)
            else:
                full = np.zeros((d, d))
            if k == 1:
                self.weights_ = np.ones(1)
                self.means_ = X[:1].copy()  # centre of a cluster := its first (lowest-numbered) point
            else:
                self.weights_ = np.full(k, 1.0 / k)
                self.means_ = np.vstack([X[:1]] * (k - 1) + [X[-1:]])
            covs = np.stack([full] * k)
            self.covariances_ = covs if self.covariance_type == "full" else np.stack([np.diag(full).copy()] * k)
            return self

        def bic(self, X):
            s = script
            if self.n_components == 1:
                s.calls["bic1"] += 1
                w = np.array(self.ids, dtype=float)
                thr = s.hgm.threshold_modifier * s.hgm._compute_bic_tolerance(np.asarray(X).shape[1], w)
                return s.imp_value(self.ids, thr)
            s.calls["bic2"] += 1
            return 0.0  # improvement = parent_bic - 0.0 = parent_bic exactly

        def predict(self, X):
            s = script
            m = len(X)
            if self.n_components != 2 or self.ids is None or m != len(self.ids):
                return np.zeros(m, dtype=int)    # not a partition request of the split loop
            s.calls["predict2"] += 1
            return s.partition(self.ids)

    FakeGaussianMixture.__name__ = "GaussianMixture"
    return FakeGaussianMixture


def relabelling(want, got, K):
    """The permutation pi (spec label -> code label) under which the code's labelling IS the specification's partition, or
    (None, reason): every label must lie in [0, K), every spec cluster must map to exactly one code label and vice versa
    (otherwise clusters were merged / split, or a point is unlabelled)."""
    if len(got) != len(want):
        return None, f"{len(got)} labels for {len(want)} points"
    pi = {}
    for p, (a, b) in enumerate(zip(want, got)):
        if not 0 <= b < K:
            return None, f"point {p + 1} has label {b} outside [0, {K})"
        if pi.setdefault(a, b) != b:
            return None, f"spec cluster {a} is split over the code labels {pi[a]} and {b}"
    if len(set(pi.values())) != len(pi):
        return None, "two spec clusters are merged under one code label"
    if sorted(pi) != list(range(K)):
        return None, f"spec labels {sorted(pi)} for K={K}"
    return [pi[j] for j in range(K)], ""


def _js_state(v):
    """JSON-able copy of a state component (the oracle is a function with set-valued keys)."""
    if isinstance(v, dict) and any(isinstance(k, (frozenset, set, tuple)) for k in v):
        return [[sorted(k), _js_state(x)] for k, x in sorted(v.items(), key=lambda t: sorted(t[0]))]
    if isinstance(v, dict):
        return {k: _js_state(x) for k, x in v.items()}
    if isinstance(v, (frozenset, set)):
        return sorted(v)
    if isinstance(v, (tuple, list)):
        return [_js_state(x) for x in v]
    return v


def state_oracle(st):
    """cluster (frozenset of ids) -> answer, from the `oracle` variable of a terminal state."""
    o = st.get("oracle") or {}
    if isinstance(o, dict):
        return {frozenset(k): v for k, v in o.items()}
    if isinstance(o, (list, tuple)):     # JSON form of a replay file: [[ids, answer], ...]
        return {frozenset(k): dict(v, c1=frozenset(v["c1"])) for k, v in o}
    return {}


_SPLIT_RE = re.compile(r"^Iteration (\d+): Split cluster (\d+) into (\d+) and (\d+)")
_STOP_RE = re.compile(r"^No further splits accepted after (\d+) iterations")


def replay_state(ck, np, cluster, st, variant, predicted_tbl, stats, history=None, forced_reuse=None, predict=True):
    """Replay one terminal spec state (pc = done) into the real HierarchicalGaussianMixture.  With `history`, every other
    behaviour is replayed into the object a PREVIOUS behaviour of the same configuration was fitted and queried on
    (action Refit of HGMSplit: fit -> predict -> fit on other data -> predict on one object)."""
    n, mp, mi = st["n"], st["minPts"], st["maxIter"]
    log = list(st["log"])
    oracle = state_oracle(st)
    # configuration variant
    d = 1 + (variant // 2) % 2
    normalize = bool(variant % 2)
    ctype = "diag" if (variant // 4) % 4 == 3 else "full"
    modifier = [1.0, 0.5, 2.5][(variant // 3) % 3]
    use_none = (mp == 2 * d) and (variant // 5) % 2 == 0   # min_points=None -> 2 * n_features
    spacing = [1000.0, 1.0, 0.125][(variant // 7) % 3]
    X = np.zeros((n, d))
    X[:, 0] = spacing * np.arange(1, n + 1)
    if d == 2:
        X[:, 1] = 0.5 * spacing * (np.arange(n) % 2)
    w = np.arange(1, n + 1, dtype=float)   # the weight of a point is its id: the fake decodes clusters from it
    sc = Script(np, oracle, n, d, ctype, variant)
    Fake = make_fake(sc)
    hgm = cluster.HierarchicalGaussianMixture(
        n_init=1, max_iterations=mi, min_points=None if use_none else mp, threshold_modifier=modifier,
        covariance_type=ctype, verbose=True, normalize=normalize)
    hkey = (mp, mi)
    prev = history.get(hkey) if history is not None else None
    reused = prev is not None and (forced_reuse if forced_reuse is not None else (variant // 2) % 3 != 0)   # two of three behaviours refit an existing object
    if reused:
        # HGMSplit!Refit: the object is first fitted (and queried) on the data of an EARLIER behaviour of the same constructor
        # parameters - the one with the most clusters seen so far - under this replay's configuration variant
        st0 = prev
        n0 = st0["n"]
        X0 = np.zeros((n0, d))
        X0[:, 0] = spacing * np.arange(1, n0 + 1)
        if d == 2:
            X0[:, 1] = 0.5 * spacing * (np.arange(n0) % 2)
        sc0 = Script(np, state_oracle(st0), n0, d, ctype, variant)
        sc0.hgm = hgm
        real0 = cluster.GaussianMixture
        cluster.GaussianMixture = make_fake(sc0)
        try:
            with contextlib.redirect_stdout(io.StringIO()), warnings.catch_warnings():
                warnings.simplefilter("ignore")
                hgm.fit(X0, np.arange(1, n0 + 1, dtype=float))
                hgm.predict(X0)
                hgm.predict_proba(X0)
        except Exception:
            reused = False   # the earlier behaviour does not replay under this variant: judged on its own replay, not here
            hgm = cluster.HierarchicalGaussianMixture(
                n_init=1, max_iterations=mi, min_points=None if use_none else mp, threshold_modifier=modifier,
                covariance_type=ctype, verbose=True, normalize=normalize)
        finally:
            cluster.GaussianMixture = real0
        if reused:
            stats["refits"] = stats.get("refits", 0) + 1
            if st["K"] < st0["K"]:
                stats["refits_K_decreased"] = stats.get("refits_K_decreased", 0) + 1
    sc.hgm = hgm
    keep = ("n", "minPts", "maxIter", "clusters", "labels", "K", "log", "splits", "oracle")
    rep = {"state": {k: (_js_state(st.get(k)) if k == "oracle" else st.get(k)) for k in keep},
           "variant": variant, "config": dict(d=d, normalize=normalize, covariance_type=ctype, threshold_modifier=modifier,
                                             min_points=None if use_none else mp, max_iterations=mi, spacing=spacing),
           "refit_of_object_previously_fitted_with_K": prev["K"] if reused else None,
           "previous_behaviour_on_the_same_object": ({k: (_js_state(prev.get(k)) if k == "oracle" else prev.get(k)) for k in keep} if reused else None)}
    real = cluster.GaussianMixture
    out = io.StringIO()
    cluster.GaussianMixture = Fake
    try:
        try:
            with contextlib.redirect_stdout(out):
                hgm.fit(X, w)
        except Exception as ex:
            ck.violation("replayB:fit-raised", f"fit raised {ex!r} on a scripted behaviour", rep)
            return
        stats["replayed"] += 1
        K = st["K"]
        want_labels = [x for x in st["labels"]]
        clusters = st["clusters"]
        # accepted splits as printed by the code (verbose) vs the spec's ghost `splits` - only if the output can be parsed at
        # all (the wording of the messages is not part of the property)
        got_splits, parsed = [], False
        for ln in out.getvalue().splitlines():
            m = _SPLIT_RE.match(ln)
            if m:
                got_splits.append((int(m.group(1)), int(m.group(2))))
                parsed = True
            elif _STOP_RE.match(ln):
                parsed = True
        want_splits = [(s["it"], s["parent"] - 1) for s in st["splits"]]
        for k_, v_ in sc.calls.items():
            stats["calls_" + k_] = stats.get("calls_" + k_, 0) + v_
        got_labels = [int(x) for x in np.asarray(hgm.labels_).ravel()]
        # the property fixes the PARTITION, not the numbering of the clusters: pi = the relabelling spec label -> code label
        pi, why = relabelling(want_labels, got_labels, K)
        bad = None
        if hgm.n_clusters_ != K:
            bad = ("replayB:n-clusters", f"n_clusters_={hgm.n_clusters_}, spec K={K}")
        elif hgm.n_clusters_ > mi + 1:
            bad = ("replayB:cap", f"n_clusters_={hgm.n_clusters_} exceeds cap {mi + 1}")
        elif pi is None:
            bad = ("replayB:labels", f"labels_={got_labels} is not the specification's partition {want_labels} up to a relabelling: {why}")
        elif parsed and pi == list(range(K)) and got_splits != want_splits:
            bad = ("replayB:accepted-splits", f"accepted (iteration, parent) {got_splits}, spec {want_splits}")
        elif parsed and [it for it, _ in got_splits] != [it for it, _ in want_splits]:
            # the printed parent positions depend on the numbering: with another numbering only the iterations are compared
            bad = ("replayB:accepted-splits", f"splits accepted in iterations {[it for it, _ in got_splits]}, spec {[it for it, _ in want_splits]}")
        if parsed:
            stats["splits_compared"] = stats.get("splits_compared", 0) + 1
        if pi is not None and pi != list(range(K)):
            stats["relabelled"] = stats.get("relabelled", 0) + 1
        if bad:
            ck.violation(bad[0], bad[1], rep)
            return
        if want_splits:
            stats["with_split"] += 1
        # ---- predictions
        ckey = tuple(clusters)
        centres_exact = (ctype == "full" or d == 1) and all(len(c) >= d for c in clusters)
        # centre of spec cluster j := its lowest-numbered point (what the fake reports as the mean of that cluster); predict
        # there must give pi(j).  The code's own cluster_centers_ are queried too, for the range only.
        centres = X[[min(c) - 1 for c in clusters]]
        own = np.array(hgm.cluster_centers_, dtype=float).reshape(-1, d)
        lo, hi = X.min(axis=0), X.max(axis=0)
        corners = np.array(list(itertools.product(*[(lo[j], hi[j]) for j in range(d)])))
        unit_corners = np.array(list(itertools.product(*[(0.0, 1.0)] * d)))
        anyq = np.vstack([own, X, X[:1], X[:1], corners, unit_corners, np.full((1, d), 1e6), np.full((1, d), -1e6),
                          np.full((1, d), 1e300), np.zeros((1, d)), 0.5 * (lo + hi)[None, :]])
        covs = ["good"] + ([["nan", "negdef", "zero"][(variant // 3) % 3]] if variant % 3 == 0 else [])
        if not predict:     # light replay (quick tier, deep job): the decisions of fit() only
            covs = []
        for cv in covs:
            if cv != "good":
                # refit with degenerate component covariances: only the range of predictions is compared
                sc2 = Script(np, oracle, n, d, ctype, variant)
                sc2.cov_variant = cv
                sc2.hgm = hgm
                cluster.GaussianMixture = make_fake(sc2)
                try:
                    with contextlib.redirect_stdout(io.StringIO()):
                        hgm.fit(X, w)
                except Exception as ex:
                    ck.violation("replayB:fit-raised", f"fit raised {ex!r} on a scripted behaviour (cov {cv})", rep)
                    return
            ncen = len(centres) if cv == "good" else 0
            Q = np.vstack([centres, anyq]) if ncen else anyq
            try:
                with warnings.catch_warnings():
                    warnings.simplefilter("ignore")
                    got = np.asarray(hgm.predict(Q))
                    proba = np.asarray(hgm.predict_proba(Q))
            except Exception as ex:
                ck.violation("replayB:predict-raised", f"predict/predict_proba raised {ex!r} (cov {cv})", rep)
                return
            stats["predictions"] += len(Q)
            if got.shape != (len(Q),) or not np.issubdtype(got.dtype, np.integer):
                ck.violation("replayB:predict-shape", f"predict returned shape {got.shape} dtype {got.dtype}", rep)
                return
            if proba.shape != (len(Q), K):
                ck.violation("replayB:predict-proba-shape", f"predict_proba shape {proba.shape}, K={K}", rep)
                return
            any_allowed = predicted_tbl.get((ckey, "any", -1))
            if any_allowed is None:
                raise RuntimeError(f"spec has no Predict state for clusters {ckey}")
            for i, g in enumerate(got.tolist()):
                kind = "centre" if i < ncen else "any"
                if kind == "centre" and centres_exact:
                    allowed = predicted_tbl.get((ckey, "centre", i))
                    if allowed is None:
                        raise RuntimeError(f"spec has no Predict state for clusters {ckey} centre {i}")
                    allowed = {pi[a] for a in allowed}
                    stats["centre_exact"] += 1
                else:
                    allowed = any_allowed
                if g not in allowed:
                    key = "replayB:predict-range" if not (0 <= g < K) else "replayB:predict-centre-label"
                    ck.violation(key, f"predict({Q[i].tolist()}) = {g}, spec allows {sorted(allowed)} in the code's numbering (spec label -> code label "
                                      f"{pi}; K={K}, {kind} query, cov {cv})",
                                 dict(rep, query=Q[i].tolist()))
                    return
        if history is not None:
            if hkey not in history or K >= history[hkey]["K"]:
                history[hkey] = st
        if len(ck.samples) < 2 and len(want_splits) >= 2:
            ck.sample({"binding": "B", "n": n, "min_points": mp, "max_iterations": mi, "config": rep["config"],
                       "oracle (cluster -> improvement rank, threshold rank, partition requested, points labelled 0)":
                           [[sorted(c), e["imp"], e["thr"], e["known"], sorted(e["c1"])] for c, e in sorted(oracle.items(), key=lambda t: sorted(t[0]))],
                       "labels": want_labels, "K": K})
    finally:
        cluster.GaussianMixture = real


# --------------------------------------------------------------------------- process-pool plumbing
_G = {}   # per-process: np, cluster (inherited through fork)


class Collector:
    """Stand-in for core.Check inside worker processes: violations / samples are shipped to the parent."""

    def __init__(self, seed, tier):
        self.seed = seed
        self.tier = tier
        self.violations = []
        self.samples = []

    def violation(self, key, what, replay):
        if len(self.violations) < 8:
            self.violations.append((key, what, replay))
        return True

    def sample(self, obj, limit=2):
        if len(self.samples) < limit:
            self.samples.append(obj)


def _replay_chunk(args):
    blocks, start, nvariants, predicted, seed, tier, light = args
    np, cluster = _G["np"], _G["cluster"]
    col = Collector(seed, tier)
    stats = {"replayed": 0, "with_split": 0, "predictions": 0, "centre_exact": 0, "refits": 0, "refits_K_decreased": 0,
             "reevaluated": 0, "lower_position_wins": 0}
    nontrivial = set()
    history = {}
    for j, blk in enumerate(blocks):
        st = tla.parse_state_block(blk)
        for v in range(nvariants):
            variant = ((start + j) * 7 + v * 13 + seed) % 840
            replay_state(col, np, cluster, st, variant, predicted, stats, history, predict=(not light or (start + j) % 4 == 0))
        if st["splits"]:
            nontrivial.add(hash((st["n"], st["minPts"], st["maxIter"], _freeze_log(st["log"]))))
        # antecedents that distinguish a remembering implementation from a re-evaluating one
        seen = [e["ids"] for e in st["log"]]
        if len(seen) != len(set(seen)):
            stats["reevaluated"] += 1          # some cluster is consulted in more than one pass
        if _lower_position_wins(st):
            stats["lower_position_wins"] += 1
    return stats, nontrivial, col.violations, col.samples


def _lower_position_wins(st):
    """Two clusters qualify (improvement above threshold, both children large enough) in the same pass, the one at the LOWER
    position is accepted and the other one - which slides one position down - is split in a later pass."""
    mp = st["minPts"]
    for sp in st["splits"]:
        for e in st["log"]:
            if e["it"] == sp["it"] and e["pos"] > sp["parent"] and e["imp"] >= 2 and e["imp"] > e["thr"]:
                if any(s2["it"] > sp["it"] and s2["ids"] == e["ids"] for s2 in st["splits"]):
                    return True
    return False


def _freeze_log(log):
    return tuple((e["it"], e["pos"], e["imp"], e["asked"], tuple(sorted(e["c1"]))) for e in log)


def run_generator(name, consts, seed, tier, mp_pool, nvariants, light=False):
    """TLC exhaustive run + dispatch of every terminal state to the replay workers."""
    res = tlc.run_tlc("HGMSplit", CFG.format(variant="intended", **consts), dump=True, coverage=True, workers=4, timeout=1500)
    info = {"name": name, "constants": consts, "states": res.distinct, "transitions": res.generated, "depth": res.depth,
            "tlc_wall_s": round(res.wall_s, 1), "coverage": {k: list(v) for k, v in res.coverage.items()}}
    if res.status != "ok":
        info["violated"] = res.violated
        info["error_trace"] = res.error_trace
        res.cleanup()
        return info, []
    predicted = {}
    done_blocks = []
    for blk in iter_dump_blocks(res.dump_path):
        pc = block_pc(blk)
        if pc == "predicted":
            st = tla.parse_state_block(blk)
            q = st["query"]
            predicted.setdefault((tuple(st["clusters"]), q["kind"], q["k"]), set()).add(st["pred"])
        elif pc == "done":
            done_blocks.append(blk)
    res.cleanup()
    info["terminal_states"] = len(done_blocks)
    info["replay"] = ("every terminal behaviour: fit() decisions; predict / predict_proba queries on every 4th (quick tier, deep job)" if light
                      else "every terminal behaviour: fit() decisions and predict / predict_proba queries")
    chunk = 250

    def block_K(blk):
        for ln in blk:
            if ln.startswith("/\\ K = "):
                return int(ln[len("/\\ K = "):])
        return 0
    # deterministic order (TLC's dump order depends on worker scheduling); inside a chunk the behaviours with the most clusters
    # come first, so that the later ones are refits of an object that had MORE clusters before (HGMSplit!Refit)
    done_blocks.sort(key=lambda b: "\n".join(b))
    done_blocks = [b for a in range(0, len(done_blocks), chunk) for b in sorted(done_blocks[a:a + chunk], key=lambda x: -block_K(x))]
    asyncs = [mp_pool.apply_async(_replay_chunk, ((done_blocks[a:a + chunk], a, nvariants, predicted, seed, tier, light),))
              for a in range(0, len(done_blocks), chunk)]
    return info, asyncs


def run_spec_mutant(variant):
    return variant, tlc.run_tlc("HGMSplit", CFG.format(variant=variant, **MUT_CONSTS), workers=2, timeout=600)


# --------------------------------------------------------------------------- binding A: real fits
KINDS = ["separated", "overlapping", "duplicated", "collinear", "identical", "zerovar", "single", "lattice", "boundary", "separated_wide"]
EXTRA0 = 100000      # indices >= EXTRA0: the extra family "two_level" (two groups far apart, each of two or three blobs)
WKINDS = ["unit", "uniform", "exponential", "lognormal6", "nearzero", "exactzero", "integer", "dominant", "zeroblob"]


def gen_case(np, seed, i, tier):
    """Seeded data set + weights + clusterer configuration (see DESIGN.md C15, binding A)."""
    rng = np.random.RandomState((seed * 1000003 + i * 7919 + 15) % (2 ** 32))
    d = 1 + i % 6
    kind = KINDS[(i // 6) % len(KINDS)] if i < EXTRA0 else "two_level"
    wkind = WKINDS[(i // 2 + i // 60) % len(WKINDS)]
    if rng.rand() < 0.25:
        sizes = [2 * d, 2 * d + 1, 4 * d, 8 * d + 1]
    else:
        sizes = [30, 40, 60, 80, 120, 160] + ([200, 300] if tier == "thorough" else [])
    n = max(2 * d, sizes[rng.randint(len(sizes))])
    nb = 1 + rng.randint(4)
    if kind.startswith("separated"):
        nb = max(nb, 2)
    centres = rng.uniform(0.15, 0.85, size=(nb, d))
    assign = rng.randint(nb, size=n)
    if kind.startswith("separated"):
        X = centres[assign] + 0.02 * rng.randn(n, d)
    elif kind == "overlapping":
        X = centres[assign] + rng.uniform(0.08, 0.2) * rng.randn(n, d)
    elif kind == "duplicated":
        m = max(2, n // 5)
        base = centres[rng.randint(nb, size=m)] + 0.05 * rng.randn(m, d)
        X = base[rng.randint(m, size=n)]
    elif kind == "collinear":
        t = rng.rand(n)
        if rng.rand() < 0.5:
            t = np.where(rng.rand(n) < 0.5, 0.1 + 0.05 * t, 0.8 + 0.05 * t)
        a, b = rng.uniform(0.05, 0.45, d), rng.uniform(0.55, 0.95, d)
        X = a + t[:, None] * (b - a)
    elif kind == "identical":
        X = np.tile(rng.uniform(0, 1, d), (n, 1))
    elif kind == "zerovar":
        X = centres[assign] + 0.03 * rng.randn(n, d)
        X[:, rng.randint(d)] = rng.uniform(0, 1)
        if d > 2 and rng.rand() < 0.3:
            X[:, rng.randint(d)] = 0.0
    elif kind == "single":
        X = 0.5 + 0.1 * rng.randn(n, d)
    elif kind == "lattice":
        X = rng.randint(0, 5, size=(n, d)) / 4.0
    elif kind == "two_level":   # two groups far apart, each of two or three blobs (scaled by 50 below: 40 / 5-8 / 0.3)
        per = 2 + rng.randint(2)
        gaps = rng.uniform(0.09, 0.17, size=2)
        grp, blob = rng.randint(2, size=n), rng.randint(per, size=n)
        X = np.full((n, d), 0.02) + 0.006 * rng.randn(n, d)
        X[:, 0] += 0.8 * grp
        X[:, -1] += gaps[grp] * blob
    else:  # boundary: mass piled up on the faces of the cube
        X = 0.5 + 0.6 * rng.randn(n, d)
    X = np.clip(X, 0.0, 1.0)
    scaled = None
    if kind == "separated_wide":      # same blobs in the cube [-5, 5]^d
        scaled = (10.0, -5.0)
        X = X * 10.0 - 5.0
    elif kind == "two_level":
        scaled = (50.0, 0.0)
        X = X * 50.0
    elif rng.rand() < 0.12:
        scaled = [(1e3, 0.0), (1e-3, 0.0), (1.0, 100.0), (10.0, -5.0)][rng.randint(4)]
        X = X * scaled[0] + scaled[1]
    if wkind == "unit":
        w = None
    elif wkind == "uniform":
        w = rng.rand(n) + 1e-3
    elif wkind == "exponential":
        w = rng.exponential(size=n)
    elif wkind == "lognormal6":
        w = np.exp(6.0 * rng.randn(n))
    elif wkind == "nearzero":
        w = np.where(rng.rand(n) < 0.9, 10.0 ** rng.uniform(-300, -12, n), rng.rand(n) + 0.1)
    elif wkind == "exactzero":
        w = np.where(rng.rand(n) < 0.5, 0.0, rng.rand(n) + 0.1)
    elif wkind == "integer":
        w = rng.randint(1, 6, size=n).astype(float)
    elif wkind == "dominant":
        w = np.full(n, 1e-9)
        w[rng.randint(n)] = 1.0
    else:  # zeroblob: one whole generating blob has exactly zero weight
        w = rng.rand(n) + 0.1
        if nb > 1:
            w[assign == 0] = 0.0
    if w is not None and not np.sum(w) > 0:
        w[rng.randint(n)] = 1.0
    normalize = bool(rng.randint(2))
    modifier = [0.05, 0.5, 1.0, 1.0, 2.0, 10.0][rng.randint(6)]
    if rng.rand() < 0.75:   # exactly as SamplerCore constructs the clusterer
        nmax = [None, None, 1, 2, 3, 5][rng.randint(6)]
        max_iterations = 1000 if nmax is None else nmax - 1
        min_points = None if nmax is None else 4 * d
        style = "sampler"
    else:
        max_iterations = [0, 1, 2, 5][rng.randint(4)]
        min_points = [None, 1, 2, d + 1, 3 * d][rng.randint(5)]
        style = "free"
    ctype = "diag" if rng.rand() < 0.2 else "full"
    return dict(i=i, d=d, n=n, kind=kind, wkind=wkind, scaled=scaled, X=X, w=w, normalize=normalize, modifier=modifier,
                max_iterations=max_iterations, min_points=min_points, style=style, ctype=ctype)


def monitor_fit(np, gm, X, sample_weight):
    """The mixture predicates of the property's first sentence, evaluated on one fitted GaussianMixture.
    MONITORING of a numerical routine - not decided by the model.  Returns {predicate: detail} of the failed
    predicates (thresholds: weight sum within 1e-9, asymmetry / min eigenvalue within 1e-12 of the matrix
    scale, mean within 1e-9 (relative) of the bounding box for components of weight > 1e-6).  Predicates whose
    name ends in '!' are GROSS failures (non-finite parameters, negative weights, sum off by > 1e-9,
    asymmetric / indefinite covariance, mean outside the box by > 1e-6 of the data scale)."""
    bad = {}
    k = gm.n_components
    wt = np.asarray(gm.weights_, dtype=float)
    if not np.all(np.isfinite(wt)):
        bad["nonfinite_parameters!"] = {"weights": wt.tolist()}
    else:
        if np.any(wt < 0):
            bad["weights_nonneg!"] = float(wt.min())
        if abs(float(wt.sum()) - 1.0) > 1e-9:
            bad["weights_sum_one!"] = float(wt.sum())
    cov = np.asarray(gm.covariances_, dtype=float)
    mats = [cov[j] if gm.covariance_type == "full" else np.diag(cov[j]) for j in range(k)]
    for j, C in enumerate(mats):
        if not np.all(np.isfinite(C)):
            bad.setdefault("nonfinite_parameters!", {}).setdefault("covariances", []).append(j)
            continue
        scale = max(1.0, float(np.max(np.abs(C))))
        if float(np.max(np.abs(C - C.T))) > 1e-12 * scale:
            bad.setdefault("cov_symmetric!", []).append((j, float(np.max(np.abs(C - C.T)))))
        ev = float(np.linalg.eigvalsh(0.5 * (C + C.T)).min())
        if ev < -1e-12 * scale:
            bad.setdefault("cov_psd!", []).append((j, ev))
    mu = np.asarray(gm.means_, dtype=float)
    lo, hi = X.min(axis=0), X.max(axis=0)
    size = np.maximum(hi - lo, np.maximum(np.abs(lo), np.abs(hi))) + 1e-300
    for j in range(k):
        if np.all(np.isfinite(wt)) and wt[j] > 1e-6:
            if not np.all(np.isfinite(mu[j])):
                bad.setdefault("nonfinite_parameters!", {}).setdefault("means", []).append(j)
            else:
                out = float(np.max(np.maximum(lo - mu[j], mu[j] - hi) / size))   # excursion relative to the data scale
                if out > 1e-6:
                    bad.setdefault("mean_in_bbox!", []).append((j, float(wt[j]), out))
                elif out > 1e-9:
                    bad.setdefault("mean_in_bbox_tiny", []).append((j, float(wt[j]), out))
    return bad


def _tokens(np, X, w):
    """One byte token per row: its coordinates and its sample weight (exact doubles)."""
    X = np.ascontiguousarray(X, dtype=float)
    w = np.ones(len(X)) if w is None else np.ascontiguousarray(w, dtype=float)
    return [X[i].tobytes() + w[i].tobytes() for i in range(len(X))]


def make_logging(np, real, rec):
    """Logging subclass: every fit / bic / predict of every instance is recorded under the CONTENT of the data set the model
    was fitted on (rows and sample weights), so the record does not depend on the order, number or grouping of the calls."""
    class LoggingGaussianMixture(real):
        def fit(self, X, sample_weight=None):
            ent = {"k": self.n_components, "ctype": self.covariance_type, "n": int(len(X)), "monitor": None, "raised": None}
            rec["gm"].append(ent)
            self._ent = ent
            try:
                Xa = np.array(X, dtype=float)
                wa = None if sample_weight is None else np.array(sample_weight, dtype=float)
                toks = _tokens(np, Xa, wa)
                ent["key"] = tuple(toks)
                ent["X"], ent["w"] = Xa, (np.ones(len(Xa)) if wa is None else wa)
                rec["fits"].setdefault((self.n_components, ent["key"]), {"bic": [], "part": [], "X": Xa, "w": ent["w"]})
            except Exception:
                ent["key"] = None
            try:
                super().fit(X, sample_weight)
            except Exception as ex:
                ent["raised"] = repr(ex)
                raise
            ent["monitor"] = monitor_fit(np, self, np.asarray(X), sample_weight)
            if ent["monitor"]:
                ent["input"] = (np.array(X, dtype=float), None if sample_weight is None else np.array(sample_weight, dtype=float))
            return self

        def bic(self, X):
            v = super().bic(X)
            ent = getattr(self, "_ent", None)
            if ent is not None and ent.get("key") is not None:
                Xa = np.asarray(X, dtype=float)
                if Xa.shape == ent["X"].shape and np.array_equal(Xa, ent["X"], equal_nan=True):   # scored on its own training set
                    rec["fits"][(ent["k"], ent["key"])]["bic"].append(float(v))
                else:
                    rec["foreign_calls"] += 1
            return v

        def predict(self, X):
            lab = super().predict(X)
            ent = getattr(self, "_ent", None)
            if ent is not None and ent.get("key") is not None:
                Xa = np.asarray(X, dtype=float)
                if Xa.shape == ent["X"].shape and np.array_equal(Xa, ent["X"], equal_nan=True):
                    rec["fits"][(ent["k"], ent["key"])]["part"].append(tuple(int(x) for x in lab))
                else:
                    rec["foreign_calls"] += 1
            return lab

    LoggingGaussianMixture.__name__ = "GaussianMixture"
    return LoggingGaussianMixture


def _same(a, b):
    return a == b or (isinstance(a, float) and isinstance(b, float) and math.isnan(a) and math.isnan(b))


def observed_oracle(np, rec, n, X_in, w_in, normalize, modifier):
    """The observed oracle of one real fit as a function of the cluster, from everything the logging subclass saw.
    Returns (entries, info): entries = [{"ids": sorted 0-based ids, "imp": float, "thr": float, "part": labels by position or
    None}] for every cluster reachable from the root through observed partitions whose improvement and threshold were observed
    CONSISTENTLY; info counts what could not be bound."""
    info = {"inconsistent_improvement": 0, "inconsistent_partition": 0, "inconsistent_threshold": 0, "root_observed": False,
            "clusters_reachable": 0, "matched_by_multiset": 0}
    wfull = np.ones(n) if w_in is None else np.asarray(w_in, dtype=float)
    # the data as the code sees them (normalised or not): the observed data set with n rows, in index order
    Xfull = None
    ref = np.asarray(X_in, dtype=float)
    if normalize:
        lo, hi = ref.min(axis=0), ref.max(axis=0)
        ref = (ref - lo) / (hi - lo + 1e-10)
    for (k, key), f in rec["fits"].items():
        if len(key) == n and np.array_equal(f["w"], wfull) and np.allclose(f["X"], ref, rtol=1e-9, atol=1e-12, equal_nan=True):
            Xfull = f["X"]
            break
    if Xfull is None:
        return [], info
    info["root_observed"] = True
    toks = _tokens(np, Xfull, wfull)
    wtok = [wfull[i].tobytes() for i in range(n)]
    by_multiset = {}
    for (k, key), f in rec["fits"].items():
        by_multiset.setdefault((k, tuple(sorted(key))), []).append((k, key))
    tol = {}
    for wkey, v in rec["tol"]:
        tol.setdefault(wkey, []).append(v)
    tol_ms = {}
    for wkey, vs in tol.items():
        tol_ms.setdefault(tuple(sorted(wkey)), []).extend(vs)

    def lookup(k, ids):
        key = tuple(toks[i] for i in ids)
        f = rec["fits"].get((k, key))
        if f is not None:
            return f, key
        alts = by_multiset.get((k, tuple(sorted(key))), [])
        if len(alts) == 1:          # the same rows in another order (an implementation that reorders its index lists)
            info["matched_by_multiset"] += 1
            return rec["fits"][alts[0]], alts[0][1]
        return None, None

    entries, queue, seen = [], [tuple(range(n))], set()
    while queue and len(seen) < 4 * n + 16:
        ids = queue.pop(0)
        if ids in seen or not ids:
            continue
        seen.add(ids)
        f1, _ = lookup(1, ids)
        f2, key2 = lookup(2, ids)
        imp = None
        if f1 is not None and f2 is not None and f1["bic"] and f2["bic"]:
            if all(_same(v, f1["bic"][0]) for v in f1["bic"]) and all(_same(v, f2["bic"][0]) for v in f2["bic"]):
                imp = f1["bic"][0] - f2["bic"][0]
            else:
                info["inconsistent_improvement"] += 1
        part = None
        if f2 is not None and f2["part"]:
            if all(p_ == f2["part"][0] for p_ in f2["part"]):
                # labels by row content (predict is a function of the row): robust against a different row order
                xmap, okp = {}, True
                xb = [f2["X"][j].tobytes() for j in range(len(key2))]
                for j, lab in enumerate(f2["part"][0]):
                    if xmap.setdefault(xb[j], lab) != lab:
                        okp = False
                if okp:
                    part = [xmap[Xfull[i].tobytes()] for i in ids]
                else:
                    info["inconsistent_partition"] += 1
            else:
                info["inconsistent_partition"] += 1
        wk = tuple(wtok[i] for i in ids)
        tv = tol.get(wk) or tol_ms.get(tuple(sorted(wk)))
        thr = None
        if tv:
            if all(_same(v, tv[0]) for v in tv):
                thr = modifier * tv[0]
            else:
                info["inconsistent_threshold"] += 1
        if part is not None:
            queue.append(tuple(i for i, lab in zip(ids, part) if lab == 0))
            queue.append(tuple(i for i, lab in zip(ids, part) if lab == 1))
        if imp is not None and thr is not None:
            entries.append({"ids": ids, "imp": imp, "thr": thr, "part": part})
    info["clusters_reachable"] = len(seen)
    return entries, info


def well_posed(np, X, w, k):
    """'Clearly well-posed' input of one mixture fit - the rule under which a GROSS monitored failure is
    reported as a violation: finite data with |x| <= 1e6, finite non-negative weights of positive sum, at least
    4*k*(d+1) distinct points among those that carry non-negligible weight (>= 1e-6 of the largest), every
    coordinate of those points spreads over >= 1e-3, and they are not (nearly) confined to a lower-dimensional
    subspace (smallest / largest singular value of the centred points >= 1e-3)."""
    n, d = X.shape
    if not np.all(np.isfinite(X)) or np.max(np.abs(X)) > 1e6:
        return False
    ww = np.ones(n) if w is None else np.asarray(w, dtype=float)
    if not np.all(np.isfinite(ww)) or np.any(ww < 0) or not ww.sum() > 0:
        return False
    eff = X[ww >= 1e-6 * ww.max()]
    if len(np.unique(eff, axis=0)) < 4 * k * (d + 1):
        return False
    if not np.all(eff.max(axis=0) - eff.min(axis=0) >= 1e-3):
        return False
    sv = np.linalg.svd(eff - eff.mean(axis=0), compute_uv=False)     # not (nearly) confined to a subspace
    return bool(sv.min() >= 1e-3 * sv.max())


def fixed_case(np, j):
    """Deterministic witnesses that are part of every run (index -1 - j)."""
    rng = np.random.RandomState(1500 + j)
    base = dict(i=-1 - j, scaled=None, normalize=False, modifier=1.0, max_iterations=1000, min_points=None, style="sampler",
                ctype="full", w=None, wkind="unit")
    if j == 0:    # two unit-variance blobs 100 apart
        X = np.vstack([rng.randn(30, 2), rng.randn(30, 2) + 100.0])
        return dict(base, kind="fixed:two-blobs-100-apart", X=X, scaled=(1.0, 0.0))
    if j == 1:
        X = np.vstack([rng.randn(40, 1), rng.randn(40, 1) + 100.0])
        return dict(base, kind="fixed:two-blobs-100-apart", X=X, scaled=(1.0, 0.0), ctype="diag")
    if j == 2:
        return dict(base, kind="fixed:identical", X=np.full((24, 3), 0.3), normalize=True)
    if j == 3:
        X = rng.rand(60, 3)
        X[:, 1] = 0.5
        return dict(base, kind="fixed:zero-variance-coordinate", X=X, normalize=True, modifier=0.05)
    if j == 4:    # well separated blobs in the cube, one of them with exactly zero weight
        X = np.clip(np.vstack([0.2 + 0.02 * rng.randn(40, 2), 0.8 + 0.02 * rng.randn(40, 2)]), 0, 1)
        return dict(base, kind="fixed:zero-weight-blob", X=X, w=np.r_[np.ones(40), np.zeros(40)], wkind="zeroblob", normalize=True, modifier=0.05)
    if j == 5:    # as the sampler with a cap: n_max_clusters = 2, d = 2
        X = np.clip(np.vstack([0.2 + 0.02 * rng.randn(40, 2), 0.5 + 0.02 * rng.randn(40, 2), 0.8 + 0.02 * rng.randn(40, 2)]), 0, 1)
        return dict(base, kind="fixed:three-blobs-cap-2", X=X, normalize=True, max_iterations=1, min_points=8)
    if j == 6:
        X = np.clip(np.vstack([0.2 + 0.02 * rng.randn(50, 1), 0.8 + 0.02 * rng.randn(50, 1)]), 0, 1)
        return dict(base, kind="fixed:two-blobs-1d", X=X, normalize=True, w=np.exp(6 * rng.randn(100)), wkind="lognormal6")
    if j in (7, 8):
        X = np.repeat(rng.rand(4, 2), 15, axis=0)
        return dict(base, kind="fixed:four-points-replicated", X=X, normalize=bool(j % 2), modifier=0.05)
    if j < 9 + len(TWO_LEVEL):
        # two-level hierarchy: two groups far apart, each made of two blobs; after the first split BOTH children qualify in the same
        # pass (in several of these the lower-positioned one wins and the other one, which slides down one position, is split next)
        t = TWO_LEVEL[j - 9]
        return dict(base, kind="fixed:two-level-hierarchy", X=two_level_data(np, t), scaled=(1.0, 0.0), normalize=bool(t % 2),
                    min_points=4 * (1 + t % 3), max_iterations=[1000, 12][t % 2])
    # importance-weight-like skew: a compact group holds essentially all the weight, a few far points hold a share of 5e-4 in
    # total; a two-component fit that seeds its second component there ends with a mixing weight far below 1e-3
    t = j - 9 - len(TWO_LEVEL)
    d = 1 + t % 3
    n_main, n_far = 150, 2 * d + 2
    X = np.vstack([rng.randn(n_main, d), [100.0, 300.0][(t // 3) % 2] + 0.5 * rng.randn(n_far, d)])
    w = np.r_[np.ones(n_main), np.full(n_far, 5e-4 * n_main / n_far)]
    return dict(base, kind="fixed:far-group-tiny-weight", X=X, w=w, wkind="fartiny", scaled=(1.0, 0.0), ctype=["full", "diag"][(t // 2) % 2])


TWO_LEVEL = [4, 18, 41, 0, 28, 30]


def two_level_data(np, t):
    rng = np.random.RandomState(1700 + t)
    d = 1 + t % 3
    gaps = [(5.0, 8.0), (8.0, 5.0)][(t // 3) % 2]
    pts = []
    for g in range(2):
        for b in range(2):
            c = np.zeros(d)
            c[0] = 40.0 * g
            c[-1] += gaps[g] * b
            pts.append(c + 0.3 * rng.randn(30, d))
    X = np.vstack(pts)
    if (t // 6) % 2:
        X = X[rng.permutation(len(X))]
    return X


N_FIXED = 9 + len(TWO_LEVEL) + 6


def _real_case(args):
    """Worker: one real HierarchicalGaussianMixture fit with the logging mixture installed."""
    seed, i, tier = args
    np, cluster = _G["np"], _G["cluster"]
    if i < 0:
        c = fixed_case(np, -1 - i)
        c["d"], c["n"] = c["X"].shape[1], c["X"].shape[0]
    else:
        c = gen_case(np, seed, i, tier)
    return run_case(c, seed)


def run_case(c, seed):
    np, cluster = _G["np"], _G["cluster"]
    X, w, d, n = c["X"], c["w"], c["d"], c["n"]
    cfg = {k: c[k] for k in ("i", "d", "n", "kind", "wkind", "scaled", "normalize", "modifier", "max_iterations", "min_points", "style", "ctype")}
    out = {"cfg": cfg, "violations": [], "monitor": [], "trace": None, "fits": 0, "wall": 0.0}
    rep = dict(cfg, seed=seed, X=X.tolist(), w=None if w is None else w.tolist())
    rec = {"gm": [], "tol": [], "fits": {}, "foreign_calls": 0}
    real = cluster.GaussianMixture
    t0 = time.time()
    hgm = cluster.HierarchicalGaussianMixture(n_init=1, max_iterations=c["max_iterations"], min_points=c["min_points"],
                                              threshold_modifier=c["modifier"], covariance_type=c["ctype"], normalize=c["normalize"],
                                              verbose=True)
    orig_tol = hgm._compute_bic_tolerance

    def tol_wrapper(nf, weights):
        v = orig_tol(nf, weights)
        try:
            wa = np.ascontiguousarray(weights, dtype=float)
            rec["tol"].append((tuple(wa[i].tobytes() for i in range(len(wa))), float(v)))
        except Exception:
            pass
        return v

    hgm._compute_bic_tolerance = tol_wrapper
    cluster.GaussianMixture = make_logging(np, real, rec)
    rng_state = np.random.get_state()
    text = io.StringIO()
    pred = proba = Q = None
    try:
        with warnings.catch_warnings(), contextlib.redirect_stdout(text):
            warnings.simplefilter("ignore")
            old = np.seterr(all="ignore")
            try:
                try:
                    hgm.fit(X, None if w is None else w.copy())
                except Exception as ex:
                    out["violations"].append((f"realfit:fit-raised:{type(ex).__name__}",
                                              f"HierarchicalGaussianMixture.fit raised {ex!r} on {c['kind']} data (n={n}, d={d}, weights {c['wkind']}, "
                                              f"normalize={c['normalize']}, {c['ctype']})", rep))
                    hgm = None
                fit_text = text.getvalue()
                # ---- queries
                if hgm is not None:
                    corners = np.array(list(itertools.product(*[(0.0, 1.0)] * d)))
                    lo, hi = X.min(axis=0), X.max(axis=0)
                    Q = np.vstack([X, X[: min(5, n)], X[: min(5, n)], corners, corners * (hi - lo) + lo, np.full((1, d), 1e6), np.full((1, d), -1e6),
                                   np.zeros((1, d)), np.full((1, d), 0.5), 1e6 * np.eye(d)])
                    try:
                        pred = np.asarray(hgm.predict(Q))
                        proba = np.asarray(hgm.predict_proba(Q))
                    except Exception as ex:
                        out["violations"].append((f"realfit:predict-raised:{type(ex).__name__}", f"predict/predict_proba raised {ex!r}", rep))
                        pred = None
            finally:
                np.seterr(**old)
    finally:
        cluster.GaussianMixture = real
        np.random.set_state(rng_state)
    out["wall"] = time.time() - t0
    out["fits"] = len(rec["gm"])
    # ---- monitored mixture predicates (every GaussianMixture.fit of this run)
    for ent in rec["gm"]:
        if ent["monitor"]:
            Xi, wi = ent.pop("input")
            out["monitor"].append({"k": ent["k"], "ctype": ent["ctype"], "n": ent["n"], "failed": ent["monitor"],
                                   "well_posed": well_posed(np, Xi, wi, ent["k"]), "X": Xi, "w": wi, "case": cfg})
    if hgm is None:
        return out
    # ---- projection: the observed oracle (a function of the cluster) + the outcome of the fit
    entries, info = observed_oracle(np, rec, n, X, w, c["normalize"], hgm.threshold_modifier)
    vals = sorted({v for e in entries for v in (e["imp"], e["thr"]) if not math.isnan(v)})
    rank = {}
    r = 1
    for v in vals:
        if v == -math.inf:
            rank[v] = 0
        else:
            rank[v] = r
            r += 1
    rk = lambda v: -1 if math.isnan(v) else rank[v]  # noqa: E731
    orc = tuple({"ids": frozenset(i + 1 for i in e["ids"]), "imp": rk(e["imp"]), "thr": rk(e["thr"]), "known": e["part"] is not None,
                 "c1": frozenset(i + 1 for i, lab in zip(e["ids"], e["part"] or ()) if lab == 0)} for e in entries)
    # accepted splits as printed (only if the output can be parsed at all: the wording is not part of the property)
    got_splits, parsed = [], False
    for ln in fit_text.splitlines():
        m = _SPLIT_RE.match(ln)
        if m:
            got_splits.append((int(m.group(1)), int(m.group(2)) + 1))
            parsed = True
        elif _STOP_RE.match(ln):
            parsed = True
    try:
        K_code = int(hgm.n_clusters_)
        labels = tuple(int(x) for x in np.asarray(hgm.labels_).ravel())
    except Exception as ex:
        out["violations"].append(("realfit:labels-malformed", f"labels_ / n_clusters_ unreadable after fit: {ex!r}", rep))
        return out
    preds = frozenset()
    nq = 0
    if pred is not None:
        if pred.shape != (len(Q),) or not np.issubdtype(pred.dtype, np.integer):
            out["violations"].append(("realfit:predict-shape", f"predict returned shape {pred.shape} dtype {pred.dtype}", rep))
        else:
            preds = frozenset(int(x) for x in pred)
            nq = int(len(Q))
            if proba.shape != (len(Q), K_code):
                out["violations"].append(("realfit:predict-proba-shape", f"predict_proba shape {proba.shape}, n_clusters_={hgm.n_clusters_}", rep))
    mp_eff = c["min_points"] if c["min_points"] is not None else 2 * d
    out["trace"] = {"n": n, "minPts": int(mp_eff), "maxIter": int(c["max_iterations"]), "orc": orc, "K": K_code, "labels": labels,
                    "preds": preds, "hasSplits": parsed, "splits": tuple(got_splits)}
    out["summary"] = {"oracle_entries": len(orc), "partitions": sum(1 for e in orc if e["known"]), "K": K_code, "queries": nq,
                      "gm_calls": {"fits_1": sum(1 for e in rec["gm"] if e["k"] == 1), "fits_2": sum(1 for e in rec["gm"] if e["k"] == 2)},
                      "info": info, "splits_parsed": parsed,
                      "raw": [(len(e["ids"]), e["imp"], e["thr"], e["part"] is not None) for e in entries][:12]}
    out["rep"] = rep
    return out


TRACE_INV = INVARIANTS + ["TraceProgress"]
TRACE_CFG = """INIT TraceInit
NEXT TraceNext
CONSTANTS
  Ns = {1}
  MinPtsSet = {1}
  MaxIterSet = {1}
  R = 1
  LowKinds = {"thr"}
  Variant = "intended"
""" + "".join(f"INVARIANT {i}\n" for i in TRACE_INV) + "CHECK_DEADLOCK FALSE\n"
_VERDICT = re.compile(r'^<<"VERDICT", (\d+), "([^"]+)", (TRUE|FALSE), (TRUE|FALSE)>>', re.M)


def trace_module(traces):
    body = ",\n".join("  " + tla.to_tla(t) for t in traces)
    return ("---------------------------- MODULE HGMTraceData ----------------------------\n"
            "EXTENDS Integers\n\nTraces == <<\n" + body + "\n>>\n"
            "=============================================================================\n")


def validate_batch(traces):
    """Validate a batch of real fits with TLC: HGMTrace runs the specification with the observed oracle of each fit and
    compares its outcome.  Returns (verdicts, tlc totals): verdicts[i] is ("accepted",) | ("rejected", clause) |
    ("inconclusive", what) | ("invariant", name, error_trace).  Verdicts are total."""
    verdicts = [None] * len(traces)
    totals = {"states": 0, "transitions": 0, "runs": 0, "coverage": {}}
    alive = list(range(len(traces)))
    for _ in range(6):
        if not alive:
            break
        res = tlc.run_tlc("HGMTrace", TRACE_CFG, coverage=True, workers=2, timeout=1500,
                          extra_modules={"HGMTraceData.tla": trace_module([traces[i] for i in alive])})
        totals["states"] += res.distinct
        totals["transitions"] += res.generated
        totals["runs"] += 1
        for k, (dd, tt) in res.coverage.items():
            od, ot = totals["coverage"].get(k, (0, 0))
            totals["coverage"][k] = (od + dd, ot + tt)
        if res.status == "violation":
            last = res.error_trace[-1][1] if res.error_trace else {}
            t = last.get("tid")
            if not isinstance(t, int):
                raise RuntimeError("TLC reported a violation on HGMTrace without a tid:\n" + res.stdout[-2000:])
            verdicts[alive[t - 1]] = ("invariant", res.violated, res.error_trace)
            res.cleanup()
            del alive[t - 1]
            continue
        if res.status != "ok":
            raise RuntimeError("HGMTrace: unexpected TLC verdict\n" + res.stdout[-2000:])
        got, flags = {}, {}
        for m in _VERDICT.finditer(res.stdout):
            got.setdefault(int(m.group(1)), set()).add(m.group(2))
            flags[int(m.group(1))] = {"lower_position_wins": m.group(3) == "TRUE", "relabelled": m.group(4) == "TRUE"}
        res.cleanup()
        for pos, i in enumerate(alive, start=1):
            vs = got.get(pos, set())
            if len(vs) != 1:
                raise RuntimeError(f"trace validation: {len(vs)} verdicts for trace {pos} of the batch ({sorted(vs)})")
            v = next(iter(vs))
            if v == "accepted":
                verdicts[i] = ("accepted", flags[pos])
            elif v.startswith("inconclusive:"):
                verdicts[i] = ("inconclusive", v.split(":", 1)[1])
            else:
                verdicts[i] = ("rejected", v)
        alive = []
    for i, v in enumerate(verdicts):
        if v is None:
            raise RuntimeError("trace validation did not reach a verdict for every trace")
    return verdicts, totals


# --------------------------------------------------------------------------- replication clause (relational, GMMPair.tla)
def make_pair_logger(np, real, rec):
    """Logging subclass for the two-run coupling: records the initial picks (as row indices, observed on the
    data array itself), the uniforms drawn, the initial parameters and, per EM iteration, the M-step output
    and the lower bound."""

    class PickView(np.ndarray):
        def __array_finalize__(self, obj):
            self._src = False

        def __getitem__(self, idx):
            if getattr(self, "_src", False) and isinstance(idx, (int, np.integer)):
                rec["picks"].append(int(idx))
            return super().__getitem__(idx)

    class RngProxy:
        def __init__(self, inner):
            self.inner = inner

        def rand(self, *a):
            v = self.inner.rand(*a)
            rec["r"].append(float(v))
            return v

        def __getattr__(self, name):
            return getattr(self.inner, name)

    class PairGaussianMixture(real):
        def fit(self, X, sample_weight=None):
            rec.update(picks=[], r=[], init=None, iters=[], stage="pre", cur=None)
            try:
                return super().fit(X, sample_weight)
            finally:
                rec["stage"] = "done"

        def _initialize_parameters(self, X, sample_weight):
            rec["stage"] = "init"
            v = np.asarray(X).view(PickView)
            v._src = True
            had = "_rng" in self.__dict__
            inner = getattr(self, "_rng", np.random)
            self._rng = RngProxy(inner)
            try:
                out = super()._initialize_parameters(v, sample_weight)
            finally:
                if had:
                    self._rng = inner
                else:
                    del self._rng
            out = tuple(np.array(o, dtype=float) for o in out)
            rec["init"] = out
            rec["init_sw"] = np.array(sample_weight, dtype=float)
            rec["stage"] = "em"
            return out

        def _m_step(self, X, responsibilities, sample_weight):
            out = super()._m_step(X, responsibilities, sample_weight)
            if rec["stage"] == "em":
                rec["cur"] = tuple(np.array(o, dtype=float) for o in out)
            return out

        def _compute_lower_bound(self, X, weights, means, covariances, sample_weight):
            v = super()._compute_lower_bound(X, weights, means, covariances, sample_weight)
            if rec["stage"] == "em":
                rec["iters"].append(rec["cur"] + (float(v),))
                rec["cur"] = None
            return v

    return PairGaussianMixture


def gen_pair_case(np, seed, j, attempt):
    rng = np.random.RandomState((seed * 1000003 + j * 104729 + attempt * 15485863 + 1515) % (2 ** 32))
    d = 1 + j % 3
    K = [2, 3, 2, 3, 2, 1][(j // 3) % 6]
    ctype = "diag" if (j // 2) % 3 == 2 else "full"
    n = int(rng.randint(20, 121))
    nb = max(K, 2)
    layout = ["overlapping", "separated", "overlapping"][(j // 6) % 3]
    sep = float(rng.choice([1.0, 1.5, 2.0, 2.5])) if layout == "overlapping" else float(rng.choice([6.0, 9.0]))
    dirs = rng.randn(nb, d)
    dirs /= np.linalg.norm(dirs, axis=1, keepdims=True) + 1e-12
    cen = np.cumsum(dirs * sep, axis=0)
    X = cen[rng.randint(nb, size=n)] + rng.randn(n, d)
    wk = ["uniform15", "skewed", "geometric", "onebig"][(j // 4) % 4]
    if wk == "uniform15":
        k = rng.randint(1, 6, size=n)
    elif wk == "skewed":
        k = np.where(rng.rand(n) < 0.85, 1, 5)
    elif wk == "geometric":
        k = np.minimum(rng.geometric(0.5, size=n), 5)
    else:
        k = rng.randint(1, 3, size=n)
        k[rng.randint(n)] = 5
    return dict(j=j, attempt=attempt, d=d, K=K, ctype=ctype, n=n, layout=layout, sep=sep, wkind=wk, X=X, k=k.astype(int),
                random_state=int(rng.randint(0, 1000)))


def _pair_case(args):
    """Worker: fit(X, k) and fit(repeat(X, k)) with the logging subclass; returns both logs."""
    seed, j, attempt = args
    np, cluster = _G["np"], _G["cluster"]
    c = gen_pair_case(np, seed, j, attempt)
    return run_pair(c)


def run_pair(c):
    np, cluster = _G["np"], _G["cluster"]
    X, k = c["X"], c["k"]
    owner = np.repeat(np.arange(len(X)), k)
    Xr = X[owner]
    out = {"case": {q: c[q] for q in ("j", "attempt", "d", "K", "ctype", "n", "layout", "sep", "wkind", "random_state")},
           "X": X, "k": k, "raised": None, "runs": []}
    for which, (data, sw) in (("A", (X, k.astype(float))), ("B", (Xr, None))):
        rec = {}
        G = make_pair_logger(np, cluster.GaussianMixture, rec)
        g = G(n_components=c["K"], covariance_type=c["ctype"], n_init=1, random_state=c["random_state"])
        with warnings.catch_warnings():
            warnings.simplefilter("ignore")
            old = np.seterr(all="ignore")
            try:
                g.fit(data, sw)
                pred = np.asarray(g.predict(X))
                bic = float(g.bic(X))
            except Exception as ex:
                out["raised"] = f"run {which}: {ex!r}"
                return out
            finally:
                np.seterr(**old)
        picks = [int(owner[p]) for p in rec["picks"]] if which == "B" else list(rec["picks"])
        margin = posterior_margin(np, g, X)
        out["runs"].append({"picks": picks, "r": rec["r"], "init": rec["init"], "init_sw": rec["init_sw"], "iters": rec["iters"],
                            "fitted": (np.array(g.weights_, dtype=float), np.array(g.means_, dtype=float), np.array(g.covariances_, dtype=float)),
                            "n_iter": int(g.n_iter_), "pred": pred, "margin": margin, "bic": bic, "tol": float(g.tol), "max_iter": int(g.max_iter)})
    return out


RTOL = 1e-9
TIE = 1e-6     # log-posterior margin below which a predicted label is a (near-)tie between two components: not compared


def posterior_margin(np, g, X):
    """Per query point: difference between the two largest component log-posteriors of a fitted mixture (inf for a
    single component).  Points whose margin is <= TIE are exact or rounding-level ties - which component wins there is not
    determined by the fitted model up to 1e-9 - and are left out of the prediction comparison (counted)."""
    from scipy.stats import multivariate_normal
    k = int(g.n_components)
    if k < 2:
        return np.full(len(X), np.inf)
    lp = np.full((len(X), k), -np.inf)
    cov = np.asarray(g.covariances_, dtype=float)
    for j in range(k):
        C = cov[j] if g.covariance_type == "full" else np.diag(cov[j])
        try:
            lp[:, j] = np.log(float(g.weights_[j]) + 1e-10) + multivariate_normal.logpdf(
                X, mean=np.asarray(g.means_[j], dtype=float), cov=C + np.eye(C.shape[0]) * float(g.reg_covar), allow_singular=True)
        except Exception:
            pass
    srt = np.sort(lp, axis=1)
    with np.errstate(invalid="ignore"):
        m = srt[:, -1] - srt[:, -2]
    return np.where(np.isnan(m), 0.0, m)


def _close(np, x, y, floor=0.0):
    x, y = np.asarray(x, dtype=float), np.asarray(y, dtype=float)
    if x.shape != y.shape:
        return False
    nx, ny = np.isnan(x), np.isnan(y)
    if np.any(nx != ny):
        return False
    if np.all(nx):
        return True
    scale = max(float(np.nanmax(np.abs(x))), float(np.nanmax(np.abs(y))), floor)
    return bool(np.nanmax(np.abs(x - y)) <= RTOL * scale)


def pick_tie(np, X, sw, picks, rs):
    """Is some uniform draw within rounding of a cumulative-weight boundary (the picked point is then not
    determined by the coupling)?  Re-derives the pick intervals from the recorded picks."""
    tie = False
    for t, r in enumerate(rs):
        if t == 0:
            p = sw
        else:
            dist = np.min([np.sum((X - X[j]) ** 2, axis=1) for j in picks[:t]], axis=0)
            p = dist * sw
            p = p / np.sum(p)
        cs = np.cumsum(p)
        if float(np.min(np.abs(cs - r * cs[-1]))) <= 1e-12 * float(cs[-1]):
            tie = True
    return tie


def project_gmm_pair(np, o):
    """Project the two logs into the GMMPair.tla input (+ diagnostics kept in the replay file)."""
    A, B = o["runs"]
    tol = A["tol"]

    def gaps(run):
        out, prev = [], -math.inf
        for it in run["iters"]:
            g = it[3] - prev
            out.append(g)
            if not (g < tol):
                prev = it[3]
        return out

    ga, gb = gaps(A), gaps(B)
    vals = sorted({v for v in ga + gb + [tol] if not math.isnan(v)})
    rank = {v: i + 1 for i, v in enumerate(vals)}
    rk = lambda v: -1 if math.isnan(v) else rank[v]  # noqa: E731
    a, b = [], []
    worst = 0.0
    for t in range(max(len(A["iters"]), len(B["iters"]))):
        ia = A["iters"][t] if t < len(A["iters"]) else None
        ib = B["iters"][t] if t < len(B["iters"]) else None
        if ia is not None:
            a.append({"w": 2 * t, "mu": 2 * t, "cov": 2 * t, "lb": 2 * t, "gap": rk(ga[t])})
        if ib is not None:
            if ia is None:
                b.append({"w": 2 * t + 1, "mu": 2 * t + 1, "cov": 2 * t + 1, "lb": 2 * t + 1, "gap": rk(gb[t])})
            else:
                b.append({"w": 2 * t + (0 if _close(np, ia[0], ib[0]) else 1), "mu": 2 * t + (0 if _close(np, ia[1], ib[1]) else 1),
                          "cov": 2 * t + (0 if _close(np, ia[2], ib[2]) else 1), "lb": 2 * t + (0 if _close(np, ia[3], ib[3], floor=1.0) else 1),
                          "gap": rk(gb[t])})
                for q in range(3):
                    if np.shape(ia[q]) == np.shape(ib[q]) and np.all(np.isfinite(ia[q])) and np.all(np.isfinite(ib[q])):
                        worst = max(worst, float(np.max(np.abs(ia[q] - ib[q])) / max(float(np.max(np.abs(ia[q]))), 1e-300)))
    init_same = all(_close(np, x, y) for x, y in zip(A["init"], B["init"]))

    def last_is_fitted(run):
        if not run["iters"]:
            return False
        return all(np.array_equal(x, y, equal_nan=True) for x, y in zip(run["iters"][-1][:3], run["fitted"]))

    fa, fb = A["fitted"], B["fitted"]
    clear = (A["margin"] > TIE) & (B["margin"] > TIE)      # predictions at exact / rounding-level ties are not compared
    fin = {"nIterA": A["n_iter"], "nIterB": B["n_iter"], "lastA": last_is_fitted(A), "lastB": last_is_fitted(B),
           "wa": 0, "wb": 0 if _close(np, fa[0], fb[0]) else 1, "ma": 0, "mb": 0 if _close(np, fa[1], fb[1]) else 1,
           "ca": 0, "cb": 0 if _close(np, fa[2], fb[2]) else 1,
           "pa": 0, "pb": 0 if np.array_equal(A["pred"][clear], B["pred"][clear]) else 1,
           "ba": 0, "bb": 0 if _close(np, A["bic"], B["bic"], floor=1.0) else 1}
    tie = pick_tie(np, o["X"], A["init_sw"], A["picks"], A["r"])
    pair = {"picksA": A["picks"], "picksB": B["picks"], "pickTie": bool(tie), "sameUniforms": A["r"] == B["r"],
            "init": {"a": 0, "b": 0 if init_same else 1}, "tol": rk(tol), "maxIter": A["max_iter"], "a": a, "b": b, "fin": fin}
    # first iteration at which the convergence decisions differ, and how close the test was to a tie there
    near_tie = False
    for t in range(min(len(ga), len(gb))):
        sa, sb = ga[t] < tol, gb[t] < tol
        if sa != sb:
            m = max(abs(ga[t] - tol), abs(gb[t] - tol))
            near_tie = m <= 1e-9 * max(1.0, abs(A["iters"][t][3]))
            break
    diag = {"prediction_points_compared": int(clear.sum()), "prediction_points_skipped_as_ties": int((~clear).sum()),
            "max_rel_param_diff_over_iterations": worst, "iters": (len(ga), len(gb)), "near_tie_at_first_decision_difference": bool(near_tie),
            "uniforms": A["r"], "gapsA": ga[-3:], "gapsB": gb[-3:], "tol": tol}
    return pair, diag


GMM_CFG = "INIT Init\nNEXT Next\nINVARIANT TypeOK\nCHECK_DEADLOCK FALSE\n"


def validate_gmm_pairs(pairs):
    """Batch of projected pairs -> TLC (GMMPair.tla).  Returns (fails per pid, excluded pids, tlc totals)."""
    if not pairs:
        return {}, set(), {"states": 0, "generated": 0}
    import shutil
    work = tlc.scratch_dir("vgmm_")
    path = os.path.join(work, "pairs.json")
    with open(path, "w") as f:
        json.dump(pairs, f)
    try:
        res = tlc.run_tlc("GMMPair", GMM_CFG, workers=1, env={"TRACE_FILE": path}, timeout=600)
    finally:
        shutil.rmtree(work, ignore_errors=True)
    out = res.stdout
    res.cleanup()
    if res.status != "ok":
        raise tlc.TLCFailure("GMMPair: unexpected TLC verdict " + res.violated + out[-1500:])
    expected = sum(min(len(p["a"]), len(p["b"])) + 3 for p in pairs)
    if res.distinct != expected:
        raise tlc.TLCFailure(f"GMMPair consumed {res.distinct} states, expected {expected}\n{out[-2000:]}")
    fails, excluded = {}, set()
    for ln in out.splitlines():
        if ln.startswith('<<"FAIL"'):
            v = tla.parse_value(ln)
            fails.setdefault(v[1], []).append({"i": v[2], "clauses": sorted(v[3])})
        elif ln.startswith('<<"EXCLUDED"'):
            excluded.add(tla.parse_value(ln)[1])
    return fails, excluded, {"states": res.distinct, "generated": res.generated}


def replication_part(ck, mp_pool=None):
    """C15, "integer sample weights are equivalent to replicating points": relational trace validation of
    fit(X, k) against fit(repeat(X, k)) (specs/GMMPair.tla).  Returns the evidence of this part."""
    np = _G["np"]
    t_start = time.time()
    ncases = 36 if ck.tier == "quick" else 360
    pending = [(j, 0) for j in range(ncases)]
    ev = {"pairs_validated": 0, "pairs_coupled": 0, "excluded_pick_tie": 0, "inconclusive_near_ties": 0, "states": 0, "transitions": 0,
          "tlc_runs": 0, "iterations_compared": 0, "multi_iteration_pairs": 0, "prediction_points_compared": 0, "prediction_points_skipped_as_ties": 0, "max_rel_param_diff": 0.0, "by_components": {}, "by_type": {}}
    rounds = 0
    while pending and rounds < 3:
        rounds += 1
        jobs = [(ck.seed, j, att) for j, att in pending]
        outs = mp_pool.map(_pair_case, jobs, chunksize=1) if mp_pool is not None else [_pair_case(a) for a in jobs]
        good, pairs, diags = [], [], []
        for (j, att), o in zip(pending, outs):
            rep = {"case": o["case"], "X": o["X"].tolist(), "k": o["k"].tolist()}
            if o["raised"]:
                ck.violation("replication:raised", f"GaussianMixture.fit raised in the weighted/replicated pair: {o['raised']} ({o['case']})", rep)
                continue
            p, dg = project_gmm_pair(np, o)
            good.append(((j, att), o, rep))
            pairs.append(p)
            diags.append(dg)
        fails, excluded, tot = validate_gmm_pairs(pairs)
        ev["states"] += tot["states"]
        ev["transitions"] += tot["generated"]
        ev["tlc_runs"] += 1
        nxt = []
        for pid, (((j, att), o, rep), p, dg) in enumerate(zip(good, pairs, diags), start=1):
            ev["pairs_validated"] += 1
            rep = dict(rep, pair=p, diagnostics=dg)
            if not p["sameUniforms"]:
                ck.violation("replication:different-uniforms", f"the two fits with the same random_state drew different uniforms ({o['case']})", rep)
                continue
            if pid in excluded:
                ev["excluded_pick_tie"] += 1
                if att < 2:
                    nxt.append((j, att + 1))
                continue
            f = fails.get(pid)
            if f is None:
                ev["pairs_coupled"] += 1
                ev["iterations_compared"] += len(p["a"])
                if len(p["a"]) >= 3:
                    ev["multi_iteration_pairs"] += 1
                ev["max_rel_param_diff"] = max(ev["max_rel_param_diff"], dg["max_rel_param_diff_over_iterations"])
                ev["prediction_points_compared"] += dg["prediction_points_compared"]
                ev["prediction_points_skipped_as_ties"] += dg["prediction_points_skipped_as_ties"]
                c = o["case"]
                ev["by_components"][str(c["K"])] = ev["by_components"].get(str(c["K"]), 0) + 1
                ev["by_type"][c["ctype"] + "/" + c["layout"]] = ev["by_type"].get(c["ctype"] + "/" + c["layout"], 0) + 1
                if len(p["a"]) >= 3 and sum(1 for s in ck.samples if s.get("binding") == "pair") < 1:
                    ck.sample({"binding": "pair", "case": c, "iterations": len(p["a"]), "max_rel_param_diff": dg["max_rel_param_diff_over_iterations"]}, limit=8)
                continue
            first = f[0]
            only_decision = first["clauses"] in (["SameDecision"], ["LoopShapeA", "SameDecision"], ["LoopShapeB", "SameDecision"]) or \
                set(first["clauses"]) <= {"SameDecision", "SameLength", "LoopShapeA", "LoopShapeB"}
            if dg["near_tie_at_first_decision_difference"] and only_decision:
                ev["inconclusive_near_ties"] += 1     # rounding-level tie in `new - old < tol`: re-drawn, never a violation
                if att < 2:
                    nxt.append((j, att + 1))
                continue
            where = "initialisation" if first["i"] == 0 else (f"iteration {first['i']}" if first["i"] <= min(len(p["a"]), len(p["b"])) else "end of fit")
            ck.violation("replication:" + first["clauses"][0],
                         f"fit(X, sample_weight=k) and fit(repeat(X, k)) leave the coupling relation at {where}: clauses {first['clauses']} "
                         f"(all: {[(x['i'], x['clauses']) for x in f][:4]}); iterations A/B = {dg['iters']}, max relative parameter "
                         f"difference over common iterations {dg['max_rel_param_diff_over_iterations']:.3g}; case {o['case']}", rep)
        pending = nxt
    ev["wall_s"] = round(time.time() - t_start, 1)
    ev["hierarchical_level"] = ("not coupled, deliberately: HierarchicalGaussianMixture scores splits with bic(), which ignores sample weights, and "
                                "thresholds with the effective sample size, so weighted and replicated data legitimately split differently (probe on "
                                "the pinned code: n_clusters_ differed in 29 of 60 three-blob data sets with weights 1..5)")
    ev["rule"] = ("one pair = GaussianMixture(K, type, random_state=s).fit(X, k) vs .fit(repeat(X, k)) on seeded data (d 1-3, 1-3 components, "
                  "overlapping / separated blobs, integer weights 1..5 uniform / skewed / geometric / one large, 20-120 points); tags = equality "
                  "up to 1e-9 relative; predicted labels are compared on the points whose two largest component log-posteriors differ by more "
                  "than 1e-6 in both runs (exact and rounding-level ties are not determined by the fitted model: skipped, counted); convergence test decided on exact order ranks; pairs whose k-means++ uniforms fall within rounding of a "
                  "cumulative-weight boundary are outside the antecedent (excluded, re-drawn); a divergence explained by a rounding-level tie of "
                  "`new - old < tol` is inconclusive (re-drawn); the hierarchical level is NOT coupled: bic() ignores sample weights and the "
                  "threshold uses the effective sample size, so K legitimately differs between weighted and replicated data")
    return ev


def corrupt_traces(trace):
    """Binding self-test: single-field corruptions of an accepted trace and the verdict HGMTrace must give for each
    (a set of admissible verdicts; "rejected" = any failing clause)."""
    out = []
    lab = list(trace["labels"])
    K = trace["K"]
    orc = list(trace["orc"])
    REJ = {"n-clusters", "labels", "accepted-splits", "predict-range"}
    out.append(("K+1", dict(trace, K=K + 1), {"n-clusters"}))
    l2 = list(lab); l2[0] = (lab[0] + 1) % max(K, 2)
    out.append(("one label changed", dict(trace, labels=tuple(l2)), {"labels"}))
    if K >= 2:
        # the numbering of the clusters is free: the same partition under another numbering must be ACCEPTED (printed parent
        # positions are then not compared), a merge of two clusters under one label must not
        sw = {0: 1, 1: 0}
        out.append(("labels 0 and 1 exchanged everywhere", dict(trace, labels=tuple(sw.get(x, x) for x in lab)), {"accepted"}))
        out.append(("clusters 0 and 1 merged under label 0", dict(trace, labels=tuple(0 if x == 1 else x for x in lab)), {"labels"}))
    out.append(("predicted label = K", dict(trace, preds=frozenset(trace["preds"]) | {K}), {"predict-range"}))
    if K >= 2:
        out.append(("cap lowered below K", dict(trace, maxIter=max(K - 2, 0)), REJ))
        # the entry of the root: its partition decides everything below
        ir = next((i for i, e in enumerate(orc) if len(e["ids"]) == trace["n"]), None)
        if ir is not None and orc[ir]["known"]:
            o2 = list(orc); del o2[ir]
            out.append(("improvement of the root never observed", dict(trace, orc=tuple(o2)), {"inconclusive:improvement"}))
            o2 = list(orc); o2[ir] = dict(orc[ir], known=False, c1=frozenset())
            out.append(("partition of the root never observed", dict(trace, orc=tuple(o2)), {"inconclusive:partition"}))
            o2 = list(orc); o2[ir] = dict(orc[ir], imp=orc[ir]["thr"])
            out.append(("root improvement lowered to its threshold", dict(trace, orc=tuple(o2)), REJ))
            c1 = set(orc[ir]["c1"]); other = sorted(set(orc[ir]["ids"]) - c1)
            if other:
                c1.add(other[0])
                o2 = list(orc); o2[ir] = dict(orc[ir], c1=frozenset(c1))
                out.append(("one point moved to the other child", dict(trace, orc=tuple(o2)), REJ | {"inconclusive:improvement", "inconclusive:partition"}))
        if trace["hasSplits"] and trace["splits"]:
            sp = list(trace["splits"]); sp[0] = (sp[0][0], sp[0][1] + 1)
            out.append(("parent position of the first accepted split + 1", dict(trace, splits=tuple(sp)), {"accepted-splits"}))
        o2 = list(lab); o2[0] = -1
        out.append(("one point unlabelled (-1) and no oracle", dict(trace, labels=tuple(o2), orc=()), {"output-range"}))
    return out


def do_replay(ck, path):
    """--replay <file>: re-run one recorded violation."""
    import numpy as np
    from tempest import cluster
    with open(path) as f:
        rec = json.load(f)
    rp = rec["replay"]
    print(f"replaying {rec['key']}: {rec['what'][:200]}")
    if "pair" in rp and "k" in rp:      # replication pair: re-run both fits, re-validate with GMMPair.tla
        c = dict(rp["case"], X=np.array(rp["X"], dtype=float), k=np.array(rp["k"], dtype=int))
        o = run_pair(c)
        if o["raised"]:
            ck.violation("replication:raised", o["raised"], rp)
        else:
            p_, dg = project_gmm_pair(np, o)
            fails, excluded, _ = validate_gmm_pairs([p_])
            print("GMMPair verdict:", "excluded (pick tie)" if excluded else (fails.get(1) or "coupled"), dg)
            if fails.get(1) and not excluded:
                ck.violation(rec["key"], rec["what"], rp)
    elif "state" in rp:      # binding B
        def thaw(state):
            st = dict(state)
            st["clusters"] = tuple(frozenset(c) for c in st["clusters"])
            st["log"] = tuple({k: (frozenset(v) if k in ("ids", "c1") else v) for k, v in e.items()} for e in st["log"])
            st["splits"] = tuple({k: (frozenset(v) if k in ("ids", "c1", "c2") else v) for k, v in e.items()} for e in st["splits"])
            st["oracle"] = state_oracle(st)
            st["labels"] = tuple(st["labels"])
            st["iter"] = max([e["it"] for e in st["log"]] + [0])
            K = st["K"]
            tbl = {(st["clusters"], "any", -1): set(range(K))}
            tbl.update({(st["clusters"], "centre", k): {k} for k in range(K)})
            return st, tbl
        stats = {"replayed": 0, "with_split": 0, "predictions": 0, "centre_exact": 0}
        n_before = ck.violations
        history = None
        pv = rp.get("previous_behaviour_on_the_same_object")
        if pv:   # the behaviour was replayed into an object already fitted and queried on an earlier behaviour's data
            st0, _ = thaw(pv)
            history = {(st0["minPts"], st0["maxIter"]): st0}
        st, tbl = thaw(rp["state"])
        replay_state(ck, np, cluster, st, rp["variant"], tbl, stats, history, forced_reuse=bool(pv))
        print("scripted replay:", "reproduced" if ck.violations > n_before else "no violation")
    elif "trace" in rp and "X" in rp:   # binding A: re-run the real fit, re-validate its trace
        c = {k: rp[k] for k in ("i", "d", "n", "kind", "wkind", "scaled", "normalize", "modifier", "max_iterations", "min_points", "style", "ctype")}
        c["X"] = np.array(rp["X"], dtype=float)
        c["w"] = None if rp["w"] is None else np.array(rp["w"], dtype=float)
        o = run_case(c, rp.get("seed", 0))
        for key, what, r_ in o["violations"]:
            ck.violation(key, what, r_)
        if o["trace"] is not None:
            verdicts, _ = validate_batch([o["trace"]])
            print("TLC verdict on the re-recorded trace:", verdicts[0][0], verdicts[0][1] if len(verdicts[0]) > 1 else "")
            if verdicts[0][0] in ("rejected", "invariant"):
                ck.violation(rec["key"], rec["what"], rp)
    elif "covariance_type" in rp and "k" in rp:
        X = np.array(rp["X"], dtype=float)
        w = None if rp["w"] is None else np.array(rp["w"], dtype=float)
        g = cluster.GaussianMixture(n_components=rp["k"], covariance_type=rp["covariance_type"], n_init=1, random_state=42).fit(X, w)
        bad = monitor_fit(np, g, X, w)
        print("monitored predicates failing:", bad)
        if any(k.endswith("!") for k in bad):
            ck.violation(rec["key"], rec["what"], rp)
    elif "X" in rp:
        X = np.array(rp["X"], dtype=float)
        w = None if rp["w"] is None else np.array(rp["w"], dtype=float)
        try:
            h = cluster.HierarchicalGaussianMixture(n_init=1, max_iterations=rp["max_iterations"], min_points=rp["min_points"],
                                                    threshold_modifier=rp["modifier"], covariance_type=rp["ctype"], normalize=rp["normalize"]).fit(X, w)
            p_ = h.predict(X)
            print("fit ok: K =", h.n_clusters_, "labels in range:", set(map(int, h.labels_)) <= set(range(h.n_clusters_)),
                  "predictions in range:", set(map(int, p_)) <= set(range(h.n_clusters_)))
        except Exception as ex:
            ck.violation(rec["key"], f"{ex!r}", rp)
    ck.args.no_evidence = True
    ck.finish({"states": 0, "transitions": 0, "traces_validated_against_impl": 1})


def main():
    ck = core.Check("C15", "model_checking")
    core.import_repo()
    import multiprocessing as mp
    import numpy as np
    from tempest import cluster

    _G.update(np=np, cluster=cluster)
    if ck.args.replay:
        do_replay(ck, ck.args.replay)
    quick = ck.tier == "quick"
    nreal = 108 if quick else 1512
    mp_pool = mp.get_context("fork").Pool(12)     # forked before any thread exists
    nextra = 6 if quick else 72
    real_async = mp_pool.map_async(_real_case, [(ck.seed, i, ck.tier) for i in list(range(-N_FIXED, nreal)) + list(range(EXTRA0, EXTRA0 + nextra))],
                                   chunksize=1)

    # ---- spec: exhaustive generator runs (+ replay workers) and seeded wrong variants, concurrently
    tpool = ThreadPoolExecutor(max_workers=8)
    mut_futs = [tpool.submit(run_spec_mutant, v) for v in SPEC_MUTANTS]
    nvariants = 1 if quick else 2
    gen_futs = [tpool.submit(run_generator, name, consts, ck.seed, ck.tier, mp_pool, nvariants, quick and name == "n4-deep")
                for name, consts in spec_jobs(ck.tier)]

    # ---- replication clause: relational (two-run) trace validation, GMMPair.tla
    rep_ev = replication_part(ck, mp_pool)
    if ck.violations == 0 and (rep_ev["pairs_coupled"] == 0 or rep_ev["multi_iteration_pairs"] == 0):
        raise RuntimeError("vacuity: no weighted/replicated pair with several EM iterations was validated")

    stats = {"replayed": 0, "with_split": 0, "predictions": 0, "centre_exact": 0, "refits": 0, "refits_K_decreased": 0,
             "reevaluated": 0, "lower_position_wins": 0}
    nontrivial = set()
    gen_info = []
    states = transitions = 0
    cov_total = {}
    for f in gen_futs:
        info, asyncs = f.result()
        if "violated" in info:
            ck.violation("spec:" + info["violated"], f"TLC: {info['violated']} violated on HGMSplit.tla ({info['name']})",
                         {"trace": info.pop("error_trace"), "constants": info["constants"]})
        for a in asyncs:
            st, nt, viols, samples = a.get()
            for k in st:
                stats[k] = stats.get(k, 0) + st[k]
            nontrivial |= nt
            for key, what, rep in viols:
                ck.violation(key, what, rep)
            for s in samples:
                if sum(1 for x in ck.samples if x.get("binding") == "B") < 2:
                    ck.sample(s)
        gen_info.append(info)
        states += info["states"]
        transitions += info["transitions"]
        for k, (dd, tt) in info["coverage"].items():
            od, ot = cov_total.get(k, (0, 0))
            cov_total[k] = (od + dd, ot + tt)

    phase = {"replication_part": rep_ev["wall_s"], "generator_runs_and_replays_done_at": round(time.time() - ck.t0, 1)}
    refuted = {}
    for f in mut_futs:
        v, r = f.result()
        refuted[v] = r.violated if r.status == "violation" else None
        r.cleanup()
        if refuted[v] not in SPEC_MUTANTS[v]:
            raise RuntimeError(f"vacuity: seeded spec variant {v} was not refuted as expected (TLC: {r.status} {r.violated})")
    for a in ["BeginIter", "CapStop", "SkipSmall", "Evaluate", "AcceptBest", "Stop", "Finalize", "Predict", "Refit"]:
        if cov_total.get(a, (0, 0))[1] == 0:
            raise RuntimeError(f"vacuity: action {a} never taken in the generator runs")
    if not ck.violations and stats["refits_K_decreased"] == 0:
        raise RuntimeError("vacuity: no behaviour was replayed into an object previously fitted with MORE clusters")
    if not ck.violations and (stats["reevaluated"] == 0 or stats["lower_position_wins"] == 0):
        raise RuntimeError("vacuity: no replayed behaviour consults a cluster in two passes / lets the lower-positioned of two qualifying "
                           f"clusters win ({stats['reevaluated']}, {stats['lower_position_wins']})")

    # ---- binding A: collect the real fits, validate their traces with TLC (HGMTrace), report monitors
    real = real_async.get()
    mp_pool.close()
    mp_pool.join()
    phase["real_fits_done_at"] = round(time.time() - ck.t0, 1)
    traces, owners = [], []
    mon = {"fits_monitored": 0, "fits_with_failure": 0}
    mon_keys = {}
    mon_checked = []
    real_summ = {"fits_run": len(real), "gm_fits": 0, "with_split": 0, "oracle_entries": 0, "partitions": 0, "queries": 0,
                 "max_K": 0, "wall_s_sum": 0.0, "by_kind": {}, "by_wkind": {}, "splits_parsed_from_verbose_output": 0,
                 "two_level_lower_position_wins": 0, "accepted_up_to_a_relabelling_of_the_clusters": 0,
                 "info:observed_inconsistent (same data set, different answers)": {"improvement": 0, "partition": 0, "threshold": 0},
                 "info:root_data_set_not_observed": 0, "info:matched_by_row_multiset": 0}
    for o in real:
        for key, what, rep in o["violations"]:
            ck.violation(key, what, rep)
        real_summ["gm_fits"] += o["fits"]
        real_summ["wall_s_sum"] += o["wall"]
        mon["fits_monitored"] += o["fits"]
        for m in o["monitor"]:
            mon["fits_with_failure"] += 1
            gross = sorted(p_ for p_ in m["failed"] if p_.endswith("!"))
            for pred_name in m["failed"]:
                mk = f"monitor:{m['ctype']}:k{m['k']}:{pred_name.rstrip('!')}" + (":gross" if pred_name.endswith("!") else "") + \
                     (":well-posed-input" if m["well_posed"] else "")
                ent = mon_keys.setdefault(mk, {"count": 0, "example": None})
                ent["count"] += 1
                if ent["example"] is None:
                    ent["example"] = {"case": m["case"], "n": m["n"], "detail": m["failed"][pred_name]}
            if m["well_posed"] and gross and len(mon_checked) < 40:
                # reproducible on a clearly well-posed input? refit the pristine class twice on the recorded input
                again = []
                for _ in range(2):
                    g = cluster.GaussianMixture(n_components=m["k"], covariance_type=m["ctype"], n_init=1, random_state=42)
                    with warnings.catch_warnings():
                        warnings.simplefilter("ignore")
                        old = np.seterr(all="ignore")
                        st = np.random.get_state()
                        try:
                            g.fit(m["X"], m["w"])
                            again.append(set(monitor_fit(np, g, m["X"], m["w"])))
                        except Exception as ex:
                            again.append({"raised " + repr(ex)})
                        finally:
                            np.random.set_state(st)
                            np.seterr(**old)
                mon_checked.append(1)
                for pred_name in sorted(again[0] & again[1] & set(gross)):
                    ck.violation(f"monitor:{pred_name.rstrip('!')}",
                                 f"MONITORED mixture predicate (EM routine, not decided by the model) {pred_name.rstrip('!')} fails grossly and "
                                 f"reproducibly on a clearly well-posed input: GaussianMixture(n_components={m['k']}, covariance_type={m['ctype']!r}, "
                                 f"random_state=42).fit on {m['n']} points of case {m['case']['kind']}/{m['case']['wkind']} d={m['case']['d']} "
                                 f"scaled={m['case']['scaled']}: {json.dumps(m['failed'][pred_name], default=str)[:300]}",
                                 {"X": m["X"].tolist(), "w": None if m["w"] is None else m["w"].tolist(), "k": m["k"],
                                  "covariance_type": m["ctype"], "case": m["case"], "failed": m["failed"]})
        if o["trace"] is not None:
            traces.append(o["trace"])
            owners.append(o)
    # batches
    bsz = 60
    batches = [list(range(a, min(a + bsz, len(traces)))) for a in range(0, len(traces), bsz)]
    vfuts = [tpool.submit(validate_batch, [traces[i] for i in b]) for b in batches]
    accepted = inconclusive = 0
    accepted_idx = []
    verdict_counts = {}
    tstates = ttrans = truns = 0
    tcov = {}
    for b, f in zip(batches, vfuts):
        verdicts, totals = f.result()
        tstates += totals["states"]
        ttrans += totals["transitions"]
        truns += totals["runs"]
        for k, (dd, tt) in totals["coverage"].items():
            od, ot = tcov.get(k, (0, 0))
            tcov[k] = (od + dd, ot + tt)
        for i, v in zip(b, verdicts):
            o = owners[i]
            s = o["summary"]
            inf = s["info"]
            inc = real_summ["info:observed_inconsistent (same data set, different answers)"]
            inc["improvement"] += inf["inconsistent_improvement"]
            inc["partition"] += inf["inconsistent_partition"]
            inc["threshold"] += inf["inconsistent_threshold"]
            real_summ["info:root_data_set_not_observed"] += 0 if inf["root_observed"] else 1
            real_summ["info:matched_by_row_multiset"] += inf["matched_by_multiset"]
            verdict_counts[v[0] if v[0] != "inconclusive" else "inconclusive:" + v[1]] = \
                verdict_counts.get(v[0] if v[0] != "inconclusive" else "inconclusive:" + v[1], 0) + 1
            if v[0] == "accepted":
                accepted += 1
                accepted_idx.append(i)
                real_summ["oracle_entries"] += s["oracle_entries"]
                real_summ["partitions"] += s["partitions"]
                real_summ["queries"] += s["queries"]
                real_summ["max_K"] = max(real_summ["max_K"], s["K"])
                real_summ["splits_parsed_from_verbose_output"] += 1 if s["splits_parsed"] else 0
                if s["K"] > 1:
                    real_summ["with_split"] += 1
                if v[1]["lower_position_wins"]:
                    real_summ["two_level_lower_position_wins"] += 1
                if v[1]["relabelled"]:
                    real_summ["accepted_up_to_a_relabelling_of_the_clusters"] += 1
                real_summ["by_kind"][o["cfg"]["kind"]] = real_summ["by_kind"].get(o["cfg"]["kind"], 0) + 1
                real_summ["by_wkind"][o["cfg"]["wkind"]] = real_summ["by_wkind"].get(o["cfg"]["wkind"], 0) + 1
                if s["K"] > 1 and sum(1 for x in ck.samples if x.get("binding") == "A") < 2:
                    ck.sample({"binding": "A", "case": o["cfg"], "K": s["K"],
                               "observed oracle (cluster size, improvement, threshold, partition observed)": s["raw"]}, limit=6)
            elif v[0] == "inconclusive":
                inconclusive += 1          # the specification needs an oracle value the code never computed: cannot be bound
            elif v[0] == "invariant":
                ck.violation("traceA:invariant:" + v[1], f"HGMSplit invariant {v[1]} violated on the trace of a real fit ({o['cfg']})",
                             dict(o["rep"], trace=_js_state(traces[i]), error_trace=v[2]))
            else:
                t = traces[i]
                sizes = sorted((t["labels"].count(k_) for k_ in set(t["labels"])), reverse=True)
                ck.violation("traceA:" + v[1],
                             f"outcome of a real fit differs from HGMSplit run with the fit's own observed oracle: clause {v[1]} "
                             f"(labels are compared as a partition, up to a relabelling of the clusters; code: n_clusters_={t['K']}, label counts {sizes[:8]}, labels outside [0,K): "
                             f"{sum(1 for x in t['labels'] if not 0 <= x < t['K'])}, accepted splits {list(t['splits'])[:6] if t['hasSplits'] else 'not parsed'}, "
                             f"predicted labels {sorted(t['preds'])[:8]}; cap={t['maxIter'] + 1} minPts={t['minPts']}; {len(t['orc'])} clusters in the observed "
                             f"oracle) ({o['cfg']})",
                             dict(o["rep"], trace=_js_state(t), clause=v[1]))
    phase["real_fits_validated_at"] = round(time.time() - ck.t0, 1)
    # ---- binding self-test: corrupted copies of accepted traces must get the expected verdict from TLC
    donors = [traces[i] for i in accepted_idx if owners[i]["summary"]["K"] > 1][:3] + [traces[i] for i in accepted_idx[:1]]
    corrupted = [(what, t, want) for d_ in donors for what, t, want in corrupt_traces(d_)]
    binding_rejected = 0
    if corrupted:
        verdicts, _ = validate_batch([t for _, t, _ in corrupted])
        missed = []
        for (what, _, want), v in zip(corrupted, verdicts):
            name = {"accepted": "accepted", "rejected": v[-1], "inconclusive": "inconclusive:" + str(v[-1]), "invariant": "invariant"}[v[0]]
            if name in want:
                binding_rejected += 1
            else:
                missed.append((what, name))
        if missed:
            raise RuntimeError(f"binding self-test: corrupted traces not judged as expected by HGMTrace: {missed}")
    for a in ["Internal", "TraceEval", "TraceJudge", "TracePredict", "TraceAccept"]:
        if traces and tcov.get(a, (0, 0))[1] == 0 and ck.violations == 0 and not ck.known_hits:
            raise RuntimeError(f"vacuity: trace action {a} never taken")
    if ck.violations == 0 and not ck.known_hits and real_summ["with_split"] == 0:
        raise RuntimeError("vacuity: no real fit accepted a split")
    if ck.violations == 0 and not ck.known_hits and real_summ["two_level_lower_position_wins"] == 0:
        raise RuntimeError("vacuity: no real fit in which two clusters qualify in one pass and the lower-positioned one is split first")
    if ck.violations == 0 and not ck.known_hits and inconclusive > max(2, len(traces) // 10):
        raise RuntimeError(f"vacuity: {inconclusive} of {len(traces)} real fits could not be bound (observed oracle incomplete)")

    ck.assumptions += [
        "the EM fits / BIC values / child predictions of GaussianMixture are an arbitrary oracle in the model "
        "(the algebraic mixture invariants of the property's first sentence are MONITORED, not decided; weight == replication is decided relationally by GMMPair.tla for the mixture model only)",
        "scripted replays use integer sample weights 1..n (exact doubles) as point identities",
        "the mixture fits inside HierarchicalGaussianMixture.fit are deterministic functions of the data set they are given (seeded "
        "identically), so the oracle is a function of the cluster; observed answers that contradict this are reported as information "
        "and the fit is not bound",
        "binding A identifies a cluster with the content (rows, weights) of the data set handed to the mixture model; rows are matched "
        "in index order, or as a multiset if the implementation reorders them",
    ]
    cov = {
        "states": states + tstates + rep_ev["states"],
        "transitions": transitions + ttrans + rep_ev["transitions"],
        "traces_validated_against_impl": stats["replayed"] + accepted + rep_ev["pairs_coupled"],
        "evaluations": stats["replayed"] + stats["predictions"] + real_summ["oracle_entries"] + real_summ["queries"],
        "distinct_nontrivial": len(nontrivial) + real_summ["with_split"],
        "rule": "non-trivial = a behaviour in which at least one split is accepted: distinct behaviours of the exhaustive HGMSplit runs "
                "(oracle = function of the cluster by construction; every terminal state replayed into the real fit/predict/predict_proba "
                "through a content-addressed, order-free fake mixture; compared: n_clusters_, labels_, accepted splits if the verbose output "
                "parses, predictions) + real fits with K > 1 whose outcome equals that of HGMSplit run by TLC with the fit's observed oracle",
        "bindingB_oracle": "restricted generator: the `oracle` state variable is a partial function cluster -> answer, extended on first "
                           "consultation and reused afterwards (invariant OracleIsFunction); no behaviour has an inconsistent oracle, none is dropped",
        "bindingB_not_compared": "call order, call counts, which instances get bic()/predict(), final per-cluster fits, stop message",
        "exhaustive": True,
        "generator_runs": gen_info,
        "seeded_spec_variants_refuted": refuted,
        "bindingB_replays": stats["replayed"],
        "bindingB_replays_with_accepted_split": stats["with_split"],
        "bindingB_replays_into_an_already_fitted_and_queried_object": stats["refits"],
        "bindingB_refits_with_fewer_clusters_than_before": stats["refits_K_decreased"],
        "bindingB_predictions_compared": stats["predictions"],
        "bindingB_centre_queries_compared_exactly": stats["centre_exact"],
        "bindingB_centre_queries_exact_ties": "none possible: the scripted centres are distinct data points >= 12.5 standard deviations apart "
                                              "(covariance 1e-4 I at spacing >= 0.125), every other query is compared for its range only",
        "bindingB_behaviours_consulting_a_cluster_in_two_passes": stats["reevaluated"],
        "bindingB_behaviours_lower_position_wins_then_other_split": stats["lower_position_wins"],
        "bindingB_replays_with_parsed_split_messages": stats.get("splits_compared", 0),
        "bindingB_replays_accepted_up_to_a_relabelling": stats.get("relabelled", 0),
        "labelling_comparison": "as a PARTITION: the relabelling pi (spec label -> code label) is derived from labels_ and must be a bijection on "
                                "[0, K) (a label outside [0, K), a spec cluster spread over two labels or two spec clusters under one label is a "
                                "violation); centre queries expect pi(j); printed parent positions of accepted splits are compared only when pi is "
                                "the identity (otherwise the iterations only)",
        "bindingB_fake_calls": {k[6:]: v for k, v in sorted(stats.items()) if k.startswith("calls_")},
        "bindingA_real_fits": real_summ,
        "bindingA_traces_accepted_by_TLC": accepted,
        "bindingA_traces_submitted": len(traces),
        "bindingA_traces_inconclusive (specification needs an oracle value the code never computed)": inconclusive,
        "bindingA_verdicts": verdict_counts,
        "binding_mutations_rejected": binding_rejected,
        "binding_mutations_tried": len(corrupted),
        "replication_pairs(GMMPair.tla)": rep_ev,
        "bindingA_validation": "TLA+ trace spec HGMTrace.tla (conjoins the HGMSplit actions): the specification is run deterministically "
                               "with the observed oracle (function of the cluster) of each real fit and its K / labelling / accepted splits / "
                               "prediction range are compared with the fit's outcome; batched through TLC; verdicts total",
        "bindingA_tlc": {"runs": truns, "states": tstates, "transitions": ttrans, "coverage": {k: list(v) for k, v in tcov.items()}},
        "tlc_coverage": {k: list(v) for k, v in cov_total.items()},
        "monitor:scope": "MONITORING of the numerical EM routine (property sentence 1), not decided by the model: predicates logged for every "
                         "GaussianMixture.fit made inside the real hierarchical fits ('full' and 'diag')",
        "monitor:rule": "strict predicates (sum within 1e-9, symmetry / min eigenvalue within 1e-12 of the matrix scale, mean within 1e-9 of the "
                        "bounding box for weight > 1e-6) are logged for every fit and listed below under monitor:<type>:k<components>:<predicate>; a "
                        "monitored failure is reported as a VIOLATION only if it is gross (non-finite parameters, negative weights, sum off by > 1e-9, "
                        "asymmetric / indefinite covariance, mean outside the box by > 1e-6 of the data scale), the failing fit's input is clearly "
                        "well-posed (finite, |x| <= 1e6, finite non-negative weights, >= 4k(d+1) distinct points of non-negligible weight, each of "
                        "their coordinates spreading >= 1e-3, singular-value ratio of the centred points >= 1e-3 i.e. not collinear / "
                        "degenerate) and it reproduces on two fresh fits of the pristine class",
        "monitor:fits": mon,
        "phase_wall_s": phase,
    }
    if os.environ.get("C15_TIMING"):
        print("phases:", phase, {g["name"]: (g["tlc_wall_s"], g.get("terminal_states")) for g in gen_info},
              "relabelled B/A:", stats.get("relabelled", 0), real_summ["accepted_up_to_a_relabelling_of_the_clusters"], flush=True)
    for k, v in sorted(mon_keys.items()):
        cov[k] = v
    ck.finish(cov)


core.main_guard(main)
