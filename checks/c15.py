#!/venv/bin/python
"""C15 - weighted mixture and hierarchical clustering models satisfy their invariants (PARTIAL).

Decided with the specification (specs/HGMSplit.tla, specs/HGMTrace.tla): the hierarchical sentence -
every training point exactly one label in [0,K), K <= cap (= max_iterations + 1), no accepted split with
a child below min_points, a cluster below min_points is never split, predict in [0,K) for any query.

  * TLC explores HGMSplit exhaustively over all oracles (BIC-improvement rank vs threshold, child
    partition) within small bounds and checks the invariants; seeded wrong variants of the spec
    (Mut_...) must each be refuted (non-vacuity of the invariants).
  * Binding B: every terminal behaviour enumerated by TLC (its oracle log is part of the state) is
    replayed into the real HierarchicalGaussianMixture.fit/predict/predict_proba with the name
    `GaussianMixture` of the tempest.cluster namespace pointed at a scripted fake; evaluation order,
    which candidates are asked for a partition, accepted splits (verbose output), labels_, n_clusters_
    and predictions are compared with the spec's behaviour.
  * Binding A: real fits on seeded generated data with a logging subclass of GaussianMixture installed
    the same way; the recorded oracle answers (order ranks of improvement / threshold, child labels),
    the final labelling and the predicted labels form a trace that TLC validates against HGMTrace.tla
    (which conjoins the original HGMSplit actions), batched per JVM.

Only MONITORED (not decided by the model, labelled `monitor:` in the evidence): the EM mixture
predicates of the first sentence, logged for every real GaussianMixture.fit ('full' and 'diag').
Not addressed: integer weights == replication.  Excluded: 'tied' / 'spherical'.
"""
import contextlib
import io
import itertools
import math
import os
import re
import sys
import time
import warnings
from concurrent.futures import ThreadPoolExecutor

sys.path.insert(0, os.path.dirname(os.path.dirname(os.path.abspath(__file__))))
from vlib import core, tla, tlc  # noqa: E402

INVARIANTS = ["TypeOK", "ClustersPartition", "LabelsPartition", "CapRespected", "SplitChildrenOK",
              "NeverSplitSmall", "AcceptedAboveThreshold", "PredictInRange", "OneSplitPerIteration"]

CFG = """INIT Init
NEXT Next
CONSTANTS
  Ns = {ns}
  MinPtsSet = {mp}
  MaxIterSet = {mi}
  R = {R}
  Variant = "{variant}"
""" + "".join(f"INVARIANT {i}\n" for i in INVARIANTS) + "CHECK_DEADLOCK FALSE\n"

# seeded wrong variants of the specification and the invariant each must violate
SPEC_MUTANTS = {
    "Mut_NoChildSize": {"SplitChildrenOK", "ClustersPartition"},
    "Mut_CapOffByOne": {"CapRespected"},
    "Mut_NoSizeGuard": {"NeverSplitSmall"},
    "Mut_GeThreshold": {"AcceptedAboveThreshold"},
    "Mut_LabelFromOne": {"LabelsPartition"},
}
MUT_CONSTS = dict(ns="{1, 3, 4}", mp="{1, 2}", mi="{1, 2}", R=1)


def spec_jobs(tier):
    """(name, constants) of the exhaustive generator runs."""
    jobs = [
        ("small-family", dict(ns="{1, 2, 3, 4}", mp="{1, 2, 3}", mi="{0, 1, 2}", R=2)),
        ("n5", dict(ns="{5}", mp="{2}", mi="{2}", R=2)),
    ]
    if tier == "thorough":
        jobs += [
            ("n4-deep", dict(ns="{4}", mp="{1, 2}", mi="{3}", R=2)),
            ("n5-r3", dict(ns="{5}", mp="{2}", mi="{1, 2}", R=3)),
            ("n6", dict(ns="{6}", mp="{2, 3}", mi="{1, 2}", R=2)),
            ("n7", dict(ns="{7}", mp="{3}", mi="{2}", R=2)),
            ("n8", dict(ns="{8}", mp="{4}", mi="{2}", R=1)),
            ("n8-one", dict(ns="{8}", mp="{2, 3}", mi="{1}", R=2)),
        ]
    return jobs


# --------------------------------------------------------------------------- dump reading
_HDR = re.compile(r"^State (\d+):")


def iter_dump_blocks(path):
    block = []
    with open(path) as f:
        for ln in f:
            ln = ln.rstrip("\n")
            if _HDR.match(ln):
                if block:
                    yield block
                block = []
            elif ln.startswith("/\\") or (block and ln.strip()):
                block.append(ln)
    if block:
        yield block


def block_pc(block):
    for ln in block:
        if ln.startswith("/\\ pc = "):
            return ln[len("/\\ pc = "):].strip().strip('"')
    return None


# --------------------------------------------------------------------------- binding B: scripted fake
class ReplayMismatch(Exception):
    pass


class Script:
    """One spec behaviour (the oracle log of a terminal state) driving the fake mixture model."""

    def __init__(self, np, log, n, d, ctype, variant):
        self.np = np
        self.log = log
        self.n = n
        self.d = d
        self.ctype = ctype
        self.variant = variant
        self.pos = 0            # next log entry to be consumed by a parent bic() call
        self.cur = None         # entry under evaluation
        self.cur_pred = False   # predict called for the entry under evaluation
        self.final_fits = []    # ids of 1-component fits that never had bic() called
        self.pending = None     # the last 1-component instance fitted (parent or final: unknown until bic)
        self.hgm = None
        self.gt_per_iter = {}
        for e in log:
            if e["imp"] >= 2:
                self.gt_per_iter[e["it"]] = self.gt_per_iter.get(e["it"], 0) + 1

    def close_entry(self):
        if self.cur is not None and self.cur["asked"] != self.cur_pred:
            raise ReplayMismatch(
                f"evaluation #{self.pos} (iteration {self.cur['it']}, cluster position {self.cur['pos'] - 1}): "
                f"child predict called={self.cur_pred}, spec says asked={self.cur['asked']}")
        self.cur = None
        self.cur_pred = False

    def flush_pending(self):
        if self.pending is not None:
            self.final_fits.append(self.pending.ids)
            self.pending = None

    def imp_value(self, e, thr):
        np = self.np
        r = e["imp"]
        if r == -1:
            return float("nan")
        if r == 0:  # a value below the threshold that can never be the best
            return [-math.inf, thr - 1.0, float(np.nextafter(thr, -np.inf))][self.variant % 3]
        if r == 1:  # exactly the threshold: `>` must reject
            return thr
        if self.variant % 2 == 1 and self.gt_per_iter.get(e["it"], 0) == 1:
            return float(np.nextafter(thr, np.inf))  # single qualifying candidate: just above threshold
        return 1.0e6 + r


def make_fake(script):
    np = script.np

    class FakeGaussianMixture:
        def __init__(self, n_components=1, covariance_type="full", max_iter=1000, n_init=1, tol=1e-3,
                     reg_covar=1e-6, random_state=None):
            self.n_components = n_components
            self.covariance_type = covariance_type
            self.ids = None
            self.weights_ = None
            self.means_ = None
            self.covariances_ = None
            self.is_parent = False

        def fit(self, X, sample_weight=None):
            s = script
            ids = tuple(int(round(float(w))) for w in sample_weight)
            if len(ids) != X.shape[0]:
                raise ReplayMismatch("fit: data and weights differ in length")
            self.ids = ids
            d = X.shape[1]
            if self.n_components == 1:
                s.flush_pending()
                s.pending = self
                self.weights_ = np.ones(1)
                self.means_ = X[:1].copy()  # centre of a cluster := its lowest-numbered point
                cv = s.cov_variant
                if cv == "good":
                    full = np.eye(d) * 1e-4
                elif cv == "nan":
                    full = np.full((d, d), np.nan)
                elif cv == "negdef":
                    full = -np.eye(d)
                else:
                    full = np.zeros((d, d))
                self.covariances_ = full[None, :, :] if self.covariance_type == "full" else np.diag(full)[None, :].copy()
            else:
                if s.cur is None or s.pending is not None:
                    raise ReplayMismatch("two-component fit without a preceding parent bic()")
                if frozenset(ids) != s.cur["ids"]:
                    raise ReplayMismatch(f"child model fitted on {sorted(ids)}, spec evaluates {sorted(s.cur['ids'])}")
                self.weights_ = np.array([0.5, 0.5])
                self.means_ = np.vstack([X[:1], X[-1:]])
                self.covariances_ = np.stack([np.eye(d)] * 2)
            return self

        def bic(self, X):
            s = script
            if self.n_components == 1:
                if s.pending is not self:
                    raise ReplayMismatch("bic() on a model that was not the last one fitted")
                s.pending = None
                s.close_entry()
                if s.pos >= len(s.log):
                    raise ReplayMismatch(
                        f"code evaluates a candidate (points {sorted(self.ids)}) after the spec's {len(s.log)} evaluations")
                e = s.log[s.pos]
                s.pos += 1
                if frozenset(self.ids) != e["ids"]:
                    raise ReplayMismatch(
                        f"evaluation #{s.pos}: code evaluates points {sorted(self.ids)}, spec evaluates {sorted(e['ids'])}")
                s.cur = e
                w = np.array(self.ids, dtype=float)
                thr = s.hgm.threshold_modifier * s.hgm._compute_bic_tolerance(X.shape[1], w)
                self.thr = thr
                return s.imp_value(e, thr)
            return 0.0  # improvement = parent_bic - 0.0 = parent_bic exactly

        def predict(self, X):
            s = script
            if self.n_components != 2 or s.cur is None or frozenset(self.ids) != s.cur["ids"]:
                raise ReplayMismatch("predict() on an unexpected model")
            if s.cur_pred:
                raise ReplayMismatch("child predict() called twice")
            s.cur_pred = True
            if not s.cur["asked"]:
                raise ReplayMismatch(
                    f"evaluation #{s.pos} (rank {s.cur['imp']} vs threshold rank {s.cur['thr']}): code asks the child "
                    f"model for a partition, spec does not")
            c1 = s.cur["c1"]
            return np.array([0 if i in c1 else 1 for i in self.ids], dtype=int)

    return FakeGaussianMixture


_SPLIT_RE = re.compile(r"^Iteration (\d+): Split cluster (\d+) into (\d+) and (\d+)")
_STOP_RE = re.compile(r"^No further splits accepted after (\d+) iterations")


def replay_state(ck, np, cluster, st, variant, predicted_tbl, stats):
    """Replay one terminal spec state (pc = done) into the real HierarchicalGaussianMixture."""
    n, mp, mi = st["n"], st["minPts"], st["maxIter"]
    log = list(st["log"])
    # configuration variant
    d = 1 + (variant // 2) % 2
    normalize = bool(variant % 2)
    ctype = "diag" if (variant // 4) % 4 == 3 else "full"
    modifier = [1.0, 0.5, 2.5][(variant // 3) % 3]
    use_none = (mp == 2 * d) and (variant // 5) % 2 == 0   # min_points=None -> 2 * n_features
    spacing = [1000.0, 1.0, 0.125][(variant // 7) % 3]
    X = np.zeros((n, d))
    X[:, 0] = spacing * np.arange(1, n + 1)
    if d == 2:
        X[:, 1] = 0.5 * spacing * (np.arange(n) % 2)
    w = np.arange(1, n + 1, dtype=float)   # the weight of a point is its id: the fake decodes clusters from it
    sc = Script(np, log, n, d, ctype, variant)
    sc.cov_variant = "good"
    Fake = make_fake(sc)
    hgm = cluster.HierarchicalGaussianMixture(
        n_init=1, max_iterations=mi, min_points=None if use_none else mp, threshold_modifier=modifier,
        covariance_type=ctype, verbose=True, normalize=normalize)
    sc.hgm = hgm
    rep = {"state": {k: st[k] for k in ("n", "minPts", "maxIter", "clusters", "labels", "K", "log", "splits")},
           "variant": variant, "config": dict(d=d, normalize=normalize, covariance_type=ctype, threshold_modifier=modifier,
                                             min_points=None if use_none else mp, max_iterations=mi, spacing=spacing)}
    real = cluster.GaussianMixture
    out = io.StringIO()
    cluster.GaussianMixture = Fake
    try:
        try:
            with contextlib.redirect_stdout(out):
                hgm.fit(X, w)
            sc.close_entry()
            sc.flush_pending()
            if sc.pos != len(log):
                raise ReplayMismatch(f"code made {sc.pos} candidate evaluations, spec {len(log)}")
        except ReplayMismatch as ex:
            ck.violation("replayB:split-sequence", f"scripted replay diverges from HGMSplit: {ex}", rep)
            return
        except Exception as ex:
            ck.violation("replayB:fit-raised", f"fit raised {ex!r} on a scripted behaviour", rep)
            return
        stats["replayed"] += 1
        K = st["K"]
        want_labels = [x for x in st["labels"]]
        clusters = st["clusters"]
        # accepted splits as printed by the code (verbose) vs the spec's ghost `splits`
        got_splits, stop_it = [], None
        for ln in out.getvalue().splitlines():
            m = _SPLIT_RE.match(ln)
            if m:
                got_splits.append((int(m.group(1)), int(m.group(2))))
            m = _STOP_RE.match(ln)
            if m:
                stop_it = int(m.group(1))
        want_splits = [(s["it"], s["parent"] - 1) for s in st["splits"]]
        bad = None
        if hgm.n_clusters_ != K:
            bad = ("replayB:n-clusters", f"n_clusters_={hgm.n_clusters_}, spec K={K}")
        elif hgm.n_clusters_ > mi + 1:
            bad = ("replayB:cap", f"n_clusters_={hgm.n_clusters_} exceeds cap {mi + 1}")
        elif list(map(int, hgm.labels_)) != want_labels:
            bad = ("replayB:labels", f"labels_={list(map(int, hgm.labels_))}, spec {want_labels}")
        elif got_splits != want_splits:
            bad = ("replayB:accepted-splits", f"accepted (iteration, parent) {got_splits}, spec {want_splits}")
        elif (stop_it is not None) != (len(want_splits) < st["iter"]) or (stop_it is not None and stop_it != st["iter"]):
            bad = ("replayB:stop", f"stop message iteration {stop_it}, spec iter={st['iter']} splits={len(want_splits)}")
        else:
            fin_want = [frozenset(c) for c in clusters if len(c) >= d]
            if [frozenset(f) for f in sc.final_fits] != fin_want:
                bad = ("replayB:final-clusters", f"final per-cluster fits on {sc.final_fits}, spec clusters {clusters}")
        if bad:
            ck.violation(bad[0], bad[1], rep)
            return
        if want_splits:
            stats["with_split"] += 1
        # ---- predictions
        ckey = tuple(clusters)
        centres_exact = (ctype == "full" or d == 1) and all(len(c) >= d for c in clusters)
        centres = np.array(hgm.cluster_centers_, dtype=float).reshape(K, d)
        lo, hi = X.min(axis=0), X.max(axis=0)
        corners = np.array(list(itertools.product(*[(lo[j], hi[j]) for j in range(d)])))
        unit_corners = np.array(list(itertools.product(*[(0.0, 1.0)] * d)))
        anyq = np.vstack([X, X[:1], X[:1], corners, unit_corners, np.full((1, d), 1e6), np.full((1, d), -1e6),
                          np.full((1, d), 1e300), np.zeros((1, d)), 0.5 * (lo + hi)[None, :]])
        covs = ["good"] + ([["nan", "negdef", "zero"][(variant // 3) % 3]] if variant % 3 == 0 else [])
        for cv in covs:
            if cv != "good":
                # refit with degenerate component covariances: only the range of predictions is compared
                sc2 = Script(np, log, n, d, ctype, variant)
                sc2.cov_variant = cv
                sc2.hgm = hgm
                cluster.GaussianMixture = make_fake(sc2)
                try:
                    with contextlib.redirect_stdout(io.StringIO()):
                        hgm.fit(X, w)
                except Exception as ex:
                    ck.violation("replayB:fit-raised", f"fit raised {ex!r} on a scripted behaviour (cov {cv})", rep)
                    return
            for kind, Q in (("centre", centres), ("any", anyq)):
                if kind == "centre" and cv != "good":
                    continue
                try:
                    with warnings.catch_warnings():
                        warnings.simplefilter("ignore")
                        got = np.asarray(hgm.predict(Q))
                        proba = np.asarray(hgm.predict_proba(Q))
                except Exception as ex:
                    ck.violation("replayB:predict-raised", f"predict/predict_proba raised {ex!r} ({kind} queries, cov {cv})", rep)
                    return
                stats["predictions"] += len(Q)
                if got.shape != (len(Q),) or not np.issubdtype(got.dtype, np.integer):
                    ck.violation("replayB:predict-shape", f"predict returned shape {got.shape} dtype {got.dtype}", rep)
                    return
                if proba.shape != (len(Q), K):
                    ck.violation("replayB:predict-proba-shape", f"predict_proba shape {proba.shape}, K={K}", rep)
                    return
                for i, g in enumerate(got.tolist()):
                    if kind == "centre" and centres_exact:
                        allowed = predicted_tbl.get((ckey, "centre", i))
                        stats["centre_exact"] += 1
                    else:
                        allowed = predicted_tbl.get((ckey, "any", -1))
                    if allowed is None:
                        raise RuntimeError(f"spec has no Predict state for clusters {ckey} {kind} {i}")
                    if g not in allowed:
                        key = "replayB:predict-range" if not (0 <= g < K) else "replayB:predict-centre-label"
                        ck.violation(key, f"predict({Q[i].tolist()}) = {g}, spec allows {sorted(allowed)} (K={K}, {kind} query, cov {cv})",
                                     dict(rep, query=Q[i].tolist()))
                        return
        if len(ck.samples) < 2 and len(want_splits) >= 2:
            ck.sample({"binding": "B", "n": n, "min_points": mp, "max_iterations": mi, "config": rep["config"],
                       "oracle_log": [{k: (sorted(v) if isinstance(v, frozenset) else v) for k, v in e.items()} for e in log],
                       "labels": want_labels, "K": K})
    finally:
        cluster.GaussianMixture = real


def run_generator(ck, np, cluster, name, consts, stats, nvariants):
    res = tlc.run_tlc("HGMSplit", CFG.format(variant="intended", **consts), dump=True, coverage=True, workers=8, timeout=1500)
    info = {"name": name, "constants": consts, "states": res.distinct, "transitions": res.generated, "depth": res.depth,
            "tlc_wall_s": round(res.wall_s, 1), "coverage": {k: list(v) for k, v in res.coverage.items()}}
    if res.status != "ok":
        ck.violation("spec:" + res.violated, f"TLC: {res.violated} violated on HGMSplit.tla ({name})", {"trace": res.error_trace, "constants": consts})
        res.cleanup()
        return info, res
    # pass 1: the spec's Predict behaviour per final clustering
    predicted = {}
    done_blocks = []
    for blk in iter_dump_blocks(res.dump_path):
        pc = block_pc(blk)
        if pc == "predicted":
            st = tla.parse_state_block(blk)
            q = st["query"]
            predicted.setdefault((tuple(st["clusters"]), q["kind"], q["k"]), set()).add(st["pred"])
        elif pc == "done":
            done_blocks.append(blk)
    info["terminal_states"] = len(done_blocks)
    t0 = time.time()
    for i, blk in enumerate(done_blocks):
        st = tla.parse_state_block(blk)
        for v in range(nvariants):
            variant = (i * 7 + v * 13 + ck.seed) % 840
            replay_state(ck, np, cluster, st, variant, predicted, stats)
        if st["splits"]:
            stats["nontrivial"].add((st["n"], st["minPts"], st["maxIter"], tuple(_freeze_log(st["log"]))))
    info["replay_wall_s"] = round(time.time() - t0, 1)
    res.cleanup()
    return info, res


def _freeze_log(log):
    return tuple((e["it"], e["pos"], e["imp"], e["asked"], tuple(sorted(e["c1"]))) for e in log)


def run_spec_mutant(variant):
    return variant, tlc.run_tlc("HGMSplit", CFG.format(variant=variant, **MUT_CONSTS), workers=2, timeout=600)


def main():
    ck = core.Check("C15", "model_checking")
    core.import_repo()
    import numpy as np
    from tempest import cluster

    stats = {"replayed": 0, "with_split": 0, "predictions": 0, "centre_exact": 0, "nontrivial": set()}
    # ---- spec: seeded wrong variants must be refuted (non-vacuity), in parallel with the first generator run
    pool = ThreadPoolExecutor(max_workers=6)
    mut_futs = [pool.submit(run_spec_mutant, v) for v in SPEC_MUTANTS]

    gen_info = []
    states = transitions = 0
    cov_total = {}
    nvariants = 1 if ck.tier == "quick" else 2
    for name, consts in spec_jobs(ck.tier):
        info, res = run_generator(ck, np, cluster, name, consts, stats, nvariants)
        gen_info.append(info)
        states += res.distinct
        transitions += res.generated
        for k, (dd, tt) in res.coverage.items():
            od, ot = cov_total.get(k, (0, 0))
            cov_total[k] = (od + dd, ot + tt)

    refuted = {}
    for f in mut_futs:
        v, r = f.result()
        refuted[v] = r.violated if r.status == "violation" else None
        r.cleanup()
        if refuted[v] not in SPEC_MUTANTS[v]:
            raise RuntimeError(f"vacuity: seeded spec variant {v} was not refuted as expected (TLC: {r.status} {r.violated})")
    actions = ["BeginIter", "CapStop", "SkipSmall", "Evaluate", "AcceptBest", "Stop", "Finalize", "Predict"]
    for a in actions:
        if cov_total.get(a, (0, 0))[1] == 0:
            raise RuntimeError(f"vacuity: action {a} never taken in the generator runs")

    ck.assumptions += [
        "the EM fits / BIC values / child predictions of GaussianMixture are an arbitrary oracle in the model "
        "(the mixture invariants of the property's first sentence are monitored, not decided)",
        "scripted replays use integer sample weights 1..n (exact doubles) as point identities",
    ]
    ck.finish({
        "states": states,
        "transitions": transitions,
        "traces_validated_against_impl": stats["replayed"],
        "evaluations": stats["replayed"] + stats["predictions"],
        "distinct_nontrivial": len(stats["nontrivial"]),
        "rule": "non-trivial = a spec behaviour (distinct oracle log) in which at least one split is accepted; every terminal "
                "state of the exhaustive HGMSplit runs is replayed into the real fit/predict/predict_proba",
        "exhaustive": True,
        "generator_runs": gen_info,
        "seeded_spec_variants_refuted": refuted,
        "replays_with_accepted_split": stats["with_split"],
        "predictions_compared": stats["predictions"],
        "centre_queries_compared_exactly": stats["centre_exact"],
        "tlc_coverage": {k: list(v) for k, v in cov_total.items()},
    })


core.main_guard(main)
