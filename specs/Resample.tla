------------------------------ MODULE Resample ------------------------------
(***************************************************************************)
(* C06 - resampling returns exactly n valid indices and is unbiased.       *)
(*                                                                         *)
(* tempest.tools.systematic_resample as a state machine with one action    *)
(* per step of the code's loop                                             *)
(*                                                                         *)
(*     positions = (u0 + arange(n)) / n                                    *)
(*     j = 0; cumulative_sum = weights[0]                  -- Begin        *)
(*     for i in range(n):                                                  *)
(*         while positions[i] > cumulative_sum:                            *)
(*             j += 1; cumulative_sum += weights[j]        -- Advance      *)
(*         indeces[i] = j                                  -- Emit         *)
(*     return indeces                                      -- Finish       *)
(*                                                                         *)
(* in two variants selected by the constant Variant:                       *)
(*   "intended"  half-open cells [c_{j-1}, c_j)  (comparison >=), j never  *)
(*               moves past the last index with positive weight;           *)
(*   "impl"      the pinned code: comparison >, j unbounded - running off  *)
(*               the end of the weights is the outcome err = TRUE.         *)
(*                                                                         *)
(* Inputs (enumerated in Init, see ResampleOps for the encoding):          *)
(*   fam = "exact"  weights a/D summing to exactly one (zeros anywhere),   *)
(*                  offsets k/(2D): even k = every possible breakpoint of  *)
(*                  the partition of [0,1), odd k = every cell midpoint;   *)
(*   fam = "tol"    the tolerance clause: coarse weights C/dc on the       *)
(*                  denominator TQ with one entry moved by -/+ TE units    *)
(*                  (sum = 1 -/+ TE/TQ, no renormalisation happens), and   *)
(*                  offsets at, just below and just above every breakpoint *)
(*                  (in particular 1 - 1/TQ, "just below one") plus the    *)
(*                  coarse midpoints.  The harness maps the fine unit 1/TQ *)
(*                  to 2^-30 (order preserving, see checks/c06.py);        *)
(*   fam = "degen"  nearly degenerate but legal weights on a huge dyadic    *)
(*                  denominator D = 2^17..2^24: (D-1,1)/D, (1,D-1)/D,      *)
(*                  (1,D-2,1)/D, (D-3,1,1,1)/D, (D-1,0,1)/D.  The 2D        *)
(*                  offsets cannot be enumerated; the specification        *)
(*                  computes the finite partition instead                  *)
(*                  (ResampleOps!PartitionOffsets: 0, every breakpoint,    *)
(*                  its neighbours one unit away, every cell midpoint) and *)
(*                  CoverageComplete / Unbiased are checked on it exactly; *)
(*   fam = "mult"   multinomial resampling as inverse-CDF lookup           *)
(*                  idx_i = min{j : r_i < cdf_j}, one action per draw.     *)
(***************************************************************************)
EXTENDS ResampleOps, TLC

CONSTANTS Variant,     \* "intended" | "impl"
          Ns, Ds, MaxLen,          \* exact family: n, denominators, max length of the weight vector
          TolNs, TolDs, TolMaxLen, \* tolerance family ({} for TolDs disables it)
          TQ, TE,                  \* fine denominator (2^11) and size of the perturbation (8 units)
          MultNs, MultDs, MultMaxLen,
          DegDs, DegNs,            \* degenerate family: huge denominators, all n in DegNs
          DegBigDs, DegBigNs       \* ... and a few larger n on a subset of the vectors

VARIABLES fam, dc, n, a, Q, k, r, pc, i, j, csum, idx, err, alt

vars == <<fam, dc, n, a, Q, k, r, pc, i, j, csum, idx, err, alt>>

Vecs(len, D) == {v \in [1..len -> 0..D] : Total(v) = D}

Comb(nn, aa, QQ, kk) == IF Variant = "intended" THEN Intended(nn, aa, QQ, kk) ELSE Impl(nn, aa, QQ, kk)
Other(nn, aa, QQ, kk) == IF Variant = "intended" THEN Impl(nn, aa, QQ, kk) ELSE Intended(nn, aa, QQ, kk)

\* offsets explored in the tolerance family, in units 1/(2*TQ)
TolOffsets(nn, D) ==
    LET G  == (2 * TQ) \div D
        E2 == 2 * nn * TE
        F  == {0, 2, -2, E2, -E2, E2 + 2, E2 - 2, 2 - E2, -E2 - 2}
    IN  ({m * G + f : m \in 0..D, f \in F} \cup {m * G + G \div 2 : m \in 0..(D - 1)}) \cap (0..(2 * TQ - 1))

DegVecs(D)    == {<<D - 1, 1>>, <<1, D - 1>>, <<1, D - 2, 1>>, <<D - 3, 1, 1, 1>>, <<D - 1, 0, 1>>}
DegBigVecs(D) == {<<D - 1, 1>>, <<1, D - 2, 1>>}

OffsetSet == IF fam = "tol" THEN TolOffsets(n, dc)
             ELSE IF fam = "degen" THEN PartitionOffsets(n, a, Q)
             ELSE 0..(2 * Q - 1)

-----------------------------------------------------------------------------
InitExact ==
    /\ fam = "exact"
    /\ \E D \in Ds, len \in 1..MaxLen :
         /\ Q = D /\ dc = D
         /\ a \in Vecs(len, D)
    /\ n \in Ns
    /\ k \in 0..(2 * Q - 1)
    /\ r = <<>>

InitTol ==
    /\ fam = "tol"
    /\ Q = TQ
    /\ \E D \in TolDs, len \in 1..TolMaxLen :
         /\ dc = D
         /\ \E C \in Vecs(len, D), p \in 1..len, s \in {-1, 1} :
              /\ C[p] * (TQ \div D) + s * TE >= 0
              /\ a = [m \in 1..len |-> C[m] * (TQ \div D) + (IF m = p THEN s * TE ELSE 0)]
    /\ n \in TolNs
    /\ k \in TolOffsets(n, dc)
    /\ r = <<>>

InitDegen ==
    /\ fam = "degen"
    /\ \/ \E D \in DegDs    : Q = D /\ dc = D /\ a \in DegVecs(D)    /\ n \in DegNs
       \/ \E D \in DegBigDs : Q = D /\ dc = D /\ a \in DegBigVecs(D) /\ n \in DegBigNs
    /\ k \in PartitionOffsets(n, a, Q)
    /\ r = <<>>

InitMult ==
    /\ fam = "mult"
    /\ \E D \in MultDs, len \in 1..MultMaxLen :
         /\ Q = D /\ dc = D
         /\ a \in Vecs(len, D)
    /\ n \in MultNs
    /\ k = 0
    /\ r \in [1..n -> 0..(2 * Q - 1)]          \* uniforms r_i/(2Q): lattice points and cell midpoints

Init ==
    /\ (InitExact \/ InitTol \/ InitDegen \/ InitMult)
    /\ pc = "start" /\ i = 0 /\ j = 0 /\ csum = 0 /\ idx = <<>> /\ err = FALSE
    /\ alt = IF fam = "mult" THEN [out |-> <<>>, err |-> FALSE] ELSE Other(n, a, Q, k)

\* ---- systematic comb ----
Begin ==
    /\ pc = "start" /\ fam # "mult"
    /\ j' = 1 /\ csum' = a[1] /\ pc' = "loop"
    /\ UNCHANGED <<fam, dc, n, a, Q, k, r, i, idx, err, alt>>

LoopCond ==
    IF Variant = "intended" THEN PosGE(n, Q, k, i, csum) /\ j < LastPos(a)
                            ELSE PosGT(n, Q, k, i, csum)

Advance ==
    /\ pc = "loop" /\ i < n /\ LoopCond
    /\ IF j + 1 > Len(a)
         THEN /\ err' = TRUE /\ pc' = "done"            \* weights[j] raises IndexError
              /\ UNCHANGED <<j, csum>>
         ELSE /\ j' = j + 1 /\ csum' = csum + a[j + 1]
              /\ UNCHANGED <<err, pc>>
    /\ UNCHANGED <<fam, dc, n, a, Q, k, r, i, idx, alt>>

Emit ==
    /\ pc = "loop" /\ i < n /\ ~LoopCond
    /\ idx' = Append(idx, j) /\ i' = i + 1
    /\ UNCHANGED <<fam, dc, n, a, Q, k, r, pc, j, csum, err, alt>>

Finish ==
    /\ pc = "loop" /\ i = n
    /\ pc' = "done"
    /\ UNCHANGED <<fam, dc, n, a, Q, k, r, i, j, csum, idx, err, alt>>

\* ---- multinomial: one lookup per uniform ----
Cdf2 == [m \in DOMAIN a |-> 2 * SumTo(a, m)]           \* cdf_j in the units of r

MultDraw ==
    /\ pc = "start" /\ fam = "mult" /\ i < n
    /\ idx' = Append(idx, Lookup(r[i + 1], Cdf2)) /\ i' = i + 1
    /\ UNCHANGED <<fam, dc, n, a, Q, k, r, pc, j, csum, err, alt>>

MultFinish ==
    /\ pc = "start" /\ fam = "mult" /\ i = n
    /\ pc' = "done"
    /\ UNCHANGED <<fam, dc, n, a, Q, k, r, i, j, csum, idx, err, alt>>

Next == Begin \/ Advance \/ Emit \/ Finish \/ MultDraw \/ MultFinish

Spec == Init /\ [][Next]_vars

-----------------------------------------------------------------------------
(* Properties (C06).  The shape clauses are stated for the partial result   *)
(* as well, i.e. they are evaluated at every step of the loop.              *)

Done == pc = "done"

TypeOK ==
    /\ fam \in {"exact", "tol", "degen", "mult"} /\ pc \in {"start", "loop", "done"}
    /\ n \in Nat \ {0} /\ i \in 0..n /\ Len(idx) = i /\ err \in BOOLEAN
    /\ Total(a) > 0

NoError               == ~err
ExactlyNIndices       == (Done /\ ~err) => ExactlyN(n, idx)
IndicesInRange        == AllInRange(a, idx) /\ (pc = "loop" => j \in DOMAIN a)
IndicesNonDecreasing  == fam # "mult" => NonDecreasing(idx)
ZeroWeightNeverChosen == NoZeroWeight(a, idx)
FloorCeilLaw          == (Done /\ ~err /\ fam # "mult") => FloorCeil(n, a, Q, idx)
\* the same law restricted to strictly positive weights (separates "an extra copy of the first
\* index" from "a zero-weight index selected" in the counterexamples of the impl variant)
FloorCeilLawPositive  == (\A m \in DOMAIN a : a[m] > 0) => FloorCeilLaw

\* the loop-shaped state machine, the recursive operator and the definition by cells coincide
LoopMatchesOperator ==
    (Done /\ fam # "mult") => [out |-> idx, err |-> err] = Comb(n, a, Q, k)
LoopMatchesDefinition ==
    (Done /\ fam # "mult" /\ Variant = "intended") =>
        \A p \in DOMAIN idx : idx[p] = CellIndex(n, a, Q, k, p - 1)

\* inside a cell of the offset partition the two closure conventions cannot differ
\* (this is what makes the exact comparison with the implementation at cell midpoints legitimate)
InteriorConventionFree ==
    (pc = "start" /\ fam \in {"exact", "degen"} /\ ~IsBreak(n, a, Q, k)) => alt = Comb(n, a, Q, k)

\* the enumerated offsets contain every breakpoint and an interior point of every cell:
\* "every u0 in [0,1)" is covered
CoverageComplete ==
    (pc = "start" /\ fam # "mult" /\ k = 0) => CoverageOK(n, a, Q, OffsetSet)

\* exact unbiasedness as a counting identity over the cells (ResampleOps!UnbiasedOn):
\*     sum over cells  |cell| * copies_j(cell)  =  n * w_j
Unbiased ==
    (pc = "start" /\ fam # "mult" /\ k = 0) =>
        LET K == OffsetSet IN UnbiasedOn(n, a, Q, K, [kk \in K |-> Comb(n, a, Q, kk).out])

\* multinomial: the lookup never leaves the range, never returns a zero-weight index, and the
\* measure of {r : Lookup(r) = j} is exactly w_j (counted on the lattice of cell midpoints)
MultLookupValid ==
    fam = "mult" => \A p \in DOMAIN idx : idx[p] \in DOMAIN a /\ a[idx[p]] > 0
MultUnbiased ==
    (pc = "start" /\ fam = "mult" /\ i = 0 /\ \A p \in DOMAIN r : r[p] = 0) =>
        \A jj \in DOMAIN a :
            Cardinality({x \in 0..(2 * Q - 1) : x % 2 = 1 /\ Lookup(x, Cdf2) = jj}) = a[jj]

=============================================================================
