--------------------------- MODULE PosteriorLink ---------------------------
(***************************************************************************)
(* Posterior.tla "instantiates" Trim.tla: the trimming steps of the        *)
(* posterior() state machine are steps of the trim_weights state machine   *)
(* that C20 checks and binds to tools.trim_weights on its own.             *)
(*                                                                         *)
(* Refinement mapping (Posterior -> Trim):                                 *)
(*     w, bins, essp, i, thN  |->  themselves                              *)
(*     pc    |->  "loop" while trimming, "done" otherwise                  *)
(*     mask  |->  the set of ids in the sequence mask                      *)
(*     amb   |->  the set of names of the raised trimming flags            *)
(* LinkInit:  the state entered by TrimEnter is an initial state of Trim;  *)
(* LinkStep:  every step taken while trimming is Trim!Accept or            *)
(*            Trim!Retreat;                                                *)
(* LinkOps:   the copied operators agree with the originals.               *)
(* Hence every invariant of Trim.tla (UpperSet, ThresholdSet, EssRatio,    *)
(* FirstFromTop, NeverNegative, ...) holds of the trimming phase here.     *)
(***************************************************************************)
EXTENDS Posterior

AmbSet == (IF amb[1] = 1 THEN {"thresh_tie"} ELSE {})
     \cup (IF amb[2] = 1 THEN {"thresh_close"} ELSE {})
     \cup (IF amb[3] = 1 THEN {"ratio_tie"} ELSE {})
     \cup (IF amb[4] = 1 THEN {"ratio_close"} ELSE {})

T == INSTANCE Trim WITH
        w <- w, bins <- bins, essp <- essp, i <- i, thN <- thN,
        pc <- IF pc = "loop" THEN "loop" ELSE "done",
        mask <- ToSet(mask),
        amb <- AmbSet,
        Vals <- 0..MaxSum, MinLen <- 1, MaxLen <- MaxLen,
        Bins <- Bins, EssPct <- EssPct, MarginInv <- MarginInv

LinkInit == (pc = "loop" /\ i = bins - 1) => T!Init

LinkOps ==
    pc = "loop" =>
        LET m == MaskAt(i) IN
        /\ ThetaN(i) = T!ThetaN(i)
        /\ m = T!MaskAt(i)
        /\ RatioGE(m) = T!RatioGE(m)
        /\ {nm \in {"thresh_tie", "thresh_close", "ratio_tie", "ratio_close"} :
               \/ nm = "thresh_tie" /\ ThreshTie(i)
               \/ nm = "thresh_close" /\ ThreshClose(i)
               \/ nm = "ratio_tie" /\ RatioTie(m)
               \/ nm = "ratio_close" /\ RatioClose(m)} = T!Flags(i, m)

\* Trim.tla's own invariants, evaluated on the image of this module's states
LinkInvariants ==
    /\ T!NeverNegative
    /\ T!StopsAtZero
    /\ (Trimming /\ Trimmed) => (T!UpperSet /\ T!ThresholdSet /\ T!EssRatio /\ T!Renormalised
                                  /\ T!Aligned /\ T!FirstFromTop)

LinkStep == [][pc = "loop" => (T!Accept \/ T!Retreat)]_vars

=============================================================================
