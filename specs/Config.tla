------------------------------- MODULE Config -------------------------------
(***************************************************************************)
(* Constructor option lattice of tempest.Sampler (abstract option values),  *)
(* the documented constraint list transcribed as Valid(c), and the expected *)
(* outcome of constructing and running a sampler with configuration c:      *)
(*   ~Valid(c) : rejected with an error at construction, before any          *)
(*               likelihood call;                                           *)
(*   Valid(c)  : construction succeeds and run() completes with the run      *)
(*               postconditions (PSRun!Terminate clauses).                  *)
(* Nothing beyond the property's list is demanded of invalid values.        *)
(*                                                                          *)
(* Used two ways: (1) TLC enumerates the lattice (every one-factor-invalid   *)
(* configuration and a sampled/pairwise part of the valid product) as a      *)
(* state machine Construct -> Run and checks the outcome invariants;         *)
(* (2) observed outcomes of the real Sampler on a covering array are         *)
(* validated against Valid (ObservedOK) - binding direction A.               *)
(***************************************************************************)
EXTENDS Integers, Sequences, FiniteSets, TLC, Json, IOUtils

Domain == [
    kernel     |-> {"tpcn", "rwm"},
    resampler  |-> {"mult", "syst"},
    clustering |-> {"on", "off"},
    normalize  |-> {"on", "off"},
    clusterEvery |-> {"1", "2", "3"},
    cap        |-> {"none", "1", "2"},
    split      |-> {"half", "one", "two"},
    metric     |-> {"ess1", "ess2", "vvsmall", "vvbig"},
    nSteps     |-> {"none", "1", "3"},
    nMaxSteps  |-> {"none", "2", "40"},
    evaluation |-> {"scalar", "vector", "blobs"},
    bounds     |-> {"none", "periodic", "reflective", "both", "emptylists"},   \* emptylists: periodic = [] and reflective = [] (built programmatically)
    pool       |-> {"none", "one", "two", "like"},
    saveEvery  |-> {"none", "1", "3"},
    nParticles |-> {"small", "default"},
    nDim       |-> {"two", "three"} ]

\* one-factor-at-a-time invalid values named by the property
Invalid == [
    kernel     |-> {"unknown", "fragment", "empty"},        \* "hmc"; a fragment of a valid name ("rw"); ""
    resampler  |-> {"unknown", "fragment", "empty"},        \* "strat"; "sys"; ""
    metric     |-> {"ess0", "essneg", "vv0", "vvneg", "ess0vv", "essnegvv"},   \* last two: invalid ess_ratio together with a valid volume target
    evaluation |-> {"vectorblobs"},
    bounds     |-> {"overlap", "outofrange", "negative", "nonint"},
    nParticles |-> {"zero", "neg", "float"},
    nDim       |-> {"zero", "neg", "float"} ]

\* values the property's list does not classify: an integral-valued float (8.0), a numpy integer.  Either outcome conforms -
\* rejected at construction, or accepted and the run completes - but "accepted, then the run fails" does not (the configuration
\* was then neither rejected when the sampler was constructed nor valid).
Unspecified == [
    kernel     |-> {"upper"},                                \* "TPCN": rejected by the pinned code; a case-insensitive reading would also conform
    resampler  |-> {"upper"},
    nParticles |-> {"intfloat", "npint"},
    nDim       |-> {"intfloat", "npint"} ]

Factors == DOMAIN Domain

Valid(c) == \A f \in Factors : c[f] \in Domain[f]
Classified(c) == \A f \in Factors : c[f] \in Domain[f] \/ (f \in DOMAIN Invalid /\ c[f] \in Invalid[f])

Default == [f \in Factors |-> CHOOSE v \in Domain[f] : TRUE]

\* ---------------------------------------------------------------- (2) observed outcomes
Observed == JsonDeserialize(IOEnv.TRACE_FILE)   \* list of [cfg, outcome, evals]

ObsClauses(o) ==
    [CF_ValidRuns     |-> Valid(o.cfg) => o.outcome = "done",
     CF_InvalidReject |-> (Classified(o.cfg) /\ ~Valid(o.cfg)) => o.outcome = "rejected",
     CF_RejectEarly   |-> (~Valid(o.cfg) /\ o.outcome # "done") => o.evals = 0,
     CF_AcceptedRuns  |-> (~Classified(o.cfg)) => o.outcome \in {"rejected", "done"}]

VARIABLES k, fails
vars == <<k, fails>>
Failing(c) == {n \in DOMAIN c : ~c[n]}
Init == k = 1 /\ fails = {}
Next == /\ k <= Len(Observed)
        /\ fails' = Failing(ObsClauses(Observed[k]))
        /\ (IF fails' = {} THEN TRUE ELSE PrintT(<<"FAIL", k, fails'>>))
        /\ k' = k + 1
Spec == Init /\ [][Next]_vars
TypeOK == k \in 1..(Len(Observed) + 1)

\* ---------------------------------------------------------------- (1) coverage obligations on the observed list
\* every one-factor-invalid configuration of the property's list has been observed
AllInvalidObserved ==
    \A f \in DOMAIN Invalid : \A v \in Invalid[f] \cup (IF f \in DOMAIN Unspecified THEN Unspecified[f] ELSE {}) :
        \E j \in DOMAIN Observed : Observed[j].cfg[f] = v /\ \A g \in Factors \ {f} : Observed[j].cfg[g] \in Domain[g]

\* pairwise coverage of the valid product by the observed valid configurations
PairCovered(f, g, v, w) == \E j \in DOMAIN Observed : Valid(Observed[j].cfg) /\ Observed[j].cfg[f] = v /\ Observed[j].cfg[g] = w
AllPairsObserved ==
    \A f, g \in Factors : f # g => \A v \in Domain[f] : \A w \in Domain[g] : PairCovered(f, g, v, w)

CoverageOK == (k = Len(Observed) + 1) => (AllInvalidObserved /\ AllPairsObserved)
=============================================================================
