------------------------------ MODULE VolVar ------------------------------
(***************************************************************************)
(* tempest.tools.volume_variation(x, w) on a small integer lattice, in     *)
(* exact rational arithmetic.                                               *)
(*                                                                          *)
(* The code:  w <- w / sum(w);  mean = sum_i w_i x_i;  xc_i = x_i - mean;   *)
(*            cov = sum_i w_i xc_i xc_i^T;  (rank-deficient -> regularise)  *)
(*            d2_i = xc_i^T cov^-1 xc_i;                                    *)
(*            cv = 0.5 * sqrt( sum_i w_i^2 (d2_i - n_dim)^2 )               *)
(*            n < n_dim + 1 -> return 1e10.                                 *)
(*                                                                          *)
(* Here, with integer points x_i and integer weights:                       *)
(*   v = w / gcd(w)  (normalised weight of i is v_i / W, W = sum v)         *)
(*   M = sum v_i x_i (mean = M / W),  y_i = W x_i - M  (xc_i = y_i / W)     *)
(*   C = sum v_i y_i y_i^T            (cov = C / W^3)                       *)
(*   cov^-1 = W^3 adj(C) / det(C),  q_i = y_i^T adj(C) y_i                  *)
(*   d2_i = W q_i / det(C)                                                  *)
(*   root_i = (v_i / W) (d2_i - n_dim) / 2      and      CV2 = sum root_i^2 *)
(* The code returns sqrt(CV2).  TLC's integers are 32-bit, so CV2 is kept   *)
(* as the sequence of its (gcd-reduced, signed) roots <<num, den>>; it is a *)
(* sum of squares of rationals with positive denominators, hence >= 0, and  *)
(* invariance of the sequence of roots implies invariance of the sum.  The  *)
(* harness adds the squares (exact fractions) when it compares with the     *)
(* implementation.  TLC stops with an error on any 32-bit overflow.         *)
(*                                                                          *)
(* Variant selects the definition:  "code" (as above, the intended one)     *)
(* or one of three seeded wrong definitions that TLC must refute:           *)
(*   "nocentre"  covariance taken about the origin (no centring)            *)
(*   "unnormcov" covariance with the raw, un-normalised weights             *)
(*   "dminus1"   d2_i - 1 instead of d2_i - n_dim                           *)
(***************************************************************************)
EXTENDS Integers, Sequences, FiniteSets, TLC, Functions

CONSTANTS Dims,      \* set of dimensions (subset of {1, 2})
          NMin,      \* numbers of points  NMin .. NMax
          NMax,
          CMin,      \* coordinates CMin .. CMax
          CMax,
          WMin,      \* integer weights WMin .. WMax (>= 1)
          WMax,
          Variant

VARIABLES dim, pts, wts, pc, res

vars == <<dim, pts, wts, pc, res>>

-----------------------------------------------------------------------------
(* Integer / rational helpers *)

Abs(x) == IF x < 0 THEN -x ELSE x

RECURSIVE Gcd(_, _)
Gcd(a, b) == IF b = 0 THEN a ELSE Gcd(b, a % b)          \* a, b >= 0

\* n / dn in lowest terms, dn > 0
Reduce(n, dn) == IF n = 0 THEN <<0, 1>>
                 ELSE LET g == Gcd(Abs(n), dn) IN <<n \div g, dn \div g>>

Sum(f) == SumFunctionOnSet(f, DOMAIN f)

RECURSIVE GcdSeqFrom(_, _)
GcdSeqFrom(w, k) == IF k > Len(w) THEN 0 ELSE Gcd(GcdSeqFrom(w, k + 1), w[k])
GcdSeq(w) == GcdSeqFrom(w, 1)

-----------------------------------------------------------------------------
(* Small matrices (1x1, 2x2) *)

Det(m, d) == IF d = 1 THEN m[1][1] ELSE m[1][1] * m[2][2] - m[1][2] * m[2][1]
Adj(m, d) == IF d = 1 THEN << <<1>> >>
             ELSE << <<m[2][2], -m[1][2]>>, <<-m[2][1], m[1][1]>> >>
Quad(y, a, d) == Sum([r \in 1..d |-> y[r] * Sum([c \in 1..d |-> a[r][c] * y[c]])])

-----------------------------------------------------------------------------
(* The metric *)

Normed(w) == LET g == GcdSeq(w) IN [i \in DOMAIN w |-> w[i] \div g]

\* first moment numerator, centred samples and covariance numerator, as in the code
MeanN(x, v, d)  == [c \in 1..d |-> Sum([i \in DOMAIN x |-> v[i] * x[i][c]])]
Centred(x, v, d) == LET W == Sum(v)  M == MeanN(x, v, d)
                    IN [i \in DOMAIN x |-> [c \in 1..d |-> W * x[i][c] - M[c]]]
CovN(y, v, d)   == [r \in 1..d |-> [c \in 1..d |-> Sum([i \in DOMAIN y |-> v[i] * y[i][r] * y[i][c]])]]

\* one-pass form  E[x x^T] - mean mean^T  (numerator over W^2):  W S2 - M M^T
OnePassN(x, v, d) ==
    LET W == Sum(v)  M == MeanN(x, v, d)
    IN [r \in 1..d |-> [c \in 1..d |->
            W * Sum([i \in DOMAIN x |-> v[i] * x[i][r] * x[i][c]]) - M[r] * M[c]]]

CentreConst(d) == IF Variant = "dminus1" THEN 1 ELSE d

\* everything the properties need, for one instance
Eval(x, w) ==
    LET n == Len(x)
        d == Len(x[1])
    IN  IF n < d + 1 THEN [st |-> "guard", roots |-> <<>>, det |-> 0, sq |-> 0]
        ELSE
        LET v    == Normed(w)
            W    == Sum(v)
            y    == Centred(x, v, d)
            \* "nocentre": second moment about the origin, W x_i in place of W x_i - M
            ycov == IF Variant = "nocentre" THEN [i \in DOMAIN x |-> [c \in 1..d |-> W * x[i][c]]] ELSE y
            C    == CovN(ycov, v, d)
            dl   == Det(C, d)
        IN  IF dl = 0 THEN [st |-> "singular", roots |-> <<>>, det |-> 0, sq |-> 0]
            ELSE
            LET ad == Adj(C, d)
                q  == [i \in DOMAIN x |-> Quad(y[i], ad, d)]
                \* "unnormcov": cov is sum(w) times too large, distances sum(w) times too small
                ws == IF Variant = "unnormcov" THEN Sum(w) ELSE 1
                root(i) ==
                    LET r1 == Reduce(q[i], dl)                      \* d2_i / W
                        d2 == Reduce(W * r1[1], r1[2] * ws)          \* d2_i
                        e  == d2[1] - CentreConst(d) * d2[2]         \* (d2_i - n_dim) * den
                    IN  Reduce(v[i] * e, 2 * W * d2[2])
            IN  [st |-> "ok", roots |-> [i \in DOMAIN x |-> root(i)], det |-> dl,
                 sq |-> Sum([i \in DOMAIN x |-> v[i] * q[i]]) * ws]

-----------------------------------------------------------------------------
(* Transformations of an instance *)

Affine(A, b, x, d) ==
    [i \in DOMAIN x |-> [r \in 1..d |-> Sum([c \in 1..d |-> A[r][c] * x[i][c]]) + b[r]]]

Ident(d)  == IF d = 1 THEN << <<1>> >> ELSE << <<1, 0>>, <<0, 1>> >>
Zero(d)   == [r \in 1..d |-> 0]

\* invertible integer linear maps: axis scalings, shear, rotation by 90 degrees, coordinate swap,
\* a scaling composed with the shear, a reflection
Maps(d) == IF d = 1 THEN { << <<2>> >>, << <<-3>> >>, << <<-1>> >> }
           ELSE { << <<2, 0>>, <<0, 1>> >>,  << <<1, 0>>, <<0, 3>> >>,
                  << <<1, 1>>, <<0, 1>> >>,  << <<0, -1>>, <<1, 0>> >>,
                  << <<0, 1>>, <<1, 0>> >>,  << <<2, 1>>, <<0, 1>> >>,
                  << <<-1, 0>>, <<0, 1>> >> }
Shifts(d) == IF d = 1 THEN { <<5>>, <<-7>> } ELSE { <<5, -7>>, <<-4, 0>>, <<0, 9>> }

ScaleW(a, w) == [i \in DOMAIN w |-> a * w[i]]

\* generators of the symmetric group on 1..n : the transposition (1 2) and the cycle (1 2 .. n)
PermGens(n) == { [i \in 1..n |-> IF i = 1 THEN 2 ELSE IF i = 2 THEN 1 ELSE i],
                 [i \in 1..n |-> IF i = n THEN 1 ELSE i + 1] }
Permute(p, s) == [i \in DOMAIN s |-> s[p[i]]]

-----------------------------------------------------------------------------
(* State machine: one instance -> guard | regularise | evaluate *)

NC == CMax - CMin + 1
NW == WMax - WMin + 1
RECURSIVE Pow(_, _)
Pow(b, e) == IF e = 0 THEN 1 ELSE b * Pow(b, e - 1)

\* (point, weight) pairs of dimension d are numbered 0 .. NC^d * NW - 1
PairWeight(k)      == WMin + (k % NW)
PairPoint(k, d)    == [c \in 1..d |-> CMin + (((k \div NW) \div Pow(NC, c - 1)) % NC)]

\* instances are enumerated up to the order of the points (non-decreasing pair numbers);
\* InvPermute states that the order does not matter
Init ==
    /\ dim \in Dims
    /\ \E n \in NMin..NMax :
         \E s \in [1..n -> 0..(Pow(NC, dim) * NW - 1)] :
            /\ \A i \in 1..(n - 1) : s[i] <= s[i + 1]
            /\ pts = [i \in 1..n |-> PairPoint(s[i], dim)]
            /\ wts = [i \in 1..n |-> PairWeight(s[i])]
    /\ pc = "in"
    /\ res = [st |-> "none", roots |-> <<>>, det |-> 0, sq |-> 0]

\* if n_samples < n_dim + 1: return 1e10
Guard ==
    /\ pc = "in" /\ Len(pts) < dim + 1
    /\ res' = Eval(pts, wts)
    /\ pc' = "done"
    /\ UNCHANGED <<dim, pts, wts>>

\* matrix_rank(cov) < n_dim: cov + 1e-6 * trace(cov) * I   (value not specified here)
Regularise ==
    /\ pc = "in" /\ Len(pts) >= dim + 1
    /\ LET r == Eval(pts, wts) IN r.st = "singular" /\ res' = r
    /\ pc' = "done"
    /\ UNCHANGED <<dim, pts, wts>>

Evaluate ==
    /\ pc = "in" /\ Len(pts) >= dim + 1
    /\ LET r == Eval(pts, wts) IN r.st = "ok" /\ res' = r
    /\ pc' = "done"
    /\ UNCHANGED <<dim, pts, wts>>

Next == Guard \/ Regularise \/ Evaluate

Spec == Init /\ [][Next]_vars

-----------------------------------------------------------------------------
(* Properties (C20, volume-variation clause) *)

TypeOK ==
    /\ pc \in {"in", "done"}
    /\ dim \in Dims
    /\ res.st \in {"none", "guard", "singular", "ok"}

Ok == pc = "done" /\ res.st = "ok"

\* CV2 is a sum of squares of rationals with positive denominators; the covariance is positive definite
NonNegative ==
    Ok => /\ res.det > 0
          /\ \A i \in DOMAIN res.roots : res.roots[i][2] > 0

\* the guard and the regularisation branch are taken exactly for too few / affinely dependent points
DegenerateIff ==
    pc = "done" =>
        /\ (res.st = "guard") <=> (Len(pts) < dim + 1)
        /\ (res.st = "singular") <=>
              /\ Len(pts) >= dim + 1
              /\ IF dim = 1 THEN \A i, j \in DOMAIN pts : pts[i] = pts[j]
                 ELSE \A i, j, k \in DOMAIN pts :
                        (pts[j][1] - pts[i][1]) * (pts[k][2] - pts[i][2])
                      = (pts[j][2] - pts[i][2]) * (pts[k][1] - pts[i][1])

\* rescaling the weights
InvWeightScale ==
    Ok => \A a \in {2, 3} : Eval(pts, ScaleW(a, wts)).roots = res.roots

\* reordering the points permutes the terms (hence leaves the sum unchanged)
InvPermute ==
    Ok => \A p \in PermGens(Len(pts)) :
            Eval(Permute(p, pts), Permute(p, wts)).roots = Permute(p, res.roots)

\* translations, invertible linear maps, and their compositions
InvTranslate ==
    Ok => \A b \in Shifts(dim) : Eval(Affine(Ident(dim), b, pts, dim), wts).roots = res.roots
InvLinear ==
    Ok => \A A \in Maps(dim) : Eval(Affine(A, Zero(dim), pts, dim), wts).roots = res.roots
\* compositions: every linear map with one of the shifts (and the weights doubled)
AffinePairs(d) == IF d = 1 THEN { << << <<2>> >>, <<5>> >>, << << <<-3>> >>, <<-7>> >>, << << <<-1>> >>, <<5>> >> }
                  ELSE { << << <<2, 0>>, <<0, 1>> >>, <<5, -7>> >>,   << << <<1, 0>>, <<0, 3>> >>, <<-4, 0>> >>,
                         << << <<1, 1>>, <<0, 1>> >>, <<0, 9>> >>,    << << <<0, -1>>, <<1, 0>> >>, <<5, -7>> >>,
                         << << <<0, 1>>, <<1, 0>> >>, <<-4, 0>> >>,   << << <<2, 1>>, <<0, 1>> >>, <<0, 9>> >>,
                         << << <<-1, 0>>, <<0, 1>> >>, <<5, -7>> >> }
InvAffine ==
    Ok => \A ab \in AffinePairs(dim) :
            LET r == Eval(Affine(ab[1], ab[2], pts, dim), ScaleW(2, wts))
            IN  r.st = "ok" /\ r.roots = res.roots

\* the influence terms have weighted mean zero:  sum_i (v_i/W) d2_i = n_dim   (trace identity)
\*   sum_i v_i (W q_i - k det) = 0   <=>   sum_i v_i q_i = k det     (k the centring constant used)
MeanDevZero ==
    Ok => res.sq = CentreConst(dim) * res.det

\* the one-pass second-moment form is the same matrix in exact arithmetic: C = W (W S2 - M M^T)
\* (so computing the covariance that way is wrong only numerically - by cancellation)
OnePassEqual ==
    Ok => LET v == Normed(wts)  W == Sum(v)
              C == CovN(Centred(pts, v, dim), v, dim)
              K == OnePassN(pts, v, dim)
          IN  \A r, c \in 1..dim : C[r][c] = W * K[r][c]

=============================================================================
