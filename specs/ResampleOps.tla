---------------------------- MODULE ResampleOps ----------------------------
(***************************************************************************)
(* Constant-level operators shared by Resample.tla (the model that TLC     *)
(* explores and whose states are replayed into the code) and               *)
(* ResampleTrace.tla (which judges outcomes observed from the real code).  *)
(*                                                                         *)
(* Encoding.  A weight vector is a sequence a of naturals over a           *)
(* denominator Q:  w_j = a[j]/Q.  Total(a) = Q is "sum exactly one";       *)
(* Total(a) # Q models the tolerance clause (sum = 1 -/+ eps).  The offset *)
(* of the comb is u0 = k/(2Q), k \in 0..2Q-1.  Tooth i (0-based) sits at   *)
(* pos_i = (u0 + i)/n and is only ever compared with cumulative sums       *)
(* A_j/Q, so every comparison is the integer comparison                    *)
(*        pos_i  ~  A_j/Q     <=>     k + 2Q*i  ~  2n*A_j .                *)
(* Indices are 1-based here (TLA+ sequences); the harness shifts by one.   *)
(***************************************************************************)
EXTENDS Integers, Sequences, FiniteSets, FiniteSetsExt

MinOf(S) == CHOOSE x \in S : \A y \in S : x <= y
MaxOf(S) == CHOOSE x \in S : \A y \in S : x >= y

RECURSIVE SumTo(_, _)
SumTo(a, j) == IF j = 0 THEN 0 ELSE SumTo(a, j - 1) + a[j]      \* A_j, numerator of the cumulative sum
Total(a)   == SumTo(a, Len(a))
LastPos(a) == MaxOf({j \in DOMAIN a : a[j] > 0})                 \* last index with positive weight

PosGT(n, Q, k, i, A) == k + 2 * Q * i >  2 * n * A               \* positions[i] >  cumulative_sum
PosGE(n, Q, k, i, A) == k + 2 * Q * i >= 2 * n * A               \* positions[i] >= cumulative_sum

\* offsets (in units 1/(2Q)) at which some tooth coincides with some cumulative sum
Breakpoints(n, a, Q) ==
    {b \in {2 * n * SumTo(a, j) - 2 * Q * i : i \in 0..(n - 1), j \in DOMAIN a} : 0 <= b /\ b < 2 * Q}
IsBreak(n, a, Q, k) == \E i \in 0..(n - 1), j \in DOMAIN a : k + 2 * Q * i = 2 * n * SumTo(a, j)

-----------------------------------------------------------------------------
(* The intended comb, as a definition: tooth i selects the index of the    *)
(* half-open cell [A_{j-1}, A_j) that contains it; a tooth beyond the last *)
(* cumulative sum (possible only when the weights sum to less than one)    *)
(* belongs to the last index with positive weight.                         *)

CellIndex(n, a, Q, k, i) ==
    LET S == {j \in DOMAIN a : ~PosGE(n, Q, k, i, SumTo(a, j))}
    IN  IF S = {} THEN LastPos(a) ELSE MinOf(S)

(* The same, shaped like the implementation's loop                         *)
(*     j = 0; cs = w[0]                                                    *)
(*     for i in range(n):                                                  *)
(*         while pos[i] >= cs and j < last: j += 1; cs += w[j]             *)
(*         idx[i] = j                                                      *)
RECURSIVE IntendedLoop(_, _, _, _, _, _, _, _, _)
IntendedLoop(n, a, Q, k, L, i, j, cs, out) ==
    IF i = n THEN out
    ELSE IF PosGE(n, Q, k, i, cs) /\ j < L
         THEN IntendedLoop(n, a, Q, k, L, i, j + 1, cs + a[j + 1], out)
         ELSE IntendedLoop(n, a, Q, k, L, i + 1, j, cs, Append(out, j))

Intended(n, a, Q, k) ==
    [out |-> IntendedLoop(n, a, Q, k, LastPos(a), 0, 1, a[1], <<>>), err |-> FALSE]

(* The pinned code: strict comparison and no bound on j.  Running off the  *)
(* end of the weight vector ("index out of range") is an outcome.          *)
RECURSIVE ImplLoop(_, _, _, _, _, _, _, _)
ImplLoop(n, a, Q, k, i, j, cs, out) ==
    IF i = n THEN [out |-> out, err |-> FALSE]
    ELSE IF PosGT(n, Q, k, i, cs)
         THEN IF j + 1 > Len(a) THEN [out |-> out, err |-> TRUE]
              ELSE ImplLoop(n, a, Q, k, i, j + 1, cs + a[j + 1], out)
         ELSE ImplLoop(n, a, Q, k, i + 1, j, cs, Append(out, j))

Impl(n, a, Q, k) == ImplLoop(n, a, Q, k, 0, 1, a[1], <<>>)

-----------------------------------------------------------------------------
(* Property predicates on an outcome `out` (a sequence of indices)          *)

Copies(out, j) == Cardinality({p \in DOMAIN out : out[p] = j})
CeilDiv(x, d)  == (x + d - 1) \div d

\* floor(n*w_j) and ceil(n*w_j).  When the weights do not sum to exactly one the law is read
\* "up to the accepted tolerance": w_j may be taken as given (a_j/Q) or normalised (a_j/Total).
LoCopies(n, a, Q, j) == LET S == Total(a) IN (n * a[j]) \div (IF S >= Q THEN S ELSE Q)
HiCopies(n, a, Q, j) == LET S == Total(a) IN CeilDiv(n * a[j], IF S >= Q THEN Q ELSE S)

ExactlyN(n, out)      == Len(out) = n
AllInRange(a, out)    == \A p \in DOMAIN out : out[p] \in DOMAIN a
NonDecreasing(out)    == \A p \in DOMAIN out : p > 1 => out[p - 1] <= out[p]
NoZeroWeight(a, out)  == \A p \in DOMAIN out : out[p] \in DOMAIN a => a[out[p]] > 0
FloorCeil(n, a, Q, out) ==
    \A j \in DOMAIN a : LoCopies(n, a, Q, j) <= Copies(out, j) /\ Copies(out, j) <= HiCopies(n, a, Q, j)

(* Verdict on an outcome observed from the implementation for the exact    *)
(* input (n, a, Q, k): the set of property clauses it fails.  Inside a     *)
(* cell of the offset partition (k not a breakpoint) and with weights      *)
(* summing to exactly one, systematic resampling has a single possible     *)
(* outcome, the comb's; at a breakpoint either closure convention is       *)
(* accepted as long as every clause of the property holds.                 *)
SysFails(c) ==
    IF c.err THEN {"raised"}
    ELSE LET shape == ExactlyN(c.n, c.out) /\ AllInRange(c.a, c.out) IN
         (IF ~ExactlyN(c.n, c.out) THEN {"count"} ELSE {})
    \cup (IF ~AllInRange(c.a, c.out) THEN {"range"} ELSE {})
    \cup (IF ~NoZeroWeight(c.a, c.out) THEN {"zero-weight"} ELSE {})
    \cup (IF ~NonDecreasing(c.out) THEN {"order"} ELSE {})
    \cup (IF shape /\ ~FloorCeil(c.n, c.a, c.Q, c.out) THEN {"floor-ceil"} ELSE {})
    \cup (IF shape /\ Total(c.a) = c.Q /\ ~IsBreak(c.n, c.a, c.Q, c.k)
             /\ c.out # Intended(c.n, c.a, c.Q, c.k).out THEN {"interior"} ELSE {})

-----------------------------------------------------------------------------
(* The finite partition of the offsets.  The outcome of the comb is constant *)
(* on every open interval between two consecutive breakpoints, so a finite   *)
(* set K of offsets covers "every u0 in [0,1)" when it contains 0, every      *)
(* breakpoint, and a non-breakpoint between any two consecutive breakpoints   *)
(* (and after the last one).                                                  *)

CoverageOK(n, a, Q, K) ==
    LET B == Breakpoints(n, a, Q) IN
    /\ 0 \in K /\ B \subseteq K
    /\ \A k1 \in K :
         LET up == {x \in K : x > k1} IN
         IF up = {} THEN k1 \notin B ELSE ~(k1 \in B /\ MinOf(up) \in B)

\* The partition computed from the breakpoints themselves (used where enumerating all
\* k/(2Q) is impossible): 0, every breakpoint, its two neighbours at distance one unit, and the
\* midpoint of every cell.
PartitionOffsets(n, a, Q) ==
    LET B    == Breakpoints(n, a, Q)
        P    == B \cup {0}
        nxt(x) == LET up == {y \in P : y > x} IN IF up = {} THEN 2 * Q ELSE MinOf(up)
        mids == {(x + nxt(x)) \div 2 : x \in P}
        all  == P \cup {b + 1 : b \in B} \cup {b - 1 : b \in B} \cup mids
    IN  {x \in all : 0 <= x /\ x < 2 * Q}

(* Exact unbiasedness as a counting identity over the cells of a cover K,    *)
(* outs[k] being the index vector produced at offset k:                      *)
(*     sum over cells  |cell| * copies_j(cell)  =  n * w_j      (units 1/(2Q)) *)
(* (up to n*|1 - sum w| when the weights do not sum to exactly one).  The     *)
(* cell between two consecutive offsets of K is represented by whichever of   *)
(* the two is not a breakpoint.                                               *)
AbsVal(x) == IF x < 0 THEN -x ELSE x

UnbiasedOn(n, a, Q, K, outs) ==
    LET B == Breakpoints(n, a, Q)
        nxt(k1) == LET up == {x \in K : x > k1} IN IF up = {} THEN 2 * Q ELSE MinOf(up)
        rep(k1) == IF k1 \in B /\ nxt(k1) \in K THEN nxt(k1) ELSE k1
    IN  \A jj \in DOMAIN a :
          LET s == FoldSet(LAMBDA k1, acc : acc + (nxt(k1) - k1) * Copies(outs[rep(k1)], jj), 0, K)
          IN  AbsVal(s - 2 * n * a[jj]) <= 2 * n * AbsVal(Q - Total(a))

-----------------------------------------------------------------------------
(* Multinomial: inverse-CDF lookup.  r and cdf[j] are any totally ordered   *)
(* integers (exact lattice values in Resample.tla, order ranks of the       *)
(* doubles in ResampleTrace.tla).  0 means "no cell" (r >= cdf[last]).      *)

Lookup(r, cdf) ==
    LET S == {j \in DOMAIN cdf : r < cdf[j]} IN IF S = {} THEN 0 ELSE MinOf(S)

=============================================================================
