------------------------------ MODULE RngTrace ------------------------------
(***************************************************************************)
(* Trace validation for RngStream: the recorded life of numpy's global      *)
(* stream during real library operations.  Events (JSON):                    *)
(*   Seed(fromLib, ctx, userSeed)  a call of numpy.random.seed; fromLib says  *)
(*        the calling frame is inside the tempest package; ctx is where in    *)
(*        the operation it happened ("runfresh" = between run() entry and the *)
(*        first step, "load", "midrun", "fit", "app" = the application)       *)
(*   Step(name, pre, post)  a library step: content tags of the full          *)
(*        generator state before and after                                   *)
(*   NonInterf(op, postA, postB)  the same operation on identical data under  *)
(*        two different seeds in force before it                             *)
(* Verdicts are total (failing clauses printed).                             *)
(***************************************************************************)
EXTENDS Integers, Sequences, FiniteSets, TLC, Json, IOUtils

Traces == JsonDeserialize(IOEnv.TRACE_FILE)

VARIABLES tid, l, last, seenPre, fails
vars == <<tid, l, last, seenPre, fails>>

Ev == Traces[tid].events[l]
IsEvent(e) == l <= Len(Traces[tid].events) /\ Ev.ev = e
Failing(c) == {n \in DOMAIN c : ~c[n]}
Report(f) == IF f = {} THEN TRUE ELSE PrintT(<<"FAIL", tid, l, Ev.ev, f>>)

Init == tid \in 1..Len(Traces) /\ l = 1 /\ last = -1 /\ seenPre = {} /\ fails = {}

\* RngStream!NoLibReseed: the library may seed only at the start of a fresh run, with the user's random_state
TSeed ==
    /\ IsEvent("Seed")
    /\ fails' = Failing([SD_NoLibReseed |-> Ev.fromLib => (Ev.ctx = "runfresh" /\ Ev.userSeed)])
    /\ Report(fails')
    /\ last' = -1                       \* the stream was (legitimately or not) reset: continuity restarts
    /\ l' = l + 1 /\ UNCHANGED <<tid, seenPre>>

TStep ==
    /\ IsEvent("Step")
    /\ fails' = Failing([ST_NoReplay    |-> (Ev.pre # Ev.post) => Ev.pre \notin seenPre,    \* RngStream!NoReplay
                         ST_Continuous  |-> last = -1 \/ Ev.pre = last])                    \* nobody moved the stream in between
    /\ Report(fails')
    /\ seenPre' = IF Ev.pre # Ev.post THEN seenPre \cup {Ev.pre} ELSE seenPre
    /\ last' = Ev.post
    /\ l' = l + 1 /\ UNCHANGED tid

TNonInterf ==
    /\ IsEvent("NonInterf")
    /\ fails' = Failing([NI_DependsOnSeedBefore |-> Ev.postA # Ev.postB])
    /\ Report(fails')
    /\ l' = l + 1 /\ UNCHANGED <<tid, last, seenPre>>

Next == TSeed \/ TStep \/ TNonInterf
Spec == Init /\ [][Next]_vars
TypeOK == l >= 1 /\ l <= Len(Traces[tid].events) + 1
=============================================================================
