---------------------------- MODULE HGMTraceData ----------------------------
(* Example / placeholder.  checks/c15.py generates this module per batch of  *)
(* recorded traces (it is overwritten in TLC's scratch directory only).      *)
(* Ranks: -1 = NaN, 0 = -infinity, >= 1 finite values in increasing order.   *)
EXTENDS Integers

Traces == <<
  [n |-> 4, minPts |-> 2, maxIter |-> 3, ev |-> <<
     [ev |-> "E", size |-> 4, imp |-> 3, thr |-> 2, asked |-> TRUE,  lab |-> <<0, 1, 1, 0>>, K |-> 0, labels |-> <<>>, label |-> 0],
     [ev |-> "E", size |-> 2, imp |-> 1, thr |-> 2, asked |-> FALSE, lab |-> <<>>, K |-> 0, labels |-> <<>>, label |-> 0],
     [ev |-> "E", size |-> 2, imp |-> -1, thr |-> 2, asked |-> FALSE, lab |-> <<>>, K |-> 0, labels |-> <<>>, label |-> 0],
     [ev |-> "K", size |-> 0, imp |-> 0, thr |-> 0, asked |-> FALSE, lab |-> <<>>, K |-> 2, labels |-> <<>>, label |-> 0],
     [ev |-> "L", size |-> 0, imp |-> 0, thr |-> 0, asked |-> FALSE, lab |-> <<>>, K |-> 0, labels |-> <<0, 1, 1, 0>>, label |-> 0],
     [ev |-> "P", size |-> 0, imp |-> 0, thr |-> 0, asked |-> FALSE, lab |-> <<>>, K |-> 0, labels |-> <<>>, label |-> 1]
  >>],
  [n |-> 3, minPts |-> 4, maxIter |-> 1000, ev |-> <<
     [ev |-> "K", size |-> 0, imp |-> 0, thr |-> 0, asked |-> FALSE, lab |-> <<>>, K |-> 1, labels |-> <<>>, label |-> 0],
     [ev |-> "L", size |-> 0, imp |-> 0, thr |-> 0, asked |-> FALSE, lab |-> <<>>, K |-> 0, labels |-> <<0, 0, 0>>, label |-> 0],
     [ev |-> "P", size |-> 0, imp |-> 0, thr |-> 0, asked |-> FALSE, lab |-> <<>>, K |-> 0, labels |-> <<>>, label |-> 0]
  >>]
>>
=============================================================================
