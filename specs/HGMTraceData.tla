---------------------------- MODULE HGMTraceData ----------------------------
(* Example / placeholder.  checks/c15.py generates this module per batch of  *)
(* real fits (it is overwritten in TLC's scratch directory only).            *)
(* orc = the observed oracle as a function of the cluster; ranks: -1 = NaN,  *)
(* 0 = -infinity, >= 1 finite values in increasing order.                    *)
EXTENDS Integers

Traces == <<
  [n |-> 4, minPts |-> 2, maxIter |-> 3,
   orc |-> <<
     [ids |-> {1, 2, 3, 4}, imp |-> 3, thr |-> 2, known |-> TRUE,  c1 |-> {1, 4}],
     [ids |-> {1, 4},       imp |-> 1, thr |-> 2, known |-> FALSE, c1 |-> {}],
     [ids |-> {2, 3},       imp |-> -1, thr |-> 2, known |-> FALSE, c1 |-> {}]
   >>,
   K |-> 2, labels |-> <<0, 1, 1, 0>>, preds |-> {1}, hasSplits |-> TRUE, splits |-> << <<1, 1>> >>],
  [n |-> 3, minPts |-> 4, maxIter |-> 1000,
   orc |-> <<>>,
   K |-> 1, labels |-> <<0, 0, 0>>, preds |-> {0}, hasSplits |-> FALSE, splits |-> <<>>]
>>
=============================================================================
