------------------------------ MODULE GMMPair ------------------------------
(***************************************************************************)
(* "Integer sample weights are equivalent to replicating points" (C15) as a *)
(* RELATIONAL property of two runs of GaussianMixture.fit stepping in       *)
(* lock-step at the grain of one EM iteration                               *)
(*     E-step ; M-step ; lower bound ; convergence test  new - old < tol    *)
(*   run A : fit(X, sample_weight = k)        k_i positive integers         *)
(*   run B : fit(repeat(X, k))                unit weights                  *)
(* with the same random_state.                                              *)
(*                                                                          *)
(* Coupling relation R, established by the initialisation and preserved by  *)
(* every iteration:                                                         *)
(*   Init   the weighted k-means++ picks go through the cumulative          *)
(*          normalised weights: point p owns the interval (C_{p-1}, C_p]    *)
(*          in run A and its k_p replicas own the same interval, cut into   *)
(*          k_p pieces, in run B; both runs draw the same uniforms (private *)
(*          RandomState seeded identically), so every draw selects the same *)
(*          POINT unless r * total lies within rounding of a cumulative     *)
(*          boundary (pickTie: the pair is outside the antecedent and is    *)
(*          EXCLUDED, not failed).  Same picks => same initial parameters.  *)
(*   Step   equal component weights / means / covariances and equal lower   *)
(*          bound after the iteration, hence the same convergence decision; *)
(*   Final  same number of iterations, the fitted attributes are the last   *)
(*          iterate, equal fitted parameters, equal predictions on the      *)
(*          original points and equal BIC on the same evaluation set.       *)
(* Each run must also have the SHAPE of the EM loop: it continues exactly   *)
(* while the test fails and stops at the first iteration whose gap is below *)
(* tol (or at max_iter).                                                    *)
(*                                                                          *)
(* Input (JSON list of pairs): tags are dense ids shared by the two runs of *)
(* a pair (equal tag <=> equal up to 1e-9 relative - decided by the         *)
(* projection and recorded in the replay file); gap / tol are order ranks   *)
(* of the floats new - old and tol of the pair (-1 = NaN), so the           *)
(* convergence test itself is decided exactly, here.  Verdicts are total:   *)
(* every step is consumed and the failing clause names are printed.         *)
(***************************************************************************)
EXTENDS Integers, Sequences, FiniteSets, TLC, Json, IOUtils

Pairs == JsonDeserialize(IOEnv.TRACE_FILE)

VARIABLES pid, i, diverged, excluded, fails

vars == <<pid, i, diverged, excluded, fails>>

P == Pairs[pid]
LenMin == IF Len(P.a) < Len(P.b) THEN Len(P.a) ELSE Len(P.b)

Failing(c) == {n \in DOMAIN c : ~c[n]}
Report(f) == IF f = {} THEN TRUE ELSE PrintT(<<"FAIL", pid, i, f>>)

\* the code's test `new_lower_bound - lower_bound < self.tol` on ranks (NaN compares false)
Stops(x) == x.gap # -1 /\ x.gap < P.tol

Init == pid \in 1..Len(Pairs) /\ i = 0 /\ diverged = FALSE /\ excluded = FALSE /\ fails = {}

\* initialisation: same picks (as points), same initial parameters
InitStep ==
    /\ i = 0
    /\ LET samePicks == P.picksA = P.picksB
           f == Failing([SamePicks      |-> samePicks \/ P.pickTie,
                         SameInitParams |-> (samePicks => P.init.a = P.init.b)])
       IN /\ excluded' = (~samePicks /\ P.pickTie)
          /\ (IF excluded' THEN PrintT(<<"EXCLUDED", pid>>) ELSE TRUE)
          /\ fails' = f
          /\ diverged' = (f # {})
          /\ Report(f)
    /\ i' = 1
    /\ UNCHANGED pid

StepClauses(x, y) ==
    [SameWeights     |-> x.w = y.w,
     SameMeans       |-> x.mu = y.mu,
     SameCovariances |-> x.cov = y.cov,
     SameLowerBound  |-> x.lb = y.lb,
     SameDecision    |-> Stops(x) = Stops(y),
     \* each run has the shape of the loop: continue while the test fails, stop when it holds
     LoopShapeA      |-> IF i < Len(P.a) THEN ~Stops(x) ELSE (Stops(x) \/ i = P.maxIter),
     LoopShapeB      |-> IF i < Len(P.b) THEN ~Stops(y) ELSE (Stops(y) \/ i = P.maxIter)]

Step ==
    /\ i >= 1 /\ i <= LenMin
    /\ LET f == IF excluded THEN {} ELSE Failing(StepClauses(P.a[i], P.b[i])) IN
       /\ fails' = f
       /\ diverged' = (diverged \/ f # {})
       /\ Report(f)
    /\ i' = i + 1
    /\ UNCHANGED <<pid, excluded>>

Final ==
    /\ i = LenMin + 1
    /\ LET F == P.fin
           f == IF excluded THEN {}
                ELSE Failing([SameLength             |-> Len(P.a) = Len(P.b),
                              NIterIsLength          |-> F.nIterA = Len(P.a) /\ F.nIterB = Len(P.b),
                              FittedIsLastIterate    |-> F.lastA /\ F.lastB,
                              SameFittedWeights      |-> F.wa = F.wb,
                              SameFittedMeans        |-> F.ma = F.mb,
                              SameFittedCovariances  |-> F.ca = F.cb,
                              SamePredictions        |-> F.pa = F.pb,
                              SameBic                |-> F.ba = F.bb])
       IN /\ fails' = f
          /\ diverged' = (diverged \/ f # {})
          /\ Report(f)
    /\ i' = i + 1
    /\ UNCHANGED <<pid, excluded>>

Next == InitStep \/ Step \/ Final
Spec == Init /\ [][Next]_vars

TypeOK == i >= 0 /\ i <= LenMin + 2
=============================================================================
